#!/bin/bash
# Exits non-zero when the arguments of [compress]/[slicedFormat] reach the generator reordered or with elements missing.
WT="$1"
BIN="$WT/target/debug/slicec"
[ -x "$BIN" ] || (cd "$WT" && CARGO_TARGET_DIR="$WT/target" cargo build --offline -q) || exit 0
TMP=$(mktemp -d); trap 'rm -rf "$TMP"' EXIT
cat > "$TMP/m.slice" <<'S'
module M
interface I {
    [compress(Return, Args)] [slicedFormat(Return, Args)] [foo::x(Return, Args)] a()
    [compress(Args, Args)] b()
}
S
cat > "$TMP/gen.sh" <<'G'
#!/bin/bash
cat > "$(dirname "$0")/request.bin"
printf '\x00\x00'
G
chmod +x "$TMP/gen.sh"
cd "$TMP" && "$BIN" m.slice -G ./gen.sh > out.txt 2> err.txt || { echo "compile failed"; cat err.txt; exit 0; }
# Strings are size-prefixed (size<<2 in one byte): "Return" = 18 52..., "Args" = 10 41...
python3 - "$TMP/request.bin" <<'P'
import sys
d = open(sys.argv[1], 'rb').read()
ret, arg = b'\x18Return', b'\x10Args'
def after(directive):
    i = d.index(bytes([len(directive) << 2]) + directive) + 1 + len(directive)
    n = d[i] >> 2; i += 1; out = []
    for _ in range(n):
        l = d[i] >> 2; out.append(d[i+1:i+1+l].decode()); i += 1 + l
    return out, i
bad = []
c1, _ = after(b'compress')
s1, _ = after(b'slicedFormat')
f1, _ = after(b'foo::x')
j = d.index(b'\x20compress', d.index(b'\x20compress') + 1)
n = d[j+9] >> 2
print("compress(Return, Args)     ->", c1)
print("slicedFormat(Return, Args) ->", s1)
print("foo::x(Return, Args)       ->", f1)
print("compress(Args, Args)       -> %d argument(s)" % n)
if c1 != ['Return', 'Args']: bad.append('compress order')
if s1 != ['Return', 'Args']: bad.append('slicedFormat order')
if n != 2: bad.append('compress duplicate dropped')
if bad:
    print("VIOLATION:", ', '.join(bad)); sys.exit(1)
sys.exit(0)
P
