#!/bin/bash
# Exits non-zero when the violation is present: an escaped identifier (`\bool`), which by definition is NOT the
# keyword, is resolved to the built-in primitive instead of being reported as an undefined type (E033).
WT="${1:?usage: demo.sh <worktree>}"
BIN="$WT/target/debug/slicec"
if [ ! -x "$BIN" ]; then
  (cd "$WT" && CARGO_TARGET_DIR="$WT/target" cargo build --offline -q -p slicec) || exit 0
fi
DIR=$(mktemp -d)
trap 'rm -rf "$DIR"' EXIT
# No type named `bool`, `string` or `uint8` is defined anywhere; control: `\nothing` is correctly E033.
printf 'module M\nstruct S { a: \\bool, b: ::\\string }\nenum E : \\uint8 { A = 300 }\n' > "$DIR/t.slice"
printf 'module M\nstruct S { a: \\nothing }\n' > "$DIR/control.slice"
OUT=$("$BIN" --dry-run --diagnostic-format json "$DIR/t.slice" 2>&1)
CTRL=$("$BIN" --dry-run --diagnostic-format json "$DIR/control.slice" 2>&1)
echo "$OUT"
echo "$CTRL" | grep -q '"E033"' || { echo "control did not behave as expected"; exit 0; }
if echo "$OUT" | grep -q '"E033"'; then
  echo "OK: escaped identifiers are reported as undefined"
  exit 0
fi
echo "VIOLATION: \\bool / ::\\string / \\uint8 were bound to the primitive types (no E033)"
exit 1
