#!/bin/bash
# Exits non-zero when a schema-valid reply whose diagnostic carries an unknown level of the UNCHECKED enum
# DiagnosticLevel is refused as a whole (and the generated file it contains is not written).
WT="$1"
BIN="$WT/target/debug/slicec"
[ -x "$BIN" ] || (cd "$WT" && CARGO_TARGET_DIR="$WT/target" cargo build --offline -q) || exit 0
grep -q 'unchecked enum DiagnosticLevel' "$WT/slice/Compiler/CodeGenerator.slice" || { echo "schema no longer declares DiagnosticLevel unchecked"; exit 0; }
TMP=$(mktemp -d); trap 'rm -rf "$TMP"' EXIT
printf 'module M\nstruct S {}\n' > "$TMP/m.slice"
cat > "$TMP/gen.sh" <<'G'
#!/bin/bash
cat > /dev/null
# generatedFiles = [ {path:"a", contents:"b"} ], diagnostics = [ {level: 3, message: "m", source: none} ]
printf '\x04\x04a\x04b\xfc' ; printf '\x04\x00\x03\x04m\xfc'
G
chmod +x "$TMP/gen.sh"
mkdir "$TMP/out"
cd "$TMP" && "$BIN" m.slice -G ./gen.sh -O out > out.txt 2> err.txt
code=$?
if [ $code -ne 0 ] && grep -q 'DiagnosticLevel' err.txt && [ ! -f out/a ]; then
  echo "VIOLATION: reply refused because of level 3 of an unchecked enum:"; head -2 err.txt
  exit 1
fi
echo "ok"; exit 0
