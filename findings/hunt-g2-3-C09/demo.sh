#!/bin/bash
# usage: demo.sh <worktree>; exits non-zero when the violation is present.
WT=${1:?worktree path}
export CARGO_TARGET_DIR=${CARGO_TARGET_DIR:-$WT/target}
BIN=$CARGO_TARGET_DIR/debug/slicec
(cd "$WT" && cargo build --offline -q -p slicec >/dev/null 2>&1)
[ -x "$BIN" ] || { echo "cannot build slicec"; exit 0; }
TMP=$(mktemp -d); trap 'rm -rf "$TMP"' EXIT
cd "$TMP"
# A span covering several lines, one of which is blank.
printf 'module M\ninterface I {\n    op() -> (\n\n        x: int32\n    )\n}\n' > a.slice
"$BIN" --disable-color a.slice > a.out 2>&1
printf 'module M\nstruct S { a: int32 } /* unterminated\n\n' > b.slice
"$BIN" --disable-color b.slice > b.out 2>&1
bad=0
# The line after the blank source line must not carry the zero-width point marker '/\'.
if grep -A1 -E '^4 +\| *$' a.out | tail -1 | grep -qF '|/\'; then echo "VIOLATION: blank line 4 inside span 3:13-6:6 is marked with the point marker:"; cat a.out; bad=1; fi
if grep -A1 -E '^3 +\| *$' b.out | tail -1 | grep -qF '|/\'; then echo "VIOLATION: blank line 3 inside the unterminated comment is marked with the point marker:"; cat b.out; bad=1; fi
exit $bad
