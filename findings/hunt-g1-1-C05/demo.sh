#!/bin/bash
# Cycle detection takes time exponential in the number of structs when a dense acyclic
# graph of structs sits above one small cycle (X <-> Y). 30 structs, ~3.4 KB of input.
# Exits non-zero if slicec does not finish within 20 s (violation), 0 otherwise.
WT="${1:?usage: demo.sh <worktree>}"
BIN="$WT/target/debug/slicec"
if [ ! -x "$BIN" ]; then
    (cd "$WT" && CARGO_TARGET_DIR="$WT/target" cargo build --offline -q) || { echo "build failed"; exit 0; }
fi
TMP=$(mktemp -d)
trap 'rm -rf "$TMP"' EXIT
python3 - "$TMP/in.slice" <<'PY'
import sys
n = 30
s = "module M\nstruct X {y:Y}\nstruct Y {x:X?}\n"
for i in range(n):
    s += "struct S%d {" % i + ",".join("f%d:S%d" % (j, j) for j in range(i)) + ("," if i else "") + "x:X}\n"
open(sys.argv[1], "w").write(s)
PY
echo "input size: $(wc -c < "$TMP/in.slice") bytes"
timeout 20 "$BIN" --dry-run --disable-color "$TMP/in.slice" > "$TMP/out.txt" 2>&1
rc=$?
if [ $rc -eq 124 ]; then
    echo "VIOLATION: slicec did not terminate within 20 s on a $(wc -c < "$TMP/in.slice")-byte input containing one 2-struct cycle"
    exit 1
fi
if [ $rc -ge 100 ]; then
    echo "VIOLATION: slicec crashed (rc=$rc)"; tail -5 "$TMP/out.txt"
    exit 1
fi
echo "ok: finished with rc=$rc"; tail -1 "$TMP/out.txt"
exit 0
