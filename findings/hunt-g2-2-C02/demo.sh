#!/bin/bash
# usage: demo.sh <worktree>; exits non-zero when the violation is present.
WT=${1:?worktree path}
export CARGO_TARGET_DIR=${CARGO_TARGET_DIR:-$WT/target}
BIN=$CARGO_TARGET_DIR/debug/slicec
(cd "$WT" && cargo build --offline -q -p slicec >/dev/null 2>&1)
[ -x "$BIN" ] || { echo "cannot build slicec"; exit 0; }
TMP=$(mktemp -d); trap 'rm -rf "$TMP"' EXIT
cd "$TMP"
# '\bool' is the escaped identifier 'bool' (a user-defined type called bool), not the keyword.
# No such type is defined, so this must be E033 like any other unknown name.
printf 'module M\nstruct S { a: \\bool, b: ::\\string, c: Sequence<\\varint62> }\n' > a.slice
"$BIN" --diagnostic-format json a.slice > a.out 2>&1; rc_a=$?
# control: an escaped non-primitive keyword is rejected as expected
printf 'module M\nstruct S { a: \\Sequence }\n' > b.slice
"$BIN" --diagnostic-format json b.slice > b.out 2>&1; rc_b=$?
grep -q 'E033' b.out || { echo "control failed (escaped 'Sequence' not rejected)"; cat b.out; }
if [ $rc_a -eq 0 ] && ! grep -q 'E033' a.out; then
  echo "VIOLATION: escaped identifiers \\bool, ::\\string, \\varint62 silently resolved to the primitive types"; exit 1
fi
exit 0
