#!/bin/bash
# Exits non-zero when doc-comment tags that fit nothing on the operation (an unnamed '@returns' on a return tuple, a
# second '@param' for the same parameter, a second unnamed '@returns') are accepted without any warning AND are missing
# from the request sent to the generator.
WT="${1:?usage: demo.sh <worktree>}"
export CARGO_TARGET_DIR="$WT/target"
(cd "$WT" && cargo build --offline -q -p slicec 2>/dev/null)
BIN="$WT/target/debug/slicec"
[ -x "$BIN" ] || { echo "slicec binary not found"; exit 0; }
TMP=$(mktemp -d)
trap 'rm -rf "$TMP"' EXIT
cat > "$TMP/gen.sh" <<'GEN'
#!/bin/bash
cat > "$(dirname "$0")/req.bin"
printf '\0\0'
GEN
chmod +x "$TMP/gen.sh"
cat > "$TMP/t.slice" <<'SLICE'
module M
interface I {
    /// @returns: UNNAMED_ON_TUPLE
    /// @returns a: NAMED_A
    op1() -> (a: bool, b: bool)

    /// @param a: FIRST_PARAM
    /// @param a: SECOND_PARAM
    op2(a: bool)

    /// @returns: FIRST_RET
    /// @returns: SECOND_RET
    op3() -> bool
}
SLICE
ERR=$(cd "$TMP" && "$BIN" --diagnostic-format json -G ./gen.sh t.slice 2>&1)
STATUS=$?
echo "exit status $STATUS, diagnostics: '${ERR}'"
[ -f "$TMP/req.bin" ] || { echo "generator was not run"; exit 0; }
FOUND=$(strings "$TMP/req.bin" | grep -o 'UNNAMED_ON_TUPLE\|NAMED_A\|FIRST_PARAM\|SECOND_PARAM\|FIRST_RET\|SECOND_RET' | sort -u | tr '\n' ' ')
echo "texts present in the generator request: $FOUND"
BAD=0
for t in UNNAMED_ON_TUPLE SECOND_PARAM SECOND_RET; do
    if ! strings "$TMP/req.bin" | grep -q "$t"; then
        if ! echo "$ERR" | grep -q 'IncorrectDocComment'; then
            echo "VIOLATION: tag message $t is neither transmitted nor warned about"
            BAD=1
        fi
    fi
done
exit $BAD
