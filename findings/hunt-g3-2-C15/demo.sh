#!/bin/bash
# C15: the set of warnings of an accepted program depends on the order of the files on the command line.
WT="${1:?usage: demo.sh <worktree>}"
export CARGO_TARGET_DIR="$WT/target"
(cd "$WT" && cargo build --offline -q -p slicec 2>/dev/null)
BIN="$WT/target/debug/slicec"
D=$(mktemp -d); trap 'rm -rf "$D"' EXIT
cat > "$D/a.slice" <<'X'
module A
interface S { x(y: bool) }
X
cat > "$D/b.slice" <<'X'
module A::S
/// See {@link x::y}.
struct x { y: bool }
X
(cd "$D" && "$BIN" --dry-run a.slice b.slice >ab.txt 2>&1); rab=$?
(cd "$D" && "$BIN" --dry-run b.slice a.slice >ba.txt 2>&1); rba=$?
echo "--- a.slice b.slice (exit $rab)"; cat "$D/ab.txt"
echo "--- b.slice a.slice (exit $rba)"; cat "$D/ba.txt"
wab=$(grep -c "^warning" "$D/ab.txt"); wba=$(grep -c "^warning" "$D/ba.txt")
if [ $rab -eq 0 ] && [ $rba -eq 0 ] && [ "$wab" != "$wba" ]; then
  echo "VIOLATION: accepted in both orders, but $wab warning(s) in one order and $wba in the other"
  exit 1
fi
echo "no violation"
exit 0
