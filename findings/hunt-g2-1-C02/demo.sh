#!/bin/bash
# usage: demo.sh <worktree>; exits non-zero when the violation is present.
WT=${1:?worktree path}
export CARGO_TARGET_DIR=${CARGO_TARGET_DIR:-$WT/target}
BIN=$CARGO_TARGET_DIR/debug/slicec
(cd "$WT" && cargo build --offline -q -p slicec >/dev/null 2>&1)
[ -x "$BIN" ] || { echo "cannot build slicec"; exit 0; }
TMP=$(mktemp -d); trap 'rm -rf "$TMP"' EXIT
cd "$TMP"
# '0_x10' is not an integer literal of any base (the prefix is '0x', not '0_x').
printf 'module M\nenum E : uint8 { A = 0_x10 }\n' > a.slice
"$BIN" --diagnostic-format json a.slice > a.out 2>&1; rc_a=$?
# It is silently read as hexadecimal 0x10 = 16: the duplicate-value check proves the value.
printf 'module M\nenum E : uint8 { A = 0_x10, B = 16 }\n' > b.slice
"$BIN" --diagnostic-format json b.slice > b.out 2>&1
# And a bare prefix is reported as an overflow instead of a malformed literal.
printf 'module M\nenum E : uint8 { A = 0x }\n' > c.slice
"$BIN" --diagnostic-format json c.slice > c.out 2>&1
bad=0
if [ $rc_a -eq 0 ] && ! grep -q '"severity":"error"' a.out; then echo "VIOLATION: 'A = 0_x10' accepted without any diagnostic"; bad=1; fi
if grep -q "the value '16' is already in use" b.out; then echo "VIOLATION: '0_x10' was given the value 16 (hex)"; bad=1; fi
if grep -q 'E030' c.out; then echo "VIOLATION: '0x' reported as out-of-range (E030) instead of invalid literal"; bad=1; fi
exit $bad
