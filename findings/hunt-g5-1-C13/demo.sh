#!/bin/bash
# Exits non-zero when `[allow(Deprecated)]` on a member fails to silence the Deprecated lint about a deprecated type
# that is nested in the member's own (anonymous) type.
WT="${1:?usage: demo.sh <worktree>}"
export CARGO_TARGET_DIR="$WT/target"
(cd "$WT" && cargo build --offline -q -p slicec 2>/dev/null)
BIN="$WT/target/debug/slicec"
[ -x "$BIN" ] || { echo "slicec binary not found"; exit 0; }
TMP=$(mktemp -d)
trap 'rm -rf "$TMP"' EXIT
cat > "$TMP/t.slice" <<'SLICE'
module M
[deprecated] struct Dep {}
struct S {
    [allow(Deprecated)] d: Dep
    [allow(Deprecated)] a: Sequence<Dep>
}
[allow(Deprecated)] typealias T = Dictionary<int32, Dep>
interface I {
    op([allow(Deprecated)] x: Result<Dep, bool>)
}
SLICE
OUT=$(cd "$TMP" && "$BIN" --dry-run --diagnostic-format json t.slice 2>&1)
echo "$OUT"
N=$(echo "$OUT" | grep -c '"error_code":"Deprecated"')
if [ "$N" -gt 0 ]; then
    echo "VIOLATION: $N Deprecated warning(s) reported although every use carries [allow(Deprecated)]"
    exit 1
fi
echo "no violation"
exit 0
