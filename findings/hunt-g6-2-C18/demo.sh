#!/bin/bash
# Violation: a reply that is a valid (empty) answer followed by arbitrary bytes is accepted and honoured, exit 0.
WT="${1:?usage: demo.sh <worktree>}"
BIN="$WT/target/debug/slicec"
if [ ! -x "$BIN" ]; then
    (cd "$WT" && CARGO_TARGET_DIR="$WT/target" cargo build --offline -q -p slicec) || exit 0
fi
T=$(mktemp -d) || exit 0
trap 'rm -rf "$T"' EXIT
cd "$T" || exit 0
mkdir out
printf 'module M\nstruct S { a: bool }\n' > ok.slice
# One generated file ("x.txt" containing "hi"), no diagnostics, then 29 bytes that belong to nothing.
cat > trailing.sh <<'G'
#!/bin/bash
cat > /dev/null
printf '\x04\x14x.txt\x08hi\xfc\x00Segmentation fault (core dumped)'
G
chmod +x trailing.sh
timeout 30 "$BIN" --disable-color ok.slice -G ./trailing.sh -O out > log.txt 2>&1; rc=$?
if [ "$rc" = 0 ] && [ -f out/x.txt ]; then
    echo "VIOLATION: reply with 32 undecoded trailing bytes was accepted (exit 0, out/x.txt written, no diagnostic):"; cat log.txt
    exit 1
fi
exit 0
