#!/bin/bash
# C03: a bare type reference written in module `A::S` is bound to a *field* of struct `A::S` (wrong kind, E017)
# instead of continuing the outward walk to the type `A::T`.
WT="${1:?usage: demo.sh <worktree>}"
export CARGO_TARGET_DIR="$WT/target"
(cd "$WT" && cargo build --offline -q -p slicec 2>/dev/null)
BIN="$WT/target/debug/slicec"
D=$(mktemp -d); trap 'rm -rf "$D"' EXIT
cat > "$D/a.slice" <<'X'
module A
struct S { T: bool }
struct T {}
X
cat > "$D/b.slice" <<'X'
module A::S
struct U { t: T }
X
# control: without the field named T in struct S the very same reference binds to A::T
cat > "$D/a2.slice" <<'X'
module A
struct S { V: bool }
struct T {}
X
(cd "$D" && "$BIN" --dry-run a2.slice b.slice >ctl.txt 2>&1); ctl=$?
(cd "$D" && "$BIN" --dry-run a.slice b.slice >out.txt 2>&1); rc=$?
cat "$D/out.txt"
if [ $ctl -eq 0 ] && [ $rc -ne 0 ] && grep -q "E017" "$D/out.txt" && grep -q "found a 'field'" "$D/out.txt"; then
  echo "VIOLATION: reference 'T' in module A::S bound to field A::S::T instead of struct A::T"
  exit 1
fi
echo "no violation"
exit 0
