#!/bin/bash
# Violation: with --diagnostic-format json the diagnostic stream (stderr) must consist of one JSON object per line
# and nothing else; the stderr text of a generator is copied into it verbatim, and without a final newline it is
# glued in front of the first diagnostic, which no longer parses.
WT="${1:?usage: demo.sh <worktree>}"
BIN="$WT/target/debug/slicec"
if [ ! -x "$BIN" ]; then
    (cd "$WT" && CARGO_TARGET_DIR="$WT/target" cargo build --offline -q -p slicec) || exit 0
fi
T=$(mktemp -d) || exit 0
trap 'rm -rf "$T"' EXIT
cd "$T" || exit 0
printf 'module M\n/// {@link Nope}\nstruct S { a: bool }\n' > w.slice   # one BrokenDocLink warning
cat > talk.sh <<'G'
#!/bin/bash
cat > /dev/null
printf 'generator: template "x" not found' >&2
printf '\0\0'
G
chmod +x talk.sh
timeout 30 "$BIN" w.slice -G ./talk.sh --diagnostic-format json --disable-color 2> diag.txt > /dev/null
bad=0
while IFS= read -r line || [ -n "$line" ]; do
    if ! printf '%s' "$line" | python3 -c 'import json,sys; d=json.loads(sys.stdin.read()); assert isinstance(d,dict) and set(d)=={"message","severity","span","notes","error_code"}' 2>/dev/null; then
        echo "VIOLATION: line of the JSON diagnostic stream is not a diagnostic object: $line"; bad=1
    fi
done < diag.txt
exit $bad
