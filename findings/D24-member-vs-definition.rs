use slicec::slice_options::SliceOptions;
fn accepted(files: &[&str]) -> bool {
    let state = slicec::compile_from_strings(files, Some(&SliceOptions::default()));
    let d = state.diagnostics.into_updated(&state.ast, &state.files, &SliceOptions::default());
    for x in &d { eprintln!("{:?} {}", x.level(), x.message()); }
    !d.iter().any(|x| matches!(x.level(), slicec::diagnostics::DiagnosticLevel::Error))
}
#[test]
fn member_vs_definition() {
    let f1 = "module A\nstruct S { x: int32 }\n";
    let f2 = "module A::S\nstruct x {}\nstruct U { f: x }\n";
    let a = accepted(&[f1, f2]);
    let b = accepted(&[f2, f1]);
    assert_eq!(a, b, "order changes acceptance");
}
