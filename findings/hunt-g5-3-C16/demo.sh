#!/bin/bash
# Exits non-zero when a doc-comment link to a user-defined type called 'returnValue' is bound to the compiler's own
# synthetic (nameless) return parameter instead, and reported as a broken link, while the very same name used as a
# type on the same operation resolves to the user's struct.
WT="${1:?usage: demo.sh <worktree>}"
export CARGO_TARGET_DIR="$WT/target"
(cd "$WT" && cargo build --offline -q -p slicec 2>/dev/null)
BIN="$WT/target/debug/slicec"
[ -x "$BIN" ] || { echo "slicec binary not found"; exit 0; }
TMP=$(mktemp -d)
trap 'rm -rf "$TMP"' EXIT
cat > "$TMP/t.slice" <<'SLICE'
module M
struct returnValue {}
interface I {
    /// Gives back a {@link returnValue}.
    /// @see returnValue
    get() -> returnValue

    /// Takes a {@link returnValue} (no return value here, so the link works).
    put(v: returnValue)
}
SLICE
OUT=$(cd "$TMP" && "$BIN" --dry-run --diagnostic-format json t.slice 2>&1)
echo "$OUT"
if echo "$OUT" | grep -q '"error_code":"BrokenDocLink"'; then
    echo "VIOLATION: link to the existing struct M::returnValue reported as broken (bound to the synthetic return parameter)"
    exit 1
fi
echo "no violation"
exit 0
