#!/bin/bash
# C03: an escaped identifier (`\bool`, `::\int32`) is an ordinary identifier, not the keyword. No user-defined element
# called `bool` / `int32` exists, so the reference designates nothing; yet it is silently bound to the primitive type,
# because the primitives sit in the same name table (under their keywords) that the global step of the walk consults.
WT="${1:?usage: demo.sh <worktree>}"
export CARGO_TARGET_DIR="$WT/target"
(cd "$WT" && cargo build --offline -q -p slicec 2>/dev/null)
BIN="$WT/target/debug/slicec"
D=$(mktemp -d); trap 'rm -rf "$D"' EXIT
printf 'module A\nstruct S { b: \\bool, c: ::\\int32 }\nenum E : \\uint8 { X }\n' > "$D/t.slice"
# control: an escaped identifier that is not a primitive keyword and designates nothing is rejected with E033
printf 'module A\nstruct S { b: \\boolean }\n' > "$D/c.slice"
(cd "$D" && "$BIN" --dry-run c.slice >ctl.txt 2>&1); ctl=$?
(cd "$D" && "$BIN" --dry-run t.slice >out.txt 2>&1); rc=$?
cat "$D/out.txt"
if [ $ctl -ne 0 ] && grep -q E033 "$D/ctl.txt" && [ $rc -eq 0 ]; then
  echo "VIOLATION: '\\bool', '::\\int32' and '\\uint8' (identifiers that designate no element) were accepted and bound to primitives"
  exit 1
fi
echo "no violation"
exit 0
