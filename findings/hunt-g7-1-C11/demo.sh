#!/bin/bash
# Exits non-zero when slicec silently accepts a generator reply that has garbage after the two sequences.
WT="$1"
BIN="$WT/target/debug/slicec"
[ -x "$BIN" ] || (cd "$WT" && CARGO_TARGET_DIR="$WT/target" cargo build --offline -q) || exit 0
TMP=$(mktemp -d); trap 'rm -rf "$TMP"' EXIT
printf 'module M\nstruct S {}\n' > "$TMP/m.slice"
cat > "$TMP/gen.sh" <<'G'
#!/bin/bash
cat > /dev/null
# empty generatedFiles, empty diagnostics, then 5 bytes that belong to nothing
printf '\x00\x00\xde\xad\xbe\xef\x07'
G
chmod +x "$TMP/gen.sh"
cd "$TMP" && "$BIN" m.slice -G ./gen.sh > out.txt 2> err.txt
code=$?
if [ $code -eq 0 ] && ! grep -q 'error' err.txt; then
  echo "VIOLATION: reply '00 00 de ad be ef 07' (5 undecoded trailing bytes) accepted, exit 0, no diagnostic"
  exit 1
fi
echo "ok: malformed reply was refused"; exit 0
