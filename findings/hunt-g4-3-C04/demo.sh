#!/bin/bash
# Exits non-zero when the violation is present: a 1.7 KB program whose only defect is ONE two-struct cycle
# (C <-> D) is not rejected in reasonable time; the cycle search takes time 2^layers because a type below which an
# on-stack type was met is never remembered as searched. The same program without the cycle compiles instantly.
WT="${1:?usage: demo.sh <worktree>}"
BIN="$WT/target/debug/slicec"
if [ ! -x "$BIN" ]; then
  (cd "$WT" && CARGO_TARGET_DIR="$WT/target" cargo build --offline -q -p slicec) || exit 0
fi
DIR=$(mktemp -d)
trap 'rm -rf "$DIR"' EXIT
gen() { # $1 = layers, $2 = type of D's field
  echo "module M"
  for ((i = 0; i < $1; i++)); do
    j=$((i + 1))
    echo "struct A$i { x: A$j, y: B$j }"
    echo "struct B$i { x: A$j, y: B$j }"
  done
  echo "struct A$1 { x: C }"
  echo "struct B$1 { x: C }"
  echo "struct C { d: D }"
  echo "struct D { c: $2 }"
}
gen 30 C > "$DIR/cyclic.slice"
gen 30 bool > "$DIR/acyclic.slice"
timeout 20 "$BIN" --dry-run "$DIR/acyclic.slice" >/dev/null 2>&1
[ $? -eq 0 ] || { echo "control (acyclic) did not compile cleanly"; exit 0; }
timeout 20 "$BIN" --dry-run --diagnostic-format json "$DIR/cyclic.slice" > "$DIR/out" 2>&1
STATUS=$?
if [ $STATUS -eq 124 ]; then
  echo "VIOLATION: $(wc -c < "$DIR/cyclic.slice") byte program with one cycle (C <-> D): no verdict after 20 s (time doubles per layer)"
  exit 1
fi
grep -q '"E032"' "$DIR/out" && { echo "OK: rejected with E032 in time"; exit 0; }
echo "unexpected result (status $STATUS)"; cat "$DIR/out"
exit 1
