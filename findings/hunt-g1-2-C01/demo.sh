#!/bin/bash
# A valid 1 KB program whose type aliases nest an anonymous type twice per level makes the
# generator request grow as 2^n: slicec does not finish (or runs out of memory) when a generator is given.
# Exits non-zero if slicec does not finish within 20 s or aborts (violation), 0 otherwise.
WT="${1:?usage: demo.sh <worktree>}"
BIN="$WT/target/debug/slicec"
if [ ! -x "$BIN" ]; then
    (cd "$WT" && CARGO_TARGET_DIR="$WT/target" cargo build --offline -q) || { echo "build failed"; exit 0; }
fi
TMP=$(mktemp -d)
trap 'rm -rf "$TMP"' EXIT
cat > "$TMP/gen.sh" <<'GEN'
#!/bin/bash
cat > /dev/null
printf '\0\0'
GEN
chmod +x "$TMP/gen.sh"
python3 - "$TMP/in.slice" <<'PY'
import sys
n = 32
s = "module M\ntypealias A0 = Sequence<bool>\n"
for i in range(1, n):
    s += "typealias A%d = Result<A%d, A%d>\n" % (i, i - 1, i - 1)
open(sys.argv[1], "w").write(s)
PY
echo "input size: $(wc -c < "$TMP/in.slice") bytes"
# the same input is accepted at once without a generator:
timeout 20 "$BIN" --dry-run --disable-color "$TMP/in.slice" > "$TMP/dry.txt" 2>&1
echo "--dry-run: rc=$? (expected 0)"
# cap the address space at 3 GB so that the demonstration cannot exhaust the machine
( ulimit -v 3000000; cd "$TMP" && timeout 20 "$BIN" --disable-color -G "$TMP/gen.sh" "$TMP/in.slice" > "$TMP/out.txt" 2>&1 )
rc=$?
if [ $rc -eq 124 ]; then
    echo "VIOLATION: with a generator, slicec did not terminate within 20 s on a valid $(wc -c < "$TMP/in.slice")-byte program"
    exit 1
fi
if [ $rc -ge 100 ]; then
    echo "VIOLATION: with a generator, slicec died (rc=$rc) on a valid program:"; tail -3 "$TMP/out.txt"
    exit 1
fi
echo "ok: finished with rc=$rc"
exit 0
