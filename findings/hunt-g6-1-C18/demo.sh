#!/bin/bash
# Violation: a generator that ends without reading its input is judged by the timing of a pipe write, not by what
# it did: its exit status and its stderr text are thrown away and replaced by "Broken pipe", while the very same
# generator is accepted (exit 0) when the request happens to fit into the pipe buffer before it ends.
WT="${1:?usage: demo.sh <worktree>}"
BIN="$WT/target/debug/slicec"
if [ ! -x "$BIN" ]; then
    (cd "$WT" && CARGO_TARGET_DIR="$WT/target" cargo build --offline -q -p slicec) || exit 0
fi
T=$(mktemp -d) || exit 0
trap 'rm -rf "$T"' EXIT
cd "$T" || exit 0

printf 'module M\nstruct S { a: bool }\n' > small.slice
{ echo 'module Big'; for i in $(seq 1 6000); do printf 'struct S%05d { a: bool }\n' "$i"; done; } > big.slice

# Generator 1: fails at start-up the way real tools do (message on stderr, status 3), never reads stdin.
cat > crash.sh <<'G'
#!/bin/bash
echo "fatal: cannot load generator configuration" >&2
exit 3
G
# Generator 2: never reads stdin, answers with a valid empty reply after 0.5s, status 0.
cat > noread.sh <<'G'
#!/bin/bash
sleep 0.5
printf '\0\0'
G
chmod +x crash.sh noread.sh

bad=0

# (a) the request (about 200 KB) does not fit the pipe: slicec must still tell the user what the generator said.
timeout 60 "$BIN" --disable-color big.slice -G ./crash.sh > out_a.txt 2>&1
if ! grep -q 'cannot load generator configuration' out_a.txt; then
    echo "VIOLATION (a): the generator's own error message and exit status were lost:"; cat out_a.txt; bad=1
fi

# (b) one and the same generator behaviour, two clean inputs: the verdict must not depend on the request size.
timeout 60 "$BIN" --disable-color small.slice -G ./noread.sh > out_s.txt 2>&1; s=$?
timeout 60 "$BIN" --disable-color big.slice   -G ./noread.sh > out_b.txt 2>&1; b=$?
if [ "$s" != "$b" ]; then
    echo "VIOLATION (b): same generator, exit $s on the small input but exit $b on the large one:"; cat out_s.txt out_b.txt; bad=1
fi
exit $bad
