#!/bin/bash
# Two files: a.slice is fine but has a doc-comment lint on a field of an enumerator; b.slice declares the same
# enumerator field and then fails to parse. `slicec a.slice b.slice` panics; `slicec b.slice a.slice` does not.
# Exits non-zero if slicec panics (violation), 0 otherwise.
WT="${1:?usage: demo.sh <worktree>}"
BIN="$WT/target/debug/slicec"
if [ ! -x "$BIN" ]; then
    (cd "$WT" && CARGO_TARGET_DIR="$WT/target" cargo build --offline -q) || { echo "build failed"; exit 0; }
fi
TMP=$(mktemp -d)
trap 'rm -rf "$TMP"' EXIT
cd "$TMP" || exit 0
printf 'module M\nenum E {\n    A(\n        /// {@nope}\n        f: bool\n    ),\n}\n' > a.slice
printf 'module M\nenum E {\n    A(f: bool),\n    ?\n}\n' > b.slice
timeout 20 "$BIN" --dry-run --disable-color b.slice a.slice > ba.txt 2>&1; rc_ba=$?
timeout 20 "$BIN" --dry-run --disable-color a.slice b.slice > ab.txt 2>&1; rc_ab=$?
echo "b.slice a.slice: rc=$rc_ba   a.slice b.slice: rc=$rc_ab   (expected 1 and 1: one syntax error, one warning)"
if [ $rc_ab -ge 100 ] || [ $rc_ba -ge 100 ] || grep -q "panicked" ab.txt ba.txt; then
    echo "VIOLATION: slicec panicked:"; grep -h -A1 "panicked" ab.txt ba.txt | head -4
    exit 1
fi
echo "ok"
exit 0
