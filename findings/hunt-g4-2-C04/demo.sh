#!/bin/bash
# Exits non-zero when the violation is present: the digit-less literals `0x` / `0b` / `0x_` are rejected with E030
# ("integer literal is outside the parsable range of -2^127 <= i <= 2^127 - 1") although nothing overflows; the rule
# they break is E031 (no legal digits for the base).
WT="${1:?usage: demo.sh <worktree>}"
BIN="$WT/target/debug/slicec"
if [ ! -x "$BIN" ]; then
  (cd "$WT" && CARGO_TARGET_DIR="$WT/target" cargo build --offline -q -p slicec) || exit 0
fi
DIR=$(mktemp -d)
trap 'rm -rf "$DIR"' EXIT
printf 'module M\nenum E { A = 0x, B = 0b, C = 0x_ }\nstruct S { tag(0x) a: bool? }\n' > "$DIR/t.slice"
OUT=$("$BIN" --dry-run --diagnostic-format json "$DIR/t.slice" 2>&1)
echo "$OUT"
if echo "$OUT" | grep -q '"E030"'; then
  echo "VIOLATION: a literal without digits is reported as an overflow (E030)"
  exit 1
fi
echo "OK"
exit 0
