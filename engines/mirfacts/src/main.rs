// mirfacts: a rustc_private driver that dumps the type-checked program (MIR bodies with resolved
// callees, ADT / trait / impl tables, constants) of every workspace crate as one JSON file per
// rustc process.  It is injected with RUSTC_WORKSPACE_WRAPPER; cargo calls
//   <wrapper> <path-to-rustc> <rustc args...>
// so argv[1] is dropped.  Output directory: $MIRFACTS_OUT (one write per process).
#![feature(rustc_private)]

extern crate rustc_abi;
extern crate rustc_driver;
extern crate rustc_hir;
extern crate rustc_interface;
extern crate rustc_middle;
extern crate rustc_session;
extern crate rustc_span;

use rustc_driver::Compilation;
use rustc_hir::def::DefKind;
use rustc_hir::def_id::{DefId, LocalDefId};
use rustc_middle::mir::{
    self, AggregateKind, BasicBlock, Body, BorrowKind, CastKind, Const, Operand, Place, PlaceElem, Rvalue,
    StatementKind, TerminatorKind, UnwindAction,
};
use rustc_middle::ty::{self, Instance, InstanceKind, Ty, TyCtxt, TypingEnv};
use rustc_span::Span;
use std::collections::HashMap;
use std::fmt::Write as _;

// ---------------------------------------------------------------- tiny JSON writer
fn esc(s: &str, out: &mut String) {
    out.push('"');
    for c in s.chars() {
        match c {
            '"' => out.push_str("\\\""),
            '\\' => out.push_str("\\\\"),
            '\n' => out.push_str("\\n"),
            '\r' => out.push_str("\\r"),
            '\t' => out.push_str("\\t"),
            c if (c as u32) < 0x20 => {
                let _ = write!(out, "\\u{:04x}", c as u32);
            }
            c => out.push(c),
        }
    }
    out.push('"');
}
fn js(s: &str) -> String {
    let mut o = String::new();
    esc(s, &mut o);
    o
}
fn jopt(s: Option<String>) -> String {
    match s {
        Some(s) => js(&s),
        None => "null".into(),
    }
}
fn jlist(v: Vec<String>) -> String {
    format!("[{}]", v.join(","))
}

struct Cx<'tcx> {
    tcx: TyCtxt<'tcx>,
    tag: String,
    files: HashMap<String, usize>,
    file_list: Vec<String>,
}

impl<'tcx> Cx<'tcx> {
    // Every path / type is printed crate-qualified: local items get the crate tag (`slicec`,
    // `slicec_bin`, `slice_codec`) so that names agree across the three fact files.
    fn qualify(&self, s: String) -> String {
        if !s.contains("crate") {
            return s;
        }
        let b = s.as_bytes();
        let mut out = String::with_capacity(s.len() + 16);
        let mut i = 0;
        while i < b.len() {
            if s[i..].starts_with("crate")
                && (i == 0 || !(b[i - 1].is_ascii_alphanumeric() || b[i - 1] == b'_'))
                && (i + 5 == b.len() || !(b[i + 5].is_ascii_alphanumeric() || b[i + 5] == b'_'))
            {
                out.push_str(&self.tag);
                i += 5;
            } else {
                let ch = s[i..].chars().next().unwrap();
                out.push(ch);
                i += ch.len_utf8();
            }
        }
        out
    }
    fn path(&self, did: DefId) -> String {
        let s = ty::print::with_no_visible_paths!(ty::print::with_crate_prefix!(ty::print::with_no_trimmed_paths!(self.tcx.def_path_str(did))));
        self.qualify(s)
    }
    fn ty(&self, t: Ty<'tcx>) -> String {
        let s = ty::print::with_no_visible_paths!(ty::print::with_crate_prefix!(ty::print::with_no_trimmed_paths!(t.to_string())));
        self.qualify(s)
    }
    fn garg(&self, a: ty::GenericArg<'tcx>) -> String {
        let s = ty::print::with_no_visible_paths!(ty::print::with_crate_prefix!(ty::print::with_no_trimmed_paths!(a.to_string())));
        self.qualify(s)
    }
    fn file_idx(&mut self, name: String) -> usize {
        if let Some(i) = self.files.get(&name) {
            return *i;
        }
        let i = self.file_list.len();
        self.files.insert(name.clone(), i);
        self.file_list.push(name);
        i
    }
    // span -> [file, line, col, expn(0/1), macro name|null, callsite file, callsite line]
    fn span(&mut self, sp: Span) -> String {
        let sm = self.tcx.sess.source_map();
        if sp.is_dummy() {
            return "null".into();
        }
        let lo = sm.lookup_char_pos(sp.lo());
        let fname = format!("{}", lo.file.name.prefer_local_unconditionally());
        let fi = self.file_idx(fname);
        if sp.from_expansion() {
            let ed = sp.ctxt().outer_expn_data();
            let mname = match ed.kind {
                rustc_span::ExpnKind::Macro(_, name) => Some(name.to_string()),
                rustc_span::ExpnKind::Desugaring(k) => Some(format!("desugar:{:?}", k)),
                _ => Some("other".to_string()),
            };
            let cs = sp.source_callsite();
            let clo = sm.lookup_char_pos(cs.lo());
            let cfname = format!("{}", clo.file.name.prefer_local_unconditionally());
            let cfi = self.file_idx(cfname);
            format!(
                "[{},{},{},1,{},{},{}]",
                fi,
                lo.line,
                lo.col.0 + 1,
                jopt(mname),
                cfi,
                clo.line
            )
        } else {
            format!("[{},{},{},0]", fi, lo.line, lo.col.0 + 1)
        }
    }

    fn adt_path_of(&self, t: Ty<'tcx>) -> Option<String> {
        match t.kind() {
            ty::Adt(def, _) => Some(self.path(def.did())),
            _ => None,
        }
    }

    fn place(&mut self, body: &Body<'tcx>, p: &Place<'tcx>) -> String {
        let tcx = self.tcx;
        let mut projs = Vec::new();
        for (base, elem) in p.iter_projections() {
            let s = match elem {
                PlaceElem::Deref => "\"*\"".to_string(),
                PlaceElem::Field(f, fty) => {
                    let bty = base.ty(body, tcx);
                    let (adt, vname, fname) = match bty.ty.kind() {
                        ty::Adt(def, _) => {
                            let vi = bty.variant_index.unwrap_or(rustc_abi::FIRST_VARIANT);
                            let v = def.variant(vi);
                            (
                                Some(self.path(def.did())),
                                if def.is_enum() { Some(v.name.to_string()) } else { None },
                                v.fields.get(f).map(|fd| fd.name.to_string()),
                            )
                        }
                        ty::Closure(did, _) => (Some(format!("closure:{}", self.path(*did))), None, None),
                        _ => (None, None, None),
                    };
                    format!(
                        "{{\"f\":{},\"n\":{},\"adt\":{},\"v\":{},\"ty\":{}}}",
                        f.index(),
                        jopt(fname),
                        jopt(adt),
                        jopt(vname),
                        js(&self.ty(fty))
                    )
                }
                PlaceElem::Index(l) => format!("{{\"idx\":{}}}", l.index()),
                PlaceElem::ConstantIndex { offset, from_end, .. } => {
                    format!("{{\"cidx\":{},\"from_end\":{}}}", offset, from_end)
                }
                PlaceElem::Subslice { from, to, from_end } => {
                    format!("{{\"sub\":[{},{}],\"from_end\":{}}}", from, to, from_end)
                }
                PlaceElem::Downcast(name, vi) => format!(
                    "{{\"dc\":{},\"vi\":{}}}",
                    jopt(name.map(|n| n.to_string())),
                    vi.index()
                ),
                PlaceElem::OpaqueCast(_) => "\"opaque\"".to_string(),
                PlaceElem::UnwrapUnsafeBinder(_) => "\"unbind\"".to_string(),
            };
            projs.push(s);
        }
        if projs.is_empty() {
            format!("{{\"l\":{}}}", p.local.index())
        } else {
            format!("{{\"l\":{},\"p\":[{}]}}", p.local.index(), projs.join(","))
        }
    }

    fn constant(&mut self, def: LocalDefId, c: &Const<'tcx>) -> String {
        let tcx = self.tcx;
        let t = c.ty();
        let tenv = TypingEnv::post_analysis(tcx, def);
        let mut extra = String::new();
        match t.kind() {
            ty::FnDef(did, args) => {
                let _ = write!(extra, ",\"fn\":{}", js(&self.path(*did)));
                let a: Vec<String> = args.iter().map(|a| js(&self.garg(a))).collect();
                let _ = write!(extra, ",\"args\":[{}]", a.join(","));
            }
            ty::Closure(did, _) => {
                let _ = write!(extra, ",\"closure\":{}", js(&self.path(*did)));
            }
            _ => {
                if let Some(si) = c.try_eval_scalar_int(tcx, tenv) {
                    let size = si.size();
                    let bits = si.to_bits(size);
                    let _ = write!(extra, ",\"bits\":\"{}\",\"size\":{}", bits, size.bytes());
                    if t.is_signed() {
                        let v = size.sign_extend(bits) as i128;
                        let _ = write!(extra, ",\"int\":\"{}\"", v);
                    } else if t.is_integral() || t.is_bool() || t.is_char() {
                        let _ = write!(extra, ",\"int\":\"{}\"", bits);
                    }
                } else if let Some(bytes) = (match (c, t.kind()) {
                    (Const::Val(cv, _), ty::Ref(_, inner, _))
                        if !matches!(cv, mir::ConstValue::Scalar(_) | mir::ConstValue::ZeroSized)
                            && (inner.is_str()
                                || matches!(inner.kind(), ty::Slice(e) if *e == tcx.types.u8)) =>
                    {
                        Some(*cv)
                    }
                    _ => None,
                })
                .and_then(|cv| cv.try_get_slice_bytes_for_diagnostics(tcx))
                {
                    if bytes.len() <= 4096 {
                        match std::str::from_utf8(bytes) {
                            Ok(s) => {
                                let _ = write!(extra, ",\"str\":{}", js(s));
                            }
                            Err(_) => {
                                let v: Vec<String> = bytes.iter().map(|b| b.to_string()).collect();
                                let _ = write!(extra, ",\"bytes\":[{}]", v.join(","));
                            }
                        }
                    }
                }
                if let Const::Ty(_, ct) = c {
                    // pattern constants (`match s { "define" => .. }`) are valtrees
                    if let Some(v) = ct.try_to_value() {
                        if let Some(bytes) = v.try_to_raw_bytes(tcx) {
                            if bytes.len() <= 4096 && !extra.contains("\"bits\"") {
                                if let Ok(s) = std::str::from_utf8(bytes) {
                                    let _ = write!(extra, ",\"str\":{}", js(s));
                                }
                            }
                        }
                    }
                }
                if let Const::Unevaluated(uv, _) = c {
                    let _ = write!(extra, ",\"uneval\":{}", js(&self.path(uv.def)));
                    if let Some(p) = uv.promoted {
                        let _ = write!(extra, ",\"promoted\":{}", p.index());
                    }
                }
            }
        }
        format!("{{\"c\":{}{}}}", js(&self.ty(t)), extra)
    }

    fn operand(&mut self, def: LocalDefId, body: &Body<'tcx>, o: &Operand<'tcx>) -> String {
        match o {
            Operand::Copy(p) => format!("{{\"cp\":{}}}", self.place(body, p)),
            Operand::Move(p) => format!("{{\"mv\":{}}}", self.place(body, p)),
            Operand::Constant(c) => self.constant(def, &c.const_),
            #[allow(unreachable_patterns)]
            _ => "{\"other\":1}".to_string(),
        }
    }

    fn rvalue(&mut self, def: LocalDefId, body: &Body<'tcx>, rv: &Rvalue<'tcx>) -> String {
        match rv {
            Rvalue::Use(o, ..) => format!("{{\"k\":\"use\",\"a\":{}}}", self.operand(def, body, o)),
            Rvalue::Repeat(o, n) => format!(
                "{{\"k\":\"repeat\",\"a\":{},\"n\":{}}}",
                self.operand(def, body, o),
                js(&format!("{:?}", n))
            ),
            Rvalue::Ref(_, bk, p) => {
                let m = matches!(bk, BorrowKind::Mut { .. });
                format!("{{\"k\":\"ref\",\"mut\":{},\"p\":{}}}", m, self.place(body, p))
            }
            Rvalue::RawPtr(k, p) => format!(
                "{{\"k\":\"rawptr\",\"mut\":{},\"p\":{}}}",
                matches!(k, mir::RawPtrKind::Mut),
                self.place(body, p)
            ),
            Rvalue::ThreadLocalRef(d) => format!("{{\"k\":\"tls\",\"def\":{}}}", js(&self.path(*d))),
            Rvalue::Cast(kind, o, t) => {
                let ks = match kind {
                    CastKind::PointerCoercion(pc, _) => format!("ptr:{:?}", pc),
                    other => format!("{:?}", other),
                };
                let from = o.ty(body, self.tcx);
                format!(
                    "{{\"k\":\"cast\",\"ck\":{},\"a\":{},\"from\":{},\"ty\":{}}}",
                    js(&ks),
                    self.operand(def, body, o),
                    js(&self.ty(from)),
                    js(&self.ty(*t))
                )
            }
            Rvalue::BinaryOp(op, ab) => {
                let (a, b) = &**ab;
                let at = a.ty(body, self.tcx);
                format!(
                    "{{\"k\":\"bin\",\"op\":{},\"a\":{},\"b\":{},\"ty\":{}}}",
                    js(&format!("{:?}", op)),
                    self.operand(def, body, a),
                    self.operand(def, body, b),
                    js(&self.ty(at))
                )
            }
            Rvalue::UnaryOp(op, a) => format!(
                "{{\"k\":\"un\",\"op\":{},\"a\":{}}}",
                js(&format!("{:?}", op)),
                self.operand(def, body, a)
            ),
            Rvalue::Discriminant(p) => {
                let pt = p.ty(body, self.tcx).ty;
                format!(
                    "{{\"k\":\"discr\",\"p\":{},\"adt\":{}}}",
                    self.place(body, p),
                    jopt(self.adt_path_of(pt))
                )
            }
            Rvalue::Aggregate(kind, ops) => {
                let fields: Vec<String> = ops.iter().map(|o| self.operand(def, body, o)).collect();
                let head = match &**kind {
                    AggregateKind::Array(t) => format!("\"ak\":\"array\",\"ty\":{}", js(&self.ty(*t))),
                    AggregateKind::Tuple => "\"ak\":\"tuple\"".to_string(),
                    AggregateKind::Adt(did, vi, _args, _, active) => {
                        let adt = self.tcx.adt_def(*did);
                        let v = adt.variant(*vi);
                        let fnames: Vec<String> = if let Some(a) = active {
                            vec![js(&v.fields[*a].name.to_string())]
                        } else {
                            v.fields.iter().map(|f| js(&f.name.to_string())).collect()
                        };
                        format!(
                            "\"ak\":\"adt\",\"adt\":{},\"v\":{},\"vi\":{},\"fn\":[{}]",
                            js(&self.path(*did)),
                            js(&v.name.to_string()),
                            vi.index(),
                            fnames.join(",")
                        )
                    }
                    AggregateKind::Closure(did, _) => {
                        format!("\"ak\":\"closure\",\"def\":{}", js(&self.path(*did)))
                    }
                    AggregateKind::Coroutine(did, _) | AggregateKind::CoroutineClosure(did, _) => {
                        format!("\"ak\":\"coroutine\",\"def\":{}", js(&self.path(*did)))
                    }
                    AggregateKind::RawPtr(t, _) => format!("\"ak\":\"rawptr\",\"ty\":{}", js(&self.ty(*t))),
                };
                format!("{{\"k\":\"agg\",{},\"ops\":[{}]}}", head, fields.join(","))
            }
            Rvalue::CopyForDeref(p) => format!("{{\"k\":\"use\",\"a\":{{\"cp\":{}}}}}", self.place(body, p)),
            Rvalue::WrapUnsafeBinder(o, _) => format!("{{\"k\":\"use\",\"a\":{}}}", self.operand(def, body, o)),
            #[allow(unreachable_patterns)]
            other => format!("{{\"k\":\"other\",\"dbg\":{}}}", js(&format!("{:?}", other))),
        }
    }

    fn unwind(&self, u: &UnwindAction) -> String {
        match u {
            UnwindAction::Cleanup(bb) => bb.index().to_string(),
            _ => "null".to_string(),
        }
    }

    fn callee(&mut self, def: LocalDefId, body: &Body<'tcx>, func: &Operand<'tcx>) -> String {
        let tcx = self.tcx;
        let fty = func.ty(body, tcx);
        match fty.kind() {
            ty::FnDef(did, args) => {
                let tenv = TypingEnv::post_analysis(tcx, def);
                let a: Vec<String> = args.iter().map(|a| js(&self.garg(a))).collect();
                let mut s = format!("{{\"def\":{},\"args\":[{}]", js(&self.path(*did)), a.join(","));
                if tcx.fn_sig(*did).skip_binder().safety().is_unsafe() {
                    let _ = write!(s, ",\"unsafe\":true");
                }
                // trait of the callee, if it is a trait method
                if let Some(tr) = tcx.trait_of_assoc(*did) {
                    let _ = write!(s, ",\"trait\":{}", js(&self.path(tr)));
                    if args.len() > 0 {
                        if let Some(st) = args[0].as_type() {
                            let _ = write!(s, ",\"self\":{}", js(&self.ty(st)));
                        }
                    }
                }
                if let Some(imp) = tcx.impl_of_assoc(*did) {
                    let st = tcx.type_of(imp).instantiate_identity().skip_norm_wip();
                    let _ = write!(s, ",\"impl_self\":{}", js(&self.ty(st)));
                }
                let resolved = std::panic::catch_unwind(std::panic::AssertUnwindSafe(|| {
                    Instance::try_resolve(tcx, tenv, *did, args)
                }));
                match resolved {
                    Ok(Ok(Some(inst))) => {
                        let (kind, rdid) = match inst.def {
                            InstanceKind::Item(d) => ("item", Some(d)),
                            InstanceKind::Virtual(d, _) => ("dyn", Some(d)),
                            InstanceKind::Intrinsic(d) => ("intrinsic", Some(d)),
                            InstanceKind::ClosureOnceShim { call_once, .. } => ("closure_once", Some(call_once)),
                            InstanceKind::FnPtrShim(d, _) => ("fnptr_shim", Some(d)),
                            InstanceKind::ReifyShim(d, _) => ("reify", Some(d)),
                            InstanceKind::DropGlue(d, _) => ("drop_glue", Some(d)),
                            InstanceKind::CloneShim(d, _) => ("clone_shim", Some(d)),
                            _ => ("other", None),
                        };
                        let _ = write!(s, ",\"rk\":{}", js(kind));
                        if let Some(d) = rdid {
                            let _ = write!(s, ",\"res\":{}", js(&self.path(d)));
                            if d.is_local() {
                                let _ = write!(s, ",\"local\":true");
                            }
                            if let Some(imp) = tcx.impl_of_assoc(d) {
                                let st = tcx.type_of(imp).instantiate_identity().skip_norm_wip();
                                let _ = write!(s, ",\"res_self\":{}", js(&self.ty(st)));
                            }
                        }
                        // closure called through Fn* traits: record the closure def
                        if let InstanceKind::ClosureOnceShim { .. } = inst.def {
                        } else if args.len() > 0 {
                            if let Some(st) = args[0].as_type() {
                                if let ty::Closure(cd, _) = st.kind() {
                                    let _ = write!(s, ",\"closure\":{}", js(&self.path(*cd)));
                                }
                            }
                        }
                    }
                    Ok(Ok(None)) => {
                        let _ = write!(s, ",\"rk\":\"unresolved\"");
                    }
                    _ => {
                        let _ = write!(s, ",\"rk\":\"error\"");
                    }
                }
                s.push('}');
                s
            }
            ty::FnPtr(..) => format!("{{\"fnptr\":{},\"op\":{}}}", js(&self.ty(fty)), self.operand(def, body, func)),
            _ => format!("{{\"other\":{},\"op\":{}}}", js(&self.ty(fty)), self.operand(def, body, func)),
        }
    }

    fn body(&mut self, def: LocalDefId, body: &Body<'tcx>) -> String {
        let tcx = self.tcx;
        let mut locals = Vec::new();
        let mut names: HashMap<usize, String> = HashMap::new();
        for vdi in &body.var_debug_info {
            if let mir::VarDebugInfoContents::Place(p) = &vdi.value {
                if p.projection.is_empty() {
                    names.entry(p.local.index()).or_insert_with(|| vdi.name.to_string());
                }
            }
        }
        for (l, decl) in body.local_decls.iter_enumerated() {
            let n = names.get(&l.index()).cloned();
            locals.push(format!(
                "{{\"ty\":{},\"n\":{},\"user\":{}}}",
                js(&self.ty(decl.ty)),
                jopt(n),
                names.contains_key(&l.index())
            ));
        }
        let mut blocks = Vec::new();
        for (_bb, data) in body.basic_blocks.iter_enumerated() {
            let mut stmts = Vec::new();
            for st in &data.statements {
                match &st.kind {
                    StatementKind::Assign(b) => {
                        let (p, rv) = &**b;
                        stmts.push(format!(
                            "{{\"lhs\":{},\"rv\":{},\"sp\":{}}}",
                            self.place(body, p),
                            self.rvalue(def, body, rv),
                            self.span(st.source_info.span)
                        ));
                    }
                    StatementKind::SetDiscriminant { place, variant_index } => {
                        stmts.push(format!(
                            "{{\"setdiscr\":{},\"vi\":{},\"sp\":{}}}",
                            self.place(body, place),
                            variant_index.index(),
                            self.span(st.source_info.span)
                        ));
                    }
                    StatementKind::Intrinsic(i) => {
                        stmts.push(format!(
                            "{{\"intrinsic\":{},\"sp\":{}}}",
                            js(&format!("{:?}", i)),
                            self.span(st.source_info.span)
                        ));
                    }
                    _ => {}
                }
            }
            let term = data.terminator();
            let sp = self.span(term.source_info.span);
            let t = match &term.kind {
                TerminatorKind::Goto { target } => format!("{{\"k\":\"goto\",\"t\":{}}}", target.index()),
                TerminatorKind::SwitchInt { discr, targets } => {
                    let dty = discr.ty(body, tcx);
                    let ts: Vec<String> =
                        targets.iter().map(|(v, bb)| format!("[\"{}\",{}]", v, bb.index())).collect();
                    format!(
                        "{{\"k\":\"switch\",\"d\":{},\"ty\":{},\"ts\":[{}],\"else\":{},\"sp\":{}}}",
                        self.operand(def, body, discr),
                        js(&self.ty(dty)),
                        ts.join(","),
                        targets.otherwise().index(),
                        sp
                    )
                }
                TerminatorKind::UnwindResume => "{\"k\":\"resume\"}".to_string(),
                TerminatorKind::UnwindTerminate(_) => "{\"k\":\"terminate\"}".to_string(),
                TerminatorKind::Return => "{\"k\":\"return\"}".to_string(),
                TerminatorKind::Unreachable => "{\"k\":\"unreachable\"}".to_string(),
                TerminatorKind::Drop { place, target, unwind, .. } => format!(
                    "{{\"k\":\"drop\",\"p\":{},\"t\":{},\"u\":{}}}",
                    self.place(body, place),
                    target.index(),
                    self.unwind(unwind)
                ),
                TerminatorKind::Call { func, args, destination, target, unwind, fn_span, .. } => {
                    let a: Vec<String> = args.iter().map(|a| self.operand(def, body, &a.node)).collect();
                    let at: Vec<String> = args.iter().map(|a| js(&self.ty(a.node.ty(body, tcx)))).collect();
                    format!(
                        "{{\"k\":\"call\",\"f\":{},\"a\":[{}],\"at\":[{}],\"d\":{},\"t\":{},\"u\":{},\"sp\":{},\"fsp\":{}}}",
                        self.callee(def, body, func),
                        a.join(","),
                        at.join(","),
                        self.place(body, destination),
                        target.map(|t: BasicBlock| t.index().to_string()).unwrap_or("null".into()),
                        self.unwind(unwind),
                        sp,
                        self.span(*fn_span)
                    )
                }
                TerminatorKind::TailCall { func, args, .. } => {
                    let a: Vec<String> = args.iter().map(|a| self.operand(def, body, &a.node)).collect();
                    format!(
                        "{{\"k\":\"tailcall\",\"f\":{},\"a\":[{}],\"sp\":{}}}",
                        self.callee(def, body, func),
                        a.join(","),
                        sp
                    )
                }
                TerminatorKind::Assert { cond, expected, msg, target, unwind } => {
                    use rustc_middle::mir::AssertKind::*;
                    let (mk, ops): (String, Vec<String>) = match &**msg {
                        BoundsCheck { len, index } => (
                            "BoundsCheck".into(),
                            vec![self.operand(def, body, len), self.operand(def, body, index)],
                        ),
                        Overflow(op, a, b) => (
                            format!("Overflow({:?})", op),
                            vec![self.operand(def, body, a), self.operand(def, body, b)],
                        ),
                        OverflowNeg(a) => ("OverflowNeg".into(), vec![self.operand(def, body, a)]),
                        DivisionByZero(a) => ("DivisionByZero".into(), vec![self.operand(def, body, a)]),
                        RemainderByZero(a) => ("RemainderByZero".into(), vec![self.operand(def, body, a)]),
                        other => (format!("{:?}", other).split('(').next().unwrap_or("Other").to_string(), vec![]),
                    };
                    let opty: Vec<String> = match &**msg {
                        Overflow(_, a, _) | OverflowNeg(a) | DivisionByZero(a) | RemainderByZero(a) => {
                            vec![js(&self.ty(a.ty(body, tcx)))]
                        }
                        _ => vec![],
                    };
                    format!(
                        "{{\"k\":\"assert\",\"cond\":{},\"exp\":{},\"msg\":{},\"ops\":[{}],\"opty\":[{}],\"t\":{},\"u\":{},\"sp\":{}}}",
                        self.operand(def, body, cond),
                        expected,
                        js(&mk),
                        ops.join(","),
                        opty.join(","),
                        target.index(),
                        self.unwind(unwind),
                        sp
                    )
                }
                TerminatorKind::FalseEdge { real_target, .. } => {
                    format!("{{\"k\":\"goto\",\"t\":{}}}", real_target.index())
                }
                TerminatorKind::FalseUnwind { real_target, .. } => {
                    format!("{{\"k\":\"goto\",\"t\":{}}}", real_target.index())
                }
                TerminatorKind::InlineAsm { .. } => "{\"k\":\"asm\"}".to_string(),
                other => format!("{{\"k\":\"other\",\"dbg\":{}}}", js(&format!("{:?}", other))),
            };
            blocks.push(format!(
                "{{\"cleanup\":{},\"s\":[{}],\"t\":{}}}",
                data.is_cleanup,
                stmts.join(","),
                t
            ));
        }
        format!(
            "\"argc\":{},\"locals\":[{}],\"blocks\":[{}]",
            body.arg_count,
            locals.join(","),
            blocks.join(",")
        )
    }
}

struct Cb;

impl rustc_driver::Callbacks for Cb {
    fn after_analysis<'tcx>(&mut self, _c: &rustc_interface::interface::Compiler, tcx: TyCtxt<'tcx>) -> Compilation {
        let out_dir = match std::env::var("MIRFACTS_OUT") {
            Ok(d) => d,
            Err(_) => return Compilation::Continue,
        };
        let crate_name = tcx.crate_name(rustc_hir::def_id::LOCAL_CRATE).to_string();
        if crate_name.starts_with("build_script") {
            return Compilation::Continue;
        }
        let crate_types: Vec<String> = tcx.crate_types().iter().map(|t| format!("{:?}", t)).collect();
        let is_bin = crate_types.iter().any(|t| t.contains("Executable"));
        let tag = if is_bin { format!("{}_bin", crate_name) } else { crate_name.clone() };
        let mut cx = Cx { tcx, tag, files: HashMap::new(), file_list: Vec::new() };

        let mut adts = Vec::new();
        let mut traits = Vec::new();
        let mut impls = Vec::new();
        let mut consts = Vec::new();
        let mut statics = Vec::new();
        let mut fns = Vec::new();

        let items = tcx.hir_crate_items(());
        for ldid in items.definitions() {
            let did = ldid.to_def_id();
            let kind = tcx.def_kind(did);
            match kind {
                DefKind::Struct | DefKind::Enum | DefKind::Union => {
                    let adt = tcx.adt_def(did);
                    let mut variants = Vec::new();
                    let discrs: HashMap<usize, String> = if adt.is_enum() {
                        adt.discriminants(tcx).map(|(vi, d)| (vi.index(), d.val.to_string())).collect()
                    } else {
                        HashMap::new()
                    };
                    for (vi, v) in adt.variants().iter_enumerated() {
                        let mut fields = Vec::new();
                        for f in v.fields.iter() {
                            let fty = tcx.type_of(f.did).instantiate_identity().skip_norm_wip();
                            let vis = match f.vis {
                                ty::Visibility::Public => "pub".to_string(),
                                ty::Visibility::Restricted(m) => {
                                    if m.is_crate_root() {
                                        "crate".to_string()
                                    } else {
                                        format!("in:{}", cx.path(m))
                                    }
                                }
                            };
                            fields.push(format!(
                                "{{\"n\":{},\"ty\":{},\"vis\":{}}}",
                                js(&f.name.to_string()),
                                js(&cx.ty(fty)),
                                js(&vis)
                            ));
                        }
                        variants.push(format!(
                            "{{\"n\":{},\"discr\":{},\"fields\":[{}]}}",
                            js(&v.name.to_string()),
                            jopt(discrs.get(&vi.index()).cloned()),
                            fields.join(",")
                        ));
                    }
                    let repr = adt.repr();
                    let reprs = format!("{:?}", repr.int);
                    let derives_copy = false;
                    let _ = derives_copy;
                    adts.push(format!(
                        "{{\"path\":{},\"kind\":{},\"repr_int\":{},\"repr_c\":{},\"vis\":{},\"variants\":[{}],\"sp\":{}}}",
                        js(&cx.path(did)),
                        js(if adt.is_enum() { "enum" } else if adt.is_union() { "union" } else { "struct" }),
                        js(&reprs),
                        repr.c(),
                        js(&format!("{:?}", tcx.visibility(did))),
                        variants.join(","),
                        cx.span(tcx.def_span(did))
                    ));
                }
                DefKind::Trait => {
                    let mut methods = Vec::new();
                    for it in tcx.associated_items(did).in_definition_order() {
                        if it.is_fn() {
                            methods.push(format!(
                                "{{\"n\":{},\"default\":{},\"path\":{}}}",
                                js(&it.name().to_string()),
                                it.defaultness(tcx).has_value(),
                                js(&cx.path(it.def_id))
                            ));
                        }
                    }
                    let supers: Vec<String> = tcx
                        .explicit_super_predicates_of(did)
                        .iter_identity_copied()
                        .filter_map(|u| u.skip_norm_wip().0.as_trait_clause().map(|t| js(&cx.path(t.def_id()))))
                        .collect();
                    traits.push(format!(
                        "{{\"path\":{},\"methods\":[{}],\"supers\":[{}],\"sp\":{}}}",
                        js(&cx.path(did)),
                        methods.join(","),
                        supers.join(","),
                        cx.span(tcx.def_span(did))
                    ));
                }
                DefKind::Impl { .. } => {
                    let self_ty = tcx.type_of(did).instantiate_identity().skip_norm_wip();
                    let tr = tcx.impl_opt_trait_ref(did).map(|t| t.instantiate_identity().skip_norm_wip());
                    let mut methods = Vec::new();
                    for it in tcx.associated_items(did).in_definition_order() {
                        if it.is_fn() {
                            methods.push(format!(
                                "{{\"n\":{},\"path\":{}}}",
                                js(&it.name().to_string()),
                                js(&cx.path(it.def_id))
                            ));
                        }
                    }
                    let (trp, trargs) = match tr {
                        Some(t) => (
                            Some(cx.path(t.def_id)),
                            t.args.iter().map(|a| js(&cx.garg(a))).collect::<Vec<_>>(),
                        ),
                        None => (None, vec![]),
                    };
                    impls.push(format!(
                        "{{\"trait\":{},\"trait_args\":[{}],\"self\":{},\"self_adt\":{},\"methods\":[{}],\"sp\":{}}}",
                        jopt(trp),
                        trargs.join(","),
                        js(&cx.ty(self_ty)),
                        jopt(cx.adt_path_of(self_ty)),
                        methods.join(","),
                        cx.span(tcx.def_span(did))
                    ));
                }
                DefKind::Const { .. } | DefKind::AssocConst { .. } => {
                    let t = tcx.type_of(did).instantiate_identity().skip_norm_wip();
                    let mut val = None;
                    if (t.is_integral() || t.is_bool() || t.is_char()) && tcx.generics_of(did).is_empty() {
                        if let Ok(v) = tcx.const_eval_poly(did) {
                            if let Some(si) = v.try_to_scalar_int() {
                                let size = si.size();
                                let bits = si.to_bits(size);
                                val = Some(if t.is_signed() {
                                    (size.sign_extend(bits) as i128).to_string()
                                } else {
                                    bits.to_string()
                                });
                            }
                        }
                    }
                    consts.push(format!(
                        "{{\"path\":{},\"ty\":{},\"val\":{},\"sp\":{}}}",
                        js(&cx.path(did)),
                        js(&cx.ty(t)),
                        jopt(val),
                        cx.span(tcx.def_span(did))
                    ));
                }
                DefKind::Static { mutability, .. } => {
                    let t = tcx.type_of(did).instantiate_identity().skip_norm_wip();
                    statics.push(format!(
                        "{{\"path\":{},\"ty\":{},\"mut\":{},\"sp\":{}}}",
                        js(&cx.path(did)),
                        js(&cx.ty(t)),
                        mutability.is_mut(),
                        cx.span(tcx.def_span(did))
                    ));
                }
                _ => {}
            }
        }

        for ldid in tcx.hir_body_owners() {
            let did = ldid.to_def_id();
            let kind = tcx.def_kind(did);
            let kstr = match kind {
                DefKind::Fn => "fn",
                DefKind::AssocFn => "method",
                DefKind::Closure => "closure",
                _ => continue,
            };
            if !tcx.is_mir_available(did) {
                continue;
            }
            let body: &Body<'tcx> = tcx.optimized_mir(did);
            let mut head = format!("\"path\":{},\"kind\":{}", js(&cx.path(did)), js(kstr));
            let _ = write!(head, ",\"sp\":{}", cx.span(tcx.def_span(did)));
            if matches!(kind, DefKind::Fn | DefKind::AssocFn) {
                let _ = write!(head, ",\"vis\":{}", js(&format!("{:?}", tcx.visibility(did))));
                let sig = tcx.fn_sig(did).instantiate_identity().skip_norm_wip().skip_binder();
                let ins: Vec<String> = sig.inputs().iter().map(|t| js(&cx.ty(*t))).collect();
                let _ = write!(head, ",\"inputs\":[{}],\"output\":{}", ins.join(","), js(&cx.ty(sig.output())));
                let _ = write!(head, ",\"unsafe\":{}", sig.safety().is_unsafe());
                let g = tcx.generics_of(did);
                let _ = write!(head, ",\"generic\":{}", g.count() > 0 && g.own_requires_monomorphization());
            } else {
                let parent = tcx.typeck_root_def_id(did);
                let _ = write!(head, ",\"root\":{}", js(&cx.path(parent)));
            }
            if let Some(imp) = tcx.impl_of_assoc(did) {
                let st = tcx.type_of(imp).instantiate_identity().skip_norm_wip();
                let _ = write!(head, ",\"impl_self\":{},\"impl_adt\":{}", js(&cx.ty(st)), jopt(cx.adt_path_of(st)));
                if let Some(tr) = tcx.impl_opt_trait_ref(imp) {
                    let tr = tr.instantiate_identity().skip_norm_wip();
                    let _ = write!(head, ",\"impl_trait\":{}", js(&cx.path(tr.def_id)));
                    let ta: Vec<String> =
                        tr.args.iter().map(|a| js(&cx.garg(a))).collect();
                    let _ = write!(head, ",\"impl_trait_args\":[{}]", ta.join(","));
                }
            }
            if let Some(tr) = tcx.trait_of_assoc(did) {
                let _ = write!(head, ",\"trait_default_of\":{}", js(&cx.path(tr)));
            }
            let b = cx.body(ldid, body);
            fns.push(format!("{{{},{}}}", head, b));
            // promoted constants (e.g. `&Some("slice")`) are separate bodies; emit them so that their literals are visible
            for (pi, pbody) in tcx.promoted_mir(did).iter_enumerated() {
                let ph = format!(
                    "\"path\":{},\"kind\":\"promoted\",\"sp\":{},\"root\":{}",
                    js(&format!("{}::{{promoted#{}}}", cx.path(did), pi.index())),
                    cx.span(tcx.def_span(did)),
                    js(&cx.path(did))
                );
                let pb = cx.body(ldid, pbody);
                fns.push(format!("{{{},{}}}", ph, pb));
            }
        }

        let files: Vec<String> = cx.file_list.iter().map(|f| js(f)).collect();
        let out = format!(
            "{{\"crate\":{},\"is_bin\":{},\"crate_types\":{},\"files\":[{}],\n\"adts\":[{}],\n\"traits\":[{}],\n\"impls\":[{}],\n\"consts\":[{}],\n\"statics\":[{}],\n\"fns\":[\n{}\n]}}\n",
            js(&crate_name),
            is_bin,
            jlist(crate_types.iter().map(|t| js(t)).collect()),
            files.join(","),
            adts.join(",\n"),
            traits.join(",\n"),
            impls.join(",\n"),
            consts.join(",\n"),
            statics.join(",\n"),
            fns.join(",\n")
        );
        let fname = format!("{}/{}-{}.json", out_dir, crate_name, if is_bin { "bin" } else { "lib" });
        let tmp = format!("{}.tmp{}", fname, std::process::id());
        std::fs::write(&tmp, out).expect("mirfacts: cannot write facts");
        std::fs::rename(&tmp, &fname).expect("mirfacts: cannot rename facts");
        Compilation::Continue
    }
}

fn main() {
    let mut args: Vec<String> = std::env::args().collect();
    // RUSTC_WORKSPACE_WRAPPER protocol: argv[1] is the path of the real rustc.
    if args.len() > 1 && (args[1].ends_with("rustc") || args[1].contains("/rustc")) {
        args.remove(1);
    }
    let mut cb = Cb;
    rustc_driver::run_compiler(&args, &mut cb);
}
