"""T7 panic-site inventory and ledger (shared by C01, C11, C12, C18, C19)."""
import json
import os
import re

from mirlib import op_place, is_bare, const_int, strip_closure, path_matches
from helpers import bool_branches

VERIF = os.path.abspath(os.path.join(os.path.dirname(os.path.abspath(__file__)), '..', '..'))

# functions of core/alloc/std that panic for some argument values (frozen; names after with_no_visible_paths)
PANICKING = [
    # explicit panics
    (r'^core::panicking::(panic|panic_fmt|panic_display|panic_str|panic_explicit|unreachable_display|panic_nounwind|panic_const::.*|assert_failed|assert_matches_failed|panic_bounds_check)$', 'panic'),
    (r'^std::rt::(begin_panic|panic_fmt|begin_panic_fmt)', 'panic'),
    (r'^core::option::(unwrap_failed|expect_failed)$', 'panic'),
    (r'^core::result::unwrap_failed$', 'panic'),
    # unwrap family
    (r'^core::option::Option::<T>::(unwrap|expect)$', 'unwrap'),
    (r'^core::result::Result::<T, E>::(unwrap|expect|unwrap_err|expect_err)$', 'unwrap'),
    # indexing / slicing through the Index traits
    (r'core::ops::index::Index(Mut)?(<.*>)?>?::index(_mut)?$', 'index'),
    (r'^core::ops::index::Index(Mut)?::index(_mut)?$', 'index'),
    # string / vec / slice operations with preconditions
    (r'^alloc::string::String::(replace_range|remove|insert|insert_str|drain|split_off|truncate)$', 'strop'),
    (r'^alloc::vec::Vec::<T, A>::(remove|swap_remove|insert|drain|split_off|splice)$', 'vecop'),
    (r'^core::str::<impl str>::(split_at|split_at_mut)$', 'strop'),
    (r'^core::slice::<impl \[T\]>::(split_at|split_at_mut|copy_from_slice|clone_from_slice|swap|chunks|chunks_exact|windows|rotate_left|rotate_right|copy_within|select_nth_unstable.*)$', 'sliceop'),
    (r'^core::char::methods::<impl char>::(from_digit|to_digit)$', 'charop'),
    (r'^core::iter::traits::iterator::Iterator::step_by$', 'iterop'),
    (r'^core::cell::RefCell::<T>::(borrow|borrow_mut)$', 'refcell'),
    (r'^std::thread::JoinHandle::<T>::join$', 'thread'),
    (r'^alloc::vec::Vec::<T>::with_capacity$|^alloc::vec::Vec::<T, A>::reserve(_exact)?$|^alloc::string::String::with_capacity$', 'alloc'),
    (r'^core::num::<impl \w+>::(abs|pow|div_euclid|rem_euclid|next_power_of_two|ilog\w*)$', 'arith'),
    (r'^std::process::(exit|abort)$', 'exit'),
    (r'^core::intrinsics::(abort|unreachable)$', 'abort'),
    (r'^core::hint::unreachable_unchecked$', 'unchecked'),
    (r'^core::option::Option::<T>::unwrap_unchecked$|^core::result::Result::<T, E>::unwrap_unchecked$', 'unchecked'),
]
_PANICKING = [(re.compile(a), b) for a, b in PANICKING]

# `alloc` entries abort on capacity overflow / OOM rather than panic on input-dependent values; they are inventoried only for
# the codec (C11.4) where the size comes from the input. For slicec they are not panic sites.
SKIP_KINDS_DEFAULT = {'alloc'}


def classify_callee(path):
    if not path:
        return None
    for rx, k in _PANICKING:
        if rx.search(path):
            return k
    return None


class Site:
    __slots__ = ('fn', 'bb', 'kind', 'what', 'span', 'key', 'raw', 'call')

    def __init__(self, fn, bb, kind, what, span, raw=None, call=None):
        self.fn = fn
        self.bb = bb
        self.kind = kind
        self.what = what
        self.span = span
        self.raw = raw
        self.call = call
        self.key = None


def short_callee(p):
    p = re.sub(r'<[^<>]*>', '', p)
    p = re.sub(r'<[^<>]*>', '', p)
    segs = [s for s in p.split('::') if s]
    return '::'.join(segs[-2:]) if len(segs) >= 2 else p


def sites_of(fn, skip_kinds=SKIP_KINDS_DEFAULT):
    """Panic-capable sites of one function: calls to PANICKING functions and Assert terminators."""
    out = []
    for c in fn.calls():
        k = classify_callee(c.callee) or classify_callee(c.resolved if c.resolved != c.callee else None)
        if k is None or k in skip_kinds:
            continue
        what = short_callee(c.callee)
        if k == 'index':
            what = 'index(%s)' % (c.f.get('self') or (c.targs[0] if c.targs else '?'))
            what = re.sub(r"'\w+ ", '', what)
        out.append(Site(fn, c.bb, k, what, c.span, c.raw, c))
    for i, b in enumerate(fn.blocks):
        t = b['t']
        if t['k'] == 'assert':
            msg = t['msg'].split(' ')[0].split('{')[0]
            out.append(Site(fn, i, 'assert', msg + (':' + t['opty'][0] if t.get('opty') else ''), fn.span_of(t.get('sp')), t))
    # ordinal among equal (kind, what) in source order
    out.sort(key=lambda s: (s.span.cline, s.span.line, s.span.col, s.bb))
    counts = {}
    # user actions embedded in the generated parser are keyed without their (unstable) action number
    keypath = re.sub(r'::__action\d+', '::__action*', fn.path) if fn.generated else fn.path
    for s in out:
        k = (s.kind, s.what)
        n = counts.get(k, 0)
        counts[k] = n + 1
        s.key = '%s|%s|%s' % (keypath, s.kind, s.what) + '|#%d' % n
    return out


# --------------------------------------------------------------------------- automatic discharge
def auto_discharge(site, prog):
    """Returns a reason string when the site is discharged by an automatic rule, else None."""
    fn = site.fn
    # A4: generated LALRPOP code is the parser generator's responsibility (trusted base); the user actions it
    # calls are ordinary functions in grammar.rs and are inventoried normally.
    if (fn.generated or (site.span.file and '/out/parsers/' in site.span.file)) and not re.search(r'::__action\d+(::\{closure#\d+\})*$', fn.path):
        return 'A4: LALRPOP-generated parser machinery (trusted base)'
    if site.kind == 'assert':
        t = site.raw
        msg = t['msg']
        # A2: counter + small constant on a 64-bit unsigned counter cannot overflow within addressable memory
        if msg in ('Overflow(Add)',) and t.get('opty') and t['opty'][0] in ('usize', 'u64'):
            c = const_int(t['ops'][1]) if len(t['ops']) > 1 else None
            c0 = const_int(t['ops'][0]) if t['ops'] else None
            cc = c if c is not None else c0
            if cc is not None and 0 <= cc <= 16:
                return 'A2: usize/u64 counter + constant %d cannot overflow within addressable memory' % cc
        # A6: Add of two usize values that are both lengths / positions of in-memory buffers: len <= isize::MAX each
        # A7: bounds check on a fixed-size array with a constant in-range index
        if msg == 'BoundsCheck':
            ln = const_int(t['ops'][0]) if t['ops'] else None
            ix = const_int(t['ops'][1]) if len(t['ops']) > 1 else None
            if ln is not None and ix is not None and 0 <= ix < ln:
                return 'A7: constant index %d into array of length %d' % (ix, ln)
        # A9: pointer-validity checks rustc inserts in debug builds; discharged when the pointer is a Box's own pointer,
        # a fresh allocation, or derived from a reference (never null, always aligned for its type)
        if msg.startswith('NullPointerDereference') or msg.startswith('MisalignedPointerDereference'):
            why = a9_pointer_from_safe_source(fn, t['cond'])
            if why:
                return why
        # A8: shift by a constant smaller than the bit width
        if msg in ('Overflow(Shl)', 'Overflow(Shr)') and len(t['ops']) > 1:
            c = const_int(t['ops'][1])
            bits = {'u8': 8, 'i8': 8, 'u16': 16, 'i16': 16, 'u32': 32, 'i32': 32, 'u64': 64, 'i64': 64, 'usize': 64, 'isize': 64, 'u128': 128, 'i128': 128}.get(t['opty'][0] if t.get('opty') else '', 0)
            if c is not None and 0 <= c < bits:
                return 'A8: shift by constant %d < %d bits' % (c, bits)
        return None
    # A10: Vec::insert at the constant index 0 is always in bounds
    if site.kind == 'vecop' and site.call is not None and site.call.name() == 'insert' and len(site.call.args) > 1 and const_int(site.call.args[1]) == 0:
        return 'A10: insert at constant index 0'
    if site.kind == 'unwrap' and site.call is not None:
        r = a3_unwrap_after_check(site, fn)
        if r:
            return r
    return None


def value_leaves(fn, op, depth=14):
    """Leaves of the expression DAG that computes an operand (through use/cast/un/bin/ref): list of
    ('place', place) | ('call', Call) | ('const', op) | ('arg', n) | ('addr', place)"""
    out = []
    seen = set()

    def walk_op(o, d):
        if o is None:
            return
        if 'c' in o and 'l' not in o:
            out.append(('const', o))
            return
        walk_place(op_place(o), d)

    def walk_place(p, d):
        if p is None:
            return
        if place_has_proj(p):
            out.append(('place', p))
            return
        l = p['l']
        if 1 <= l <= fn.argc:
            out.append(('arg', l))
            return
        if d <= 0 or l in seen:
            return
        seen.add(l)
        for df in fn.defs_of(l):
            if df[0] == 'call':
                out.append(('call', df[3]))
            elif df[0] == 'assign':
                rv = df[3]
                k = rv['k']
                if k in ('use', 'cast', 'un', 'repeat'):
                    if k == 'cast':
                        out.append(('castfrom', rv.get('from', '')))
                    walk_op(rv['a'], d - 1)
                elif k == 'bin':
                    walk_op(rv['a'], d - 1)
                    walk_op(rv['b'], d - 1)
                elif k in ('ref', 'rawptr'):
                    out.append(('addr', rv['p']))
                else:
                    out.append(('other', k))
    walk_op(op, depth)
    return out


def place_has_proj(p):
    return bool(p.get('p'))


def a9_pointer_from_safe_source(fn, cond):
    lv = value_leaves(fn, cond)
    srcs = [x for x in lv if x[0] != 'const']
    if not srcs:
        return None
    for kind, x in srcs:
        if kind == 'place':
            names = [pr.get('n') for pr in x.get('p', []) if isinstance(pr, dict)]
            adts = [pr.get('adt') or '' for pr in x.get('p', []) if isinstance(pr, dict)]
            if 'pointer' in names and any(a.startswith('core::ptr::unique::Unique') or a.startswith('core::ptr::non_null::NonNull') for a in adts):
                continue
            return None
        if kind == 'call':
            r = x.resolved or ''
            if r.startswith('alloc::alloc::exchange_malloc') or 'Box::<T>::new' in r or r.startswith('alloc::boxed::box_new'):
                continue
            return None
        if kind == 'addr':
            continue
        if kind == 'castfrom':
            continue
        return None
    # at least one real source and all of them are Box pointers / fresh allocations / addresses of places
    if any(k in ('place', 'call', 'addr') for k, _ in srcs):
        return 'A9: debug-build pointer check on a Box pointer, fresh allocation or address of a place (never null or misaligned)'
    return None


CHECKS_SOME = {'is_some': True, 'is_ok': True, 'is_none': False, 'is_err': False}


def a3_unwrap_after_check(site, fn):
    """A3: x.unwrap() dominated by the Some/Ok edge of is_some()/is_ok() (or the false edge of is_none()/is_err()) on the
    same place, with no intervening redefinition visible in the provenance."""
    c = site.call
    if not c.args:
        return None
    target = {str(t) for t in fn.origin(c.args[0])}
    for bb, p, ts, fs in bool_branches(fn):
        if p is None or not is_bare(p):
            continue
        for d in fn.defs_of(p['l']):
            if d[0] != 'call':
                continue
            chk = d[3]
            nm = chk.name()
            if nm not in CHECKS_SOME or not chk.args:
                continue
            src = {str(t) for t in fn.origin(chk.args[0])}
            if not (src & target) or any(t.startswith("('unknown'") for t in (src & target)):
                continue
            good_edge = ts if CHECKS_SOME[nm] else fs
            if fn.edge_dominates(bb, good_edge, c.bb) and ts != fs:
                return 'A3: dominated by the %s edge of %s() on the same place' % ('true' if CHECKS_SOME[nm] else 'false', nm)
    return None


# --------------------------------------------------------------------------- ledger
def load_ledger(name):
    p = os.path.join(VERIF, 'ledgers', name)
    with open(p) as fh:
        d = json.load(fh)
    return {e['key']: e for e in d['entries']}


def roots_foreign_impls(prog, crates, skip_traits=('core::fmt::Debug',)):
    """Methods of local impls of foreign traits (called back from std / serde / clap generic code)."""
    out = []
    for i in prog.impls:
        if i['_crate'].tag not in crates or not i.get('trait'):
            continue
        tr = i['trait']
        if tr in prog.traits:  # local trait
            continue
        if tr in skip_traits:
            continue
        for m in i['methods']:
            if m['path'] in prog.fns:
                out.append(m['path'])
    return out


def evaluate(rule, prog, roots, ledger, crates, prop, skip_kinds=SKIP_KINDS_DEFAULT, stop=()):
    """Evaluate the panic ledger over everything reachable from roots inside `crates`."""
    reach = prog.reachable_fns(roots, stop=stop)
    parent = dict(prog.last_parent)
    used = set()
    pending = []
    n_auto = n_ledger = 0
    for p in sorted(reach):
        fn = prog.fns[p]
        if fn.crate.tag not in crates:
            continue
        for s in sites_of(fn, skip_kinds):
            why = auto_discharge(s, prog)
            if why:
                n_auto += 1
                rule.ok(s.key, why)
                continue
            e = ledger.get(s.key)
            if e is not None and e.get('status', 'safe') == 'safe':
                used.add(s.key)
                n_ledger += 1
                rule.ok(s.key, 'ledger: ' + e['reason'])
                continue
            pending.append((s, p, e))
    # Sites that are not in the ledger under their own key: before reporting, see whether they are ledger sites that moved - the function was
    # renamed, or the statement went into / came out of a helper or a closure of the same module. A ledger entry whose own site no longer
    # exists, with the same kind and the same panicking operation in the same module, is taken over (with its reason) once.
    free = {}
    present = set()
    for p2 in reach:
        fn2 = prog.fns[p2]
        if fn2.crate.tag in crates:
            for s2 in sites_of(fn2, skip_kinds):
                present.add(s2.key)
    for k, e in ledger.items():
        if k not in present and e.get('status', 'safe') == 'safe':
            parts = k.split('|')
            if len(parts) >= 3:
                free.setdefault((_module_of(parts[0]), parts[1], parts[2]), []).append(k)
    n_moved = 0
    for s, p, e in pending:
        parts = s.key.split('|')
        cand = free.get((_module_of(parts[0]), parts[1], parts[2]), []) if len(parts) >= 3 else []
        if cand:
            k = cand.pop(0)
            used.add(k)
            n_moved += 1
            rule.ok(s.key, 'ledger (site moved from %s): %s' % (k.split('|')[0].rsplit('::', 1)[-1], ledger[k]['reason']))
            continue
        ch = prog.path_to(p, parent)
        rule.finding('panic-site:%s' % s.key, s.span,
                     'panic-capable site (%s %s) reachable from the entry points is neither auto-discharged nor in the ledger%s'
                     % (s.kind, s.what, (' [ledger status: %s: %s]' % (e.get('status'), e.get('reason'))) if e else ''),
                     ch[-6:])
    rule.note('%d auto-discharged, %d by ledger (%d moved), %d reachable functions' % (n_auto, n_ledger, n_moved, len(reach)))
    return reach, used


def _module_of(fnpath):
    """module (or impl type) a function path belongs to: everything before the function's own name, closures and generic arguments stripped"""
    import re as _re
    p = _re.sub(r'::\{closure#\d+\}', '', fnpath)
    p = _re.sub(r'::<[^<>]*(<[^<>]*>[^<>]*)*>', '', p)
    if p.startswith('<') and ' as ' in p:
        return p.split(' as ')[0].lstrip('<')
    return p.rsplit('::', 1)[0]
