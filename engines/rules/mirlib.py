"""mirlib: the resolved program (MIR facts emitted by engines/mirfacts) as Python objects.

Everything the rule modules need that is generic: CFG successors, dominators, post-dominators,
reachability with blocked blocks, natural loops, a conservative call graph (class-hierarchy
analysis for unresolved trait calls, address-taken functions, closures), def-use provenance of
operands inside one function, and a readable MIR printer for diagnosis.
"""
import json
import os
import re
from collections import defaultdict, deque


# --------------------------------------------------------------------------- basic accessors
def op_place(op):
    """The place an operand copies/moves, or None for constants."""
    if op is None:
        return None
    return op.get('cp') or op.get('mv')


def place_local(p):
    return p['l']


def place_projs(p):
    return p.get('p', [])


def is_bare(p):
    return not p.get('p')


def proj_str(pr):
    if pr == '*':
        return '*'
    if isinstance(pr, str):
        return pr
    if 'f' in pr:
        return '.' + (pr.get('n') or str(pr['f']))
    if 'dc' in pr:
        return ' as ' + str(pr['dc'])
    if 'idx' in pr:
        return '[_%d]' % pr['idx']
    if 'cidx' in pr:
        return '[%s%d]' % ('-' if pr.get('from_end') else '', pr['cidx'])
    if 'sub' in pr:
        return '[%d..%d]' % tuple(pr['sub'])
    return str(pr)


def place_str(p, fn=None):
    name = '_%d' % p['l']
    if fn is not None:
        n = fn.local_name(p['l'])
        if n:
            name = '%s(_%d)' % (n, p['l'])
    s = name
    for pr in place_projs(p):
        if pr == '*':
            s = '(*%s)' % s
        else:
            s += proj_str(pr)
    return s


def op_str(op, fn=None):
    if op is None:
        return 'None'
    if 'cp' in op:
        return place_str(op['cp'], fn)
    if 'mv' in op:
        return 'move ' + place_str(op['mv'], fn)
    if 'c' in op:
        if 'fn' in op:
            return 'fn:' + op['fn']
        if 'str' in op:
            return json.dumps(op['str'])
        if 'int' in op:
            return 'const %s_%s' % (op['int'], op['c'])
        if 'closure' in op:
            return 'closure:' + op['closure']
        return 'const<%s>' % op['c']
    return str(op)


def const_int(op):
    if op is not None and 'c' in op and 'int' in op:
        return int(op['int'])
    return None


def const_str(op):
    if op is not None and 'c' in op and 'str' in op:
        return op['str']
    return None


class Span:
    __slots__ = ('file', 'line', 'col', 'expn', 'macro', 'cfile', 'cline')

    def __init__(self, raw, files):
        if raw is None:
            self.file = None
            self.line = 0
            self.col = 0
            self.expn = False
            self.macro = None
            self.cfile = None
            self.cline = 0
            return
        self.file = files[raw[0]]
        self.line = raw[1]
        self.col = raw[2]
        self.expn = bool(raw[3])
        if self.expn:
            self.macro = raw[4]
            self.cfile = files[raw[5]]
            self.cline = raw[6]
        else:
            self.macro = None
            self.cfile = self.file
            self.cline = self.line

    def __str__(self):
        if self.file is None:
            return '<no-span>'
        if self.expn and (self.cfile != self.file or self.cline != self.line):
            return '%s:%d (in %s!, expanded at %s:%d)' % (self.file, self.line, self.macro, self.cfile, self.cline)
        return '%s:%d' % (self.file, self.line)

    @property
    def user(self):
        """file:line in user code (the expansion call site for macro-generated code)."""
        if self.file is None:
            return '<no-span>'
        return '%s:%d' % (self.cfile, self.cline)


class Call:
    """A call terminator."""
    __slots__ = ('fn', 'bb', 'raw', 'f', 'args', 'dest', 'target', 'unwind', 'span', 'fspan')

    def __init__(self, fn, bb, raw):
        self.fn = fn
        self.bb = bb
        self.raw = raw
        self.f = raw['f']
        self.args = raw['a']
        self.dest = raw.get('d')
        self.target = raw.get('t')
        self.unwind = raw.get('u')
        self.span = Span(raw.get('sp'), fn.crate.files)
        self.fspan = Span(raw.get('fsp'), fn.crate.files)

    @property
    def callee(self):
        """Declared callee path (trait method path for trait calls)."""
        return self.f.get('def')

    @property
    def resolved(self):
        """Resolved callee path (impl method) when rustc could resolve it, else the declared path."""
        return self.f.get('res') or self.f.get('def')

    @property
    def is_resolved(self):
        return self.f.get('rk') in ('item', 'intrinsic', 'closure_once', 'fnptr_shim', 'reify', 'clone_shim', 'drop_glue')

    @property
    def kind(self):
        if 'fnptr' in self.f:
            return 'fnptr'
        if 'other' in self.f:
            return 'other'
        return self.f.get('rk', 'unresolved')

    @property
    def targs(self):
        return self.f.get('args', [])

    @property
    def trait(self):
        return self.f.get('trait')

    @property
    def self_ty(self):
        return self.f.get('self')

    def name(self):
        """Last path segment of the declared callee."""
        d = self.callee or ''
        return d.rsplit('::', 1)[-1]

    def __str__(self):
        return '%s -> %s @ %s' % (self.fn.path, self.resolved or self.kind, self.span)


class Fn:
    def __init__(self, crate, raw):
        self.crate = crate
        self.raw = raw
        self.path = raw['path']
        self.kind = raw['kind']
        self.blocks = raw['blocks']
        self.locals = raw['locals']
        self.argc = raw['argc']
        self.span = Span(raw.get('sp'), crate.files)
        self.root = raw.get('root', self.path)
        self.impl_trait = raw.get('impl_trait')
        self.impl_self = raw.get('impl_self')
        self.impl_adt = raw.get('impl_adt')
        self.vis = raw.get('vis')
        self._calls = None
        self._preds = None
        self._dom = None
        self._pdom = None
        self._defs = None

    # ---- naming
    @property
    def name(self):
        return self.path.rsplit('::', 1)[-1]

    @property
    def file(self):
        return self.span.file

    @property
    def generated(self):
        """Inside a LALRPOP-generated module (file under the build's OUT_DIR)."""
        f = self.span.file or ''
        return '/out/parsers/' in f

    def local_name(self, l):
        return self.locals[l].get('n')

    def local_ty(self, l):
        return self.locals[l]['ty']

    def locals_named(self, name):
        return [i for i, l in enumerate(self.locals) if l.get('n') == name]

    # ---- CFG
    def term(self, bb):
        return self.blocks[bb]['t']

    def succs(self, bb, unwind=False):
        t = self.blocks[bb]['t']
        k = t['k']
        out = []
        if k == 'goto':
            out = [t['t']]
        elif k == 'switch':
            out = [x[1] for x in t['ts']] + [t['else']]
        elif k in ('call', 'drop', 'assert'):
            if t.get('t') is not None:
                out = [t['t']]
            if unwind and t.get('u') is not None:
                out.append(t['u'])
        return out

    def preds(self):
        if self._preds is None:
            p = defaultdict(list)
            for b in range(len(self.blocks)):
                for s in self.succs(b, unwind=True):
                    p[s].append(b)
            self._preds = p
        return self._preds

    def npreds(self):
        """predecessors over normal (non-unwind) edges"""
        p = defaultdict(list)
        for b in range(len(self.blocks)):
            for s in self.succs(b):
                p[s].append(b)
        return p

    def reachable(self, start=0, blocked=(), unwind=False, blocked_edges=()):
        """Blocks reachable from `start` without entering a block in `blocked` and without taking
        an edge in `blocked_edges` (pairs)."""
        blocked = set(blocked)
        be = set(blocked_edges)
        seen = set()
        if start in blocked:
            return seen
        dq = deque([start])
        seen.add(start)
        while dq:
            b = dq.popleft()
            for s in self.succs(b, unwind=unwind):
                if s in blocked or s in seen or (b, s) in be:
                    continue
                seen.add(s)
                dq.append(s)
        return seen

    def return_blocks(self):
        return [i for i, b in enumerate(self.blocks) if b['t']['k'] == 'return']

    def dominators(self):
        """Immediate-dominator based dom sets over normal edges (entry = 0). dom[b] = set of blocks
        dominating b (including b). Unreachable blocks are absent."""
        if self._dom is not None:
            return self._dom
        reach = self.reachable(0)
        order = []
        seen = set()

        def dfs(b):
            stack = [(b, iter(self.succs(b)))]
            seen.add(b)
            while stack:
                n, it = stack[-1]
                adv = False
                for s in it:
                    if s not in seen:
                        seen.add(s)
                        stack.append((s, iter(self.succs(s))))
                        adv = True
                        break
                if not adv:
                    order.append(n)
                    stack.pop()
        dfs(0)
        rpo = list(reversed(order))
        np = self.npreds()
        dom = {b: None for b in rpo}
        dom[0] = {0}
        changed = True
        while changed:
            changed = False
            for b in rpo:
                if b == 0:
                    continue
                ps = [dom[p] for p in np[b] if p in dom and dom[p] is not None]
                if not ps:
                    continue
                new = set.intersection(*ps) | {b}
                if dom[b] != new:
                    dom[b] = new
                    changed = True
        self._dom = {b: d for b, d in dom.items() if d is not None and b in reach}
        return self._dom

    def dominates(self, a, b):
        d = self.dominators()
        return b in d and a in d[b]

    def edge_dominates(self, src, dst, b):
        """True if every path from entry to b traverses the edge src->dst (normal edges)."""
        if b not in self.reachable(0):
            return True  # vacuous
        return b not in self.reachable(0, blocked_edges=[(src, dst)])

    def natural_loops(self):
        """list of (head, set(body blocks)) for back edges t->h where h dominates t."""
        dom = self.dominators()
        loops = {}
        np = self.npreds()
        for t in dom:
            for h in self.succs(t):
                if h in dom.get(t, ()):  # back edge
                    body = {h, t}
                    stack = [t]
                    while stack:
                        n = stack.pop()
                        if n == h:
                            continue
                        for p in np[n]:
                            if p not in body and p in dom:
                                body.add(p)
                                stack.append(p)
                    loops.setdefault(h, set()).update(body)
        return sorted(loops.items())

    # ---- contents
    def calls(self):
        if self._calls is None:
            cs = []
            for i, b in enumerate(self.blocks):
                t = b['t']
                if t['k'] in ('call', 'tailcall'):
                    cs.append(Call(self, i, t))
            self._calls = cs
        return self._calls

    def calls_to(self, pred):
        """pred: str (suffix match on declared or resolved callee) or callable(Call)->bool"""
        if callable(pred):
            return [c for c in self.calls() if pred(c)]
        return [c for c in self.calls() if path_matches(c.callee, pred) or path_matches(c.resolved, pred)]

    def stmts(self):
        for i, b in enumerate(self.blocks):
            for j, s in enumerate(b['s']):
                yield i, j, s

    def assigns(self):
        for i, j, s in self.stmts():
            if 'lhs' in s:
                yield i, j, s['lhs'], s['rv'], s

    def defs_of(self, local):
        """All definitions (assign statements / call destinations) whose lhs base local is `local`
        with no projection."""
        if self._defs is None:
            d = defaultdict(list)
            for i, j, lhs, rv, s in self.assigns():
                if is_bare(lhs):
                    d[lhs['l']].append(('assign', i, j, rv))
                else:
                    d[lhs['l']].append(('partial', i, j, rv, lhs))
            for c in self.calls():
                if c.dest is not None:
                    if is_bare(c.dest):
                        d[c.dest['l']].append(('call', c.bb, None, c))
                    else:
                        d[c.dest['l']].append(('partialcall', c.bb, None, c))
            self._defs = d
        return self._defs[local]

    def span_of(self, raw):
        return Span(raw, self.crate.files)

    # ---- provenance
    TRANSPARENT = ('ops::deref::Deref>::deref', 'ops::deref::DerefMut>::deref_mut', 'convert::AsRef<', 'borrow::Borrow<',
                   'convert::AsMut<', 'borrow::BorrowMut<', 'string::String::as_str', 'vec::Vec::<T, A>::as_slice',
                   'vec::Vec::<T, A>::as_mut_slice', 'option::Option::<T>::as_ref', 'option::Option::<T>::as_mut',
                   'option::Option::<T>::as_deref', 'string::String::as_bytes', 'str::<impl str>::as_bytes')

    WIDE = ('into_iter', 'iter', 'iter_mut', 'next', 'unwrap', 'expect', 'clone', 'cloned', 'copied', 'to_owned', 'to_string',
            'borrow', 'borrow_mut', 'as_ref', 'as_mut', 'as_str', 'as_slice', 'deref', 'deref_mut', 'peekable', 'peek', 'rev',
            'enumerate', 'unwrap_or_default', 'as_deref', 'first', 'last', 'get', 'into', 'from', 'as_bytes', 'chars', 'by_ref',
            'as_mut_slice', 'unwrap_unchecked', 'into_inner', 'take', 'skip', 'zip', 'to_vec', 'into_boxed_slice', 'as_ptr',
            'as_mut_ptr', 'len')

    def _transparent(self, c, wide=False):
        r = c.resolved or ''
        d = c.callee or ''
        if wide and c.name() in self.WIDE:
            return True
        if d.endswith('convert::Into::into') and r.endswith('convert::From<T>>::from'):
            # Into::into resolving to the reflexive `impl From<T> for T` is the identity
            return True
        for t in self.TRANSPARENT:
            if t in r or t in d:
                return True
        return False

    def origin(self, op_or_place, depth=12, _seen=None, wide=False):
        """Depth-limited backwards def-use walk: returns a set of provenance terms for an operand.
        Terms: ('const', op) | ('arg', n, projs) | ('call', Call, projs) | ('agg', rv, projs)
               | ('ref', place) | ('unknown', what) . Copies, moves, reborrows and derefs are looked through;
        field projections are accumulated (outermost last)."""
        if op_or_place is None:
            return {('unknown', 'none')}
        if 'c' in op_or_place and 'l' not in op_or_place:
            return {('const', json.dumps(op_or_place, sort_keys=True))}
        p = op_place(op_or_place) if ('cp' in op_or_place or 'mv' in op_or_place) else op_or_place
        return self._origin_place(p, depth, _seen or set(), wide)

    def _origin_place(self, p, depth, seen, wide=False):
        l = p['l']
        projs = tuple(proj_str(x) for x in place_projs(p) if x != '*')
        if 1 <= l <= self.argc:
            return {('arg', l, projs)}
        key = (l, projs)
        if depth <= 0 or key in seen:
            return {('unknown', 'depth')}
        seen = seen | {key}
        out = set()
        defs = [d for d in self.defs_of(l) if d[0] in ('assign', 'call')]
        if not defs:
            return {('unknown', 'nodef:_%d' % l)}
        for d in defs:
            if d[0] == 'call':
                c = d[3]
                if self._transparent(c, wide) and c.args and op_place(c.args[0]) is not None:
                    for t in self._origin_place(op_place(c.args[0]), depth - 1, seen, wide):
                        out.add(_add_projs(t, projs))
                else:
                    out.add(('call', c, projs))
                continue
            rv = d[3]
            k = rv['k']
            if k == 'use':
                a = rv['a']
                if 'c' in a and 'l' not in a:
                    out.add(('const', json.dumps(a, sort_keys=True)))
                else:
                    for t in self._origin_place(op_place(a), depth - 1, seen, wide):
                        out.add(_add_projs(t, projs))
            elif k in ('ref', 'rawptr'):
                for t in self._origin_place(rv['p'], depth - 1, seen, wide):
                    out.add(_add_projs(t, projs))
            elif k == 'cast':
                a = rv['a']
                if 'c' in a and 'l' not in a:
                    out.add(('const', json.dumps(a, sort_keys=True)))
                else:
                    for t in self._origin_place(op_place(a), depth - 1, seen, wide):
                        out.add(_add_projs(t, projs))
            elif k == 'agg':
                out.add(('agg', json.dumps(rv, sort_keys=True), projs))
            else:
                out.add(('rv', json.dumps(rv, sort_keys=True), projs))
        return out

    # ---- printing
    def dump(self):
        lines = ['fn %s   [%s]  (%s)' % (self.path, self.kind, self.span)]
        for i, l in enumerate(self.locals):
            lines.append('    let _%d: %s%s' % (i, l['ty'], ('   // ' + l['n']) if l.get('n') else ''))
        for i, b in enumerate(self.blocks):
            lines.append('  bb%d%s:' % (i, ' (cleanup)' if b.get('cleanup') else ''))
            for s in b['s']:
                if 'lhs' in s:
                    lines.append('      %s = %s   // %s' % (place_str(s['lhs'], self), rv_str(s['rv'], self), self.span_of(s.get('sp'))))
                elif 'setdiscr' in s:
                    lines.append('      discr(%s) = %s' % (place_str(s['setdiscr'], self), s['vi']))
                else:
                    lines.append('      %s' % json.dumps(s)[:200])
            t = b['t']
            k = t['k']
            if k == 'call':
                f = t['f']
                nm = f.get('res') or f.get('def') or ('fnptr ' + op_str(f.get('op'), self))
                lines.append('      %s = %s(%s) -> bb%s unwind %s  [%s]   // %s' % (
                    place_str(t['d'], self), nm, ', '.join(op_str(a, self) for a in t['a']), t['t'], t['u'],
                    f.get('rk', ''), self.span_of(t.get('sp'))))
            elif k == 'switch':
                lines.append('      switch %s : %s -> %s else bb%d' % (op_str(t['d'], self), t['ty'],
                             ', '.join('%s=>bb%d' % (v, b2) for v, b2 in t['ts']), t['else']))
            elif k == 'assert':
                lines.append('      assert(%s == %s, %s %s) -> bb%d   // %s' % (op_str(t['cond'], self), t['exp'], t['msg'],
                             [op_str(o, self) for o in t['ops']], t['t'], self.span_of(t.get('sp'))))
            elif k == 'drop':
                lines.append('      drop(%s) -> bb%d unwind %s' % (place_str(t['p'], self), t['t'], t['u']))
            elif k == 'goto':
                lines.append('      goto bb%d' % t['t'])
            else:
                lines.append('      %s' % k)
        return '\n'.join(lines)


def _add_projs(term, projs):
    if not projs:
        return term
    if term[0] in ('arg',):
        return (term[0], term[1], term[2] + projs)
    if term[0] in ('call', 'agg', 'rv'):
        return (term[0], term[1], term[2] + projs)
    return term


def rv_str(rv, fn=None):
    k = rv['k']
    if k == 'use':
        return op_str(rv['a'], fn)
    if k == 'ref':
        return '&%s%s' % ('mut ' if rv['mut'] else '', place_str(rv['p'], fn))
    if k == 'rawptr':
        return '&raw %s' % place_str(rv['p'], fn)
    if k == 'cast':
        return '%s as %s [%s]' % (op_str(rv['a'], fn), rv['ty'], rv['ck'])
    if k == 'bin':
        return '%s(%s, %s)' % (rv['op'], op_str(rv['a'], fn), op_str(rv['b'], fn))
    if k == 'un':
        return '%s(%s)' % (rv['op'], op_str(rv['a'], fn))
    if k == 'discr':
        return 'discriminant(%s)' % place_str(rv['p'], fn)
    if k == 'agg':
        if rv['ak'] == 'adt':
            return '%s::%s { %s }' % (rv['adt'], rv['v'], ', '.join('%s: %s' % (n, op_str(o, fn)) for n, o in zip(rv['fn'], rv['ops'])))
        if rv['ak'] == 'closure':
            return 'closure %s [%s]' % (rv['def'], ', '.join(op_str(o, fn) for o in rv['ops']))
        return '%s(%s)' % (rv['ak'], ', '.join(op_str(o, fn) for o in rv['ops']))
    return json.dumps(rv)[:160]


def path_matches(path, pat):
    """pat matches if equal, or path ends with '::'+pat (segment-aligned suffix)."""
    if path is None:
        return False
    return path == pat or path.endswith('::' + pat)


# --------------------------------------------------------------------------- renamed private functions
# The rules name functions of /repo. A private function that is merely renamed (same parent module or impl, same body) is the same function:
# it is recognised by the shape of its body, recorded in ledgers/fn_names.json when the rules were written, and the program is presented to the
# rules under the recorded name. Anything else (a body that changed together with the name, two candidates) stays unmatched and the rules that
# need the function fail closed with a missing anchor.
NAME_CRATES = ('slicec', 'slicec_bin', 'slice_codec')


def fn_tokens(f):
    """shape of a function body: one token per statement and terminator; calls carry the callee's last name and arity"""
    out = ['argc:%d' % f.argc, 'ret:%s' % f.locals[0]['ty'] if f.locals else 'ret:?']
    for blk in f.blocks:
        if blk.get('cleanup'):
            continue
        for st in blk['s']:
            rv = st.get('rv')
            if rv is None:
                continue
            k = rv['k']
            if k == 'use':
                continue          # plain moves and copies come and go with the way an expression is written (a block around a match arm)
            if k in ('bin', 'un'):
                k += ':' + rv['op']
            elif k == 'agg':
                k += ':' + (rv.get('adt', rv.get('ak', '')).rsplit('::', 1)[-1]) + ':' + str(rv.get('v', ''))
            out.append(k)
        t = blk['t']
        if t['k'] == 'call':
            d = (t['f'].get('def') or t['f'].get('res') or '?')
            out.append('call:%s/%d' % (re.sub(r'::<.*$', '', d).rsplit('::', 1)[-1], len(t.get('a', []))))
        elif t['k'] == 'switch':
            out.append('switch:%s:%s' % (t.get('ty'), ','.join(str(v) for v, _ in t.get('ts', []))))
        else:
            out.append(t['k'])
    return out


def _parent_of(path):
    p = re.sub(r'::<[^<>]*(<[^<>]*>[^<>]*)*>$', '', path)
    return p.rsplit('::', 1)[0] if '::' in p else ''


def name_ledger_entries(prog):
    out = {}
    for p, f in prog.fns.items():
        if f.crate.tag in NAME_CRATES and '{closure' not in p and not f.generated and not p.startswith('<') and f.blocks:
            kids = sorted((g.path[len(p):], fn_tokens(g)) for q, g in prog.fns.items() if q.startswith(p + '::{closure'))
            out[p] = {'parent': _parent_of(p), 'tokens': fn_tokens(f), 'closures': [t for _, t in kids]}
    return out


def _masked(tokens, common):
    return ['call:LOCAL/' + t.rsplit('/', 1)[1] if t.startswith('call:') and t[5:].rsplit('/', 1)[0] not in common else t for t in tokens]


def recognise_renames(prog, ledger):
    """{recorded path: current path} for functions that disappeared under their recorded name and reappear, body unchanged, under a new name in
    the same module / impl. Names of functions that exist on one side only are masked on both sides (several functions renamed at once)."""
    now = name_ledger_entries(prog)
    gone = [p for p in ledger if p not in prog.fns]
    new = [p for p in now if p not in ledger]
    if not gone or not new:
        return {}
    last = lambda p: re.sub(r'::<.*$', '', p).rsplit('::', 1)[-1]
    common = ({last(p) for p in ledger} & {last(p) for p in now})
    local = {last(p) for p in ledger} | {last(p) for p in now}
    keep = lambda name: name in common or name not in local        # std / other crates' names are kept as they are
    mask = lambda toks: ['call:LOCAL/' + t.rsplit('/', 1)[1] if t.startswith('call:') and not keep(t[5:].rsplit('/', 1)[0]) else t for t in toks]
    out, taken = {}, set()
    for old in gone:
        e = ledger[old]
        sig = (mask(e['tokens']), [mask(c) for c in e.get('closures', [])])
        cands = [n for n in new if now[n]['parent'] == e['parent'] and (mask(now[n]['tokens']), [mask(c) for c in now[n]['closures']]) == sig]
        if len(cands) == 1 and cands[0] not in taken:
            out[old] = cands[0]
            taken.add(cands[0])
    return out


def apply_renames(prog, renames):
    """present the functions under their recorded names: paths of the functions and of their closures, callee paths of every call, closure
    aggregates, impl method tables"""
    if not renames:
        return
    inv = sorted(((new, old) for old, new in renames.items()), key=lambda x: -len(x[0]))

    def fix(sv):
        if not isinstance(sv, str):
            return sv
        for new, old in inv:
            if new in sv:
                i = sv.find(new)
                end = i + len(new)
                if end == len(sv) or sv[end] in ':<>,) ':
                    sv = sv[:i] + old + sv[end:]
        return sv
    for c in prog.crates.values():
        for f in c.fns:
            f.real_path = f.path
            f.path = fix(f.path)
            f.raw['path'] = f.path
            f.root = fix(f.root)
            for blk in f.blocks:
                t = blk['t']
                if t['k'] == 'call':
                    for k in ('def', 'res'):
                        if t['f'].get(k):
                            t['f'][k] = fix(t['f'][k])
                for st in blk['s']:
                    rv = st.get('rv')
                    if rv and rv.get('k') == 'agg' and rv.get('ak') == 'closure' and rv.get('def'):
                        rv['def'] = fix(rv['def'])
        for i in c.impls:
            for m in i.get('methods', []):
                if m.get('path'):
                    m['path'] = fix(m['path'])
    prog.fns = {}
    for c in prog.crates.values():
        for f in c.fns:
            prog.fns[f.path] = f
    prog.renamed = dict(renames)


class Crate:
    def __init__(self, raw):
        self.name = raw['crate']
        self.is_bin = raw['is_bin']
        self.tag = self.name + ('_bin' if self.is_bin else '')
        self.files = raw['files']
        self.adts = raw['adts']
        self.traits = raw['traits']
        self.impls = raw['impls']
        self.consts = raw['consts']
        self.statics = raw['statics']
        self.fns = [Fn(self, f) for f in raw['fns']]


class Program:
    def __init__(self, facts_dir):
        self.crates = {}
        for f in sorted(os.listdir(facts_dir)):
            if f.endswith('.json') and not f.startswith('_'):
                with open(os.path.join(facts_dir, f)) as fh:
                    c = Crate(json.load(fh))
                self.crates[c.tag] = c
        self.fns = {}
        for c in self.crates.values():
            for f in c.fns:
                self.fns[f.path] = f
        self.adts = {}
        self.traits = {}
        self.impls = []
        self.consts = {}
        for c in self.crates.values():
            for a in c.adts:
                a['_crate'] = c
                self.adts[a['path']] = a
            for t in c.traits:
                t['_crate'] = c
                self.traits[t['path']] = t
            for i in c.impls:
                i['_crate'] = c
                self.impls.append(i)
            for k in c.consts:
                self.consts[k['path']] = k
        self._cg = None
        self._closures = None
        self.renamed = {}
        led = os.path.join(os.path.dirname(os.path.abspath(__file__)), '..', '..', 'ledgers', 'fn_names.json')
        if os.path.exists(led) and os.environ.get('VERIF_NO_RENAMES') != '1':
            with open(led) as fh:
                ledger = json.load(fh)['functions']
            apply_renames(self, recognise_renames(self, ledger))

    # ---- lookup
    def fn(self, pat, crate=None):
        """Unique function whose path equals pat or ends with ::pat. Raises AnchorMissing."""
        r = self.find_fns(pat, crate)
        if len(r) != 1:
            raise AnchorMissing('function %r: expected exactly one match, found %d %s' % (pat, len(r), [f.path for f in r][:5]))
        return r[0]

    def find_fns(self, pat, crate=None):
        out = []
        for p, f in self.fns.items():
            if crate and f.crate.tag != crate:
                continue
            if path_matches(p, pat):
                out.append(f)
        return out

    def adt(self, pat):
        r = [a for p, a in self.adts.items() if path_matches(p, pat)]
        if len(r) != 1:
            raise AnchorMissing('type %r: expected exactly one match, found %d' % (pat, len(r)))
        return r[0]

    def impls_of(self, trait_pat):
        return [i for i in self.impls if i.get('trait') and path_matches(i['trait'], trait_pat)]

    def impl_methods(self, trait_pat, method):
        """All Fn objects implementing trait method (local impls)."""
        out = []
        for i in self.impls_of(trait_pat):
            for m in i['methods']:
                if m['n'] == method and m['path'] in self.fns:
                    out.append(self.fns[m['path']])
        return out

    def closures_of(self, fn):
        if self._closures is None:
            d = defaultdict(list)
            for f in self.fns.values():
                if f.kind == 'closure':
                    d[f.root].append(f)
            self._closures = d
        return self._closures.get(fn.path, [])

    def promoted_of(self, fn):
        """promoted constant bodies of fn and of its closures"""
        owners = {fn.path} | {c.path for c in self.closures_of(fn)}
        return [f for f in self.fns.values() if f.kind == 'promoted' and f.root in owners]

    def literals_of(self, fn):
        """string literals mentioned by fn, its closures and their promoted constants"""
        out = set()
        for g in [fn] + self.closures_of(fn) + self.promoted_of(fn):
            for bb, j, s in g.stmts():
                if 'lhs' in s:
                    for o in [s['rv'].get('a'), s['rv'].get('b')] + list(s['rv'].get('ops', [])):
                        if isinstance(o, dict) and 'str' in o:
                            out.add(o['str'])
            for c in g.calls():
                for a in c.args:
                    if isinstance(a, dict) and 'str' in a:
                        out.add(a['str'])
        return out

    def with_closures(self, fn):
        return [fn] + self.closures_of(fn)

    # ---- call graph
    def callgraph(self):
        """edges: dict caller path -> set of callee paths (local functions only), conservative.
        Also returns per-edge reasons in self.cg_reason[(a,b)]."""
        if self._cg is not None:
            return self._cg
        edges = defaultdict(set)
        reason = {}
        sites = defaultdict(list)     # (caller, callee) -> [bb or None]
        # trait method name -> impl fns (CHA)
        trait_impls = defaultdict(list)   # (trait path, method name) -> [fn path]
        for i in self.impls:
            if i.get('trait'):
                for m in i['methods']:
                    if m['path'] in self.fns:
                        trait_impls[(i['trait'], m['n'])].append(m['path'])
        # default methods of local traits
        trait_defaults = {}
        for t in self.traits.values():
            for m in t['methods']:
                if m['default'] and m['path'] in self.fns:
                    trait_defaults[(t['path'], m['n'])] = m['path']

        def add(a, b, why, bb=None):
            if b in self.fns:
                edges[a].add(b)
                reason.setdefault((a, b), why)
                sites[(a, b)].append(bb)

        def fn_consts_in(op):
            if op is not None and 'c' in op:
                if 'fn' in op:
                    yield op['fn'], op.get('args', [])
                if 'closure' in op:
                    yield op['closure'], []

        for f in self.fns.values():
            # closures belong to their definer
            for c in f.calls():
                k = c.kind
                if k in ('fnptr', 'other'):
                    continue
                res = c.f.get('res')
                d = c.f.get('def')
                if c.is_resolved and res:
                    add(f.path, res, 'call', c.bb)
                    if c.f.get('closure'):
                        add(f.path, c.f['closure'], 'closure-call', c.bb)
                else:
                    # dyn / unresolved: every impl of that trait method + the default body
                    tr = c.f.get('trait')
                    if tr:
                        nm = d.rsplit('::', 1)[-1]
                        for t in trait_impls.get((tr, nm), ()):
                            add(f.path, t, 'cha:' + (c.f.get('self') or '?'), c.bb)
                        if (tr, nm) in trait_defaults:
                            add(f.path, trait_defaults[(tr, nm)], 'cha-default', c.bb)
                    elif d:
                        add(f.path, d, 'call-unresolved', c.bb)
                # function items / closures passed as arguments are assumed called by the callee
                for a in c.args:
                    for fp, _ in fn_consts_in(a):
                        add(f.path, fp, 'fn-arg', c.bb)
            for bbi, _, lhs, rv, _s in f.assigns():
                ops = []
                if rv['k'] in ('use', 'cast', 'un', 'repeat'):
                    ops = [rv['a']]
                elif rv['k'] == 'agg':
                    ops = rv['ops']
                    if rv['ak'] == 'closure':
                        add(f.path, rv['def'], 'closure', bbi)
                elif rv['k'] == 'bin':
                    ops = [rv['a'], rv['b']]
                for o in ops:
                    for fp, _ in fn_consts_in(o):
                        add(f.path, fp, 'fn-value', bbi)
        # a closure nobody was seen to construct (e.g. only named in a type) still belongs to its definer
        for f in self.fns.values():
            if f.kind == 'closure' and not any(f.path in v for v in edges.values()):
                add(f.root, f.path, 'closure-orphan', None)
        self._cg = edges
        self.cg_reason = reason
        self.cg_sites = sites
        return edges

    def reachable_fns(self, roots, stop=()):
        """Set of function paths reachable from root paths over the call graph; `stop` paths are
        not expanded (but included)."""
        cg = self.callgraph()
        seen = set()
        parent = {}
        dq = deque()
        for r in roots:
            if r in self.fns and r not in seen:
                seen.add(r)
                dq.append(r)
        stop = set(stop)
        while dq:
            a = dq.popleft()
            if a in stop:
                continue
            for b in sorted(cg.get(a, ())):
                if b not in seen:
                    seen.add(b)
                    parent[b] = a
                    dq.append(b)
        self.last_parent = parent
        return seen

    def path_to(self, target, parent=None):
        parent = parent if parent is not None else self.last_parent
        p = [target]
        while p[-1] in parent:
            p.append(parent[p[-1]])
        return list(reversed(p))

    def callers_of(self, pat):
        """All Call objects whose declared or resolved callee matches pat."""
        out = []
        for f in self.fns.values():
            for c in f.calls():
                if path_matches(c.callee, pat) or path_matches(c.resolved, pat):
                    out.append(c)
        return out

    def sccs(self, nodes=None):
        """Tarjan SCCs of the call graph restricted to `nodes`; returns list of lists with
        len>1 or self-loop."""
        cg = self.callgraph()
        nodes = set(nodes) if nodes is not None else set(self.fns)
        index = {}
        low = {}
        onstack = set()
        stack = []
        out = []
        counter = [0]

        def strong(v0):
            work = [(v0, iter(sorted(x for x in cg.get(v0, ()) if x in nodes)))]
            index[v0] = low[v0] = counter[0]
            counter[0] += 1
            stack.append(v0)
            onstack.add(v0)
            while work:
                v, it = work[-1]
                adv = False
                for w in it:
                    if w not in index:
                        index[w] = low[w] = counter[0]
                        counter[0] += 1
                        stack.append(w)
                        onstack.add(w)
                        work.append((w, iter(sorted(x for x in cg.get(w, ()) if x in nodes))))
                        adv = True
                        break
                    elif w in onstack:
                        low[v] = min(low[v], index[w])
                if adv:
                    continue
                work.pop()
                if work:
                    u = work[-1][0]
                    low[u] = min(low[u], low[v])
                if low[v] == index[v]:
                    comp = []
                    while True:
                        w = stack.pop()
                        onstack.discard(w)
                        comp.append(w)
                        if w == v:
                            break
                    if len(comp) > 1 or v in cg.get(v, ()):
                        out.append(sorted(comp))
        for v in sorted(nodes):
            if v not in index:
                strong(v)
        return out


class AnchorMissing(Exception):
    pass


def strip_closure(path):
    """function path without closure suffixes"""
    return re.sub(r'(::\{closure#\d+\})+$', '', path)
