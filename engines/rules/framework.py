"""Rule engine plumbing: rule instances, findings, known-findings matching, evidence output."""
import json
import os
import sys
import time
import traceback

from mirlib import AnchorMissing

VERIF = os.path.abspath(os.path.join(os.path.dirname(os.path.abspath(__file__)), '..', '..'))


class Finding:
    def __init__(self, rule, key, where, text, path=None):
        self.rule = rule
        self.key = key
        self.where = where
        self.text = text
        self.path = path or []

    def to_json(self):
        return {'rule': self.rule, 'key': self.key, 'where': self.where, 'what': self.text, 'path': self.path}


class Rule:
    """One rule (a template instantiated for a property clause). Instances are evaluated one by
    one: ok() for a satisfied instance, finding() for a violated one."""

    def __init__(self, prop, rid, template, title):
        self.prop = prop
        self.id = rid
        self.template = template
        self.title = title
        self.evaluated = 0
        self.ok_count = 0
        self.findings = []
        self.samples = []
        self.instances = set()
        self.floor_n = None
        self.notes = []

    def ok(self, instance, detail=None):
        self.evaluated += 1
        self.ok_count += 1
        self.instances.add(str(instance))
        if len(self.samples) < 6:
            s = {'rule': self.id, 'instance': str(instance), 'verdict': 'ok'}
            if detail is not None:
                s['detail'] = str(detail)[:400]
            self.samples.append(s)

    def finding(self, key, where, text, path=None):
        self.evaluated += 1
        full = '%s:%s:%s' % (self.prop, self.id, key)
        self.instances.add(str(key))
        self.findings.append(Finding(self.id, full, str(where), text, path))

    def note(self, text):
        self.notes.append(text)

    def floor(self, n, what='instances'):
        """Fail closed when fewer instances matched than were confirmed by hand."""
        self.floor_n = n
        if self.evaluated < n:
            full = '%s:%s:anchor-missing:floor' % (self.prop, self.id)
            self.findings.append(Finding(self.id, full, '-', 'rule matched %d %s, fewer than the %d confirmed by hand on the pinned tree: '
                                         'the rule would pass vacuously' % (self.evaluated, what, n)))

    def summary(self):
        return {'rule': self.id, 'template': self.template, 'title': self.title, 'evaluated': self.evaluated,
                'ok': self.ok_count, 'findings': len(self.findings), 'floor': self.floor_n, 'notes': self.notes}


class Ctx:
    def __init__(self, prop, tier, prog, repo, cache_dir, configs=None):
        self.prop = prop
        self.tier = tier
        self.prog = prog          # default configuration Program
        self.repo = repo
        self.cache_dir = cache_dir
        self.configs = configs or {}   # name -> Program  (thorough tier)
        self.rules = []
        self.extra = {}

    def rule(self, rid, template, title):
        r = Rule(self.prop, rid, template, title)
        self.rules.append(r)
        return r

    def run_rule(self, rid, template, title, fn, *args):
        """Run fn(rule, ...) and turn a missing anchor or an engine error into a fail-closed finding."""
        r = self.rule(rid, template, title)
        try:
            fn(r, *args)
        except AnchorMissing as e:
            r.findings.append(Finding(rid, '%s:%s:anchor-missing' % (self.prop, rid), '-', 'anchor missing: %s' % e))
        except Exception as e:  # engine error: fail closed, never pass silently
            tb = traceback.format_exc()
            r.findings.append(Finding(rid, '%s:%s:engine-error' % (self.prop, rid), '-', 'rule engine error: %s\n%s' % (e, tb)))
        return r


def load_known():
    p = os.path.join(VERIF, 'known_findings.json')
    if not os.path.exists(p):
        return {}, []
    with open(p) as fh:
        d = json.load(fh)
    known = {}
    for k in d.get('known', []):
        known[k['key']] = k
    return known, d.get('fixed', [])


def finish(ctx, t0, seed=0, level='other', assumptions=(), explanation='', extra_cov=None):
    """Match findings against known_findings.json, print the verdict lines, write the evidence
    file and return the exit code."""
    known, _fixed = load_known()
    prop = ctx.prop
    ev_dir = os.environ.get('VERIF_EVIDENCE_DIR') or os.path.join(VERIF, 'evidence')
    os.makedirs(ev_dir, exist_ok=True)
    viol_dir = os.path.join(ev_dir, '%s.violations' % prop)
    if os.path.isdir(viol_dir):
        for f in os.listdir(viol_dir):
            os.unlink(os.path.join(viol_dir, f))
    violations = []
    known_hits = []
    seen_keys = set()
    for r in ctx.rules:
        for f in r.findings:
            if f.key in seen_keys:
                continue        # the same construct reported again by a pass over another configuration
            seen_keys.add(f.key)
            if f.key in known and known[f.key].get('property') == prop:
                known_hits.append(f)
            else:
                violations.append(f)
    for f in known_hits:
        print('KNOWN-FINDING: property=%s %s %s' % (prop, f.key, known[f.key].get('what', f.text).replace('\n', ' ')))
    n = 0
    for f in violations:
        os.makedirs(viol_dir, exist_ok=True)
        p = os.path.join(viol_dir, '%d.json' % n)
        with open(p, 'w') as fh:
            json.dump(f.to_json(), fh, indent=1)
        print('  rule %s  key %s\n    at %s\n    %s' % (f.rule, f.key, f.where, f.text.replace('\n', '\n    ')))
        if f.path:
            print('    path: ' + ' -> '.join(f.path))
        print('VIOLATION property=%s replay=%s' % (prop, p))
        n += 1
    evaluated = sum(r.evaluated for r in ctx.rules)
    distinct = len(set((r.id, i) for r in ctx.rules for i in r.instances))
    samples = []
    for r in ctx.rules:
        samples.extend(r.samples[:3])
    for f in (known_hits + violations)[:10]:
        samples.append({'rule': f.rule, 'instance': f.key, 'verdict': 'finding', 'where': f.where, 'detail': f.text[:300]})
    cov = {
        'explanation': explanation,
        'evaluations': evaluated,
        'distinct_nontrivial': distinct,
        'rule': 'one evaluation = one rule instance (a call site, field, impl, variant, loop, SCC, panic-capable site or '
                'reduction variant selected from the resolved program of /repo) checked against its rule; distinct = '
                'distinct (rule, instance key) pairs; an instance is non-trivial because it is a construct that exists in the '
                'analysed tree (rules with zero matches fail closed through their floor)',
        'obligations': evaluated,
        'discharged': evaluated - len(violations) - len(known_hits),
        'known_findings': len(known_hits),
        'samples': samples[:40],
        'rules': [r.summary() for r in ctx.rules],
        'functions_analysed': len(ctx.prog.fns) if ctx.prog else 0,
        'call_edges': sum(len(v) for v in ctx.prog.callgraph().values()) if ctx.prog else 0,
        'configs': ['default'] + sorted(ctx.configs.keys()),
        'exhaustive': False,
    }
    cov.update(ctx.extra)
    if extra_cov:
        cov.update(extra_cov)
    ev = {
        'property_id': prop,
        'tier': ctx.tier,
        'seed': seed,
        'level': level,
        'coverage': cov,
        'assumptions': list(assumptions),
        'wall_s': round(time.time() - t0, 3),
        'violations': len(violations),
    }
    with open(os.path.join(ev_dir, '%s.json' % prop), 'w') as fh:
        json.dump(ev, fh, indent=1)
    # the verdict is the exit status and the VIOLATION lines above; the summary is for the reader: a reader that has gone away (a closed
    # pipe) must not turn a held property into a failing exit status
    try:
        print('%s [%s]: %d rule instances over %d rules, %d known finding(s), %d violation(s)' % (
            prop, ctx.tier, evaluated, len(ctx.rules), len(known_hits), len(violations)))
        for r in ctx.rules:
            print('   %-8s %-4s %3d evaluated %3d ok %2d finding(s)  %s' % (r.id, r.template, r.evaluated, r.ok_count, len(r.findings), r.title))
        sys.stdout.flush()
    except BrokenPipeError:
        try:
            os.dup2(os.open(os.devnull, os.O_WRONLY), sys.stdout.fileno())
        except OSError:
            pass
    return 1 if violations else 0
