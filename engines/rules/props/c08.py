"""C08 - the encoded generator request is decodable and says what the AST says (layout and provenance clauses)."""
import glob
import os
import re
import decisions

from mirlib import AnchorMissing
from helpers import aggregates, vexpr, field_accesses
import guards
import rule_scopes

EXPLANATION = (
    'Equality of the decoded request with the compiled program for all programs is value-level and not decided. Decided: (1) layout agreement between '
    'the shipped schema slice/Compiler/*.slice (read on every run) and the hand-written encoders/decoders in definition_types.rs (from MIR, macro-made impls '
    'included): one Rust type per schema type with the same fields in the same order and matching types; each encoder writes one presence bool per optional '
    'field first (taken from that same field), then every field in schema order with the encoding of its schema type (varint for varint32, fixed width '
    'otherwise), optional values exactly on the Some edge of the same field, and the tag end marker last; enums with fields are #[repr(u8)], number their '
    'variants in schema order, write the discriminant as a varint, the payload of exactly that variant, then the end marker; decoders read the same order '
    'and skip tagged fields last; (2) request framing: operation name of the schema, then source files, then reference files, split by is_source in one '
    'pass; only files without a module are left out; the generator gets the shared payload and then its own arguments as size + key/value pairs; (3) '
    'conversion: every part of a doc comment is read by the converter; parameters are documented from @param tags and return members from @returns tags; '
    'every field of every converted symbol is filled from the AST element it describes (precondition/value ledger of slice_file_converter.rs); (4) '
    'anonymous type ids: the nested conversion precedes the push and the id is read after it (len-1), named ids are module-scoped identifiers; (5) every '
    'attribute kind is converted.')
THOROUGH_RERUN = ['release']     # the same rules over the release build (no debug assertions): verified clean on the pinned tree
ASSUMPTIONS = ['rustc type checking and MIR construction', 'slice_codec implements the Slice encoding of the primitive it is asked to encode (C10/C11)',
               'the schema files use the plain subset of Slice that the built-in reader understands (anything else fails closed)']
DT = 'slicec_bin::definition_types::'
PRIM = {'string': 'alloc::string::String', 'bool': 'bool', 'uint64': 'u64', 'int32': 'i32', 'uint8': 'u8', 'varint32': 'i32', 'int64': 'i64', 'uint32': 'u32', 'int8': 'i8', 'int16': 'i16',
        'uint16': 'u16', 'varuint32': 'u32', 'varint62': 'i64', 'varuint62': 'u64', 'float32': 'f32', 'float64': 'f64'}
VARINT = ('varint32', 'varuint32', 'varint62', 'varuint62')


def snake(n):
    n = n.lstrip('\\')
    return re.sub(r'(?<!^)([A-Z])', lambda m: '_' + m.group(1).lower(), n).lower()


class Schema:
    def __init__(self, repo):
        self.structs, self.enums, self.aliases, self.ops = {}, {}, {}, {}
        files = sorted(glob.glob(os.path.join(repo, 'slice', 'Compiler', '*.slice')))
        if len(files) < 3:
            raise AnchorMissing('schema files slice/Compiler/*.slice (found %d)' % len(files))
        for fp in files:
            text = open(fp).read()
            text = re.sub(r'//[^\n]*', '', text)
            text = re.sub(r'\[\[?[^\]]*\]\]?', '', text)
            pos = 0
            text = text.strip()
            m = re.match(r'\s*module\s+(\w+)', text)
            if not m:
                raise AnchorMissing('module declaration in %s' % fp)
            rest = text[m.end():]
            for m in re.finditer(r'(typealias\s+(\w+)\s*=\s*([^\n]+))|((?:compact\s+)?struct\s+(\w+)\s*\{([^}]*)\})|((unchecked\s+)?enum\s+(\w+)\s*(?::\s*(\w+))?\s*\{([^}]*)\})|(interface\s+(\w+)\s*\{([^}]*)\})', rest):
                if m.group(1):
                    self.aliases[m.group(2)] = m.group(3).strip()
                elif m.group(4):
                    flds = []
                    for line in m.group(6).split('\n'):
                        line = line.strip().rstrip(',')
                        if not line:
                            continue
                        fm = re.match(r'^(\\?\w+)\s*:\s*(.+)$', line)
                        if not fm:
                            raise AnchorMissing('schema field %r in %s' % (line, fp))
                        flds.append((fm.group(1).lstrip('\\'), fm.group(2).strip()))
                    self.structs[m.group(5)] = flds
                elif m.group(7):
                    vs = []
                    for line in m.group(11).split('\n'):
                        line = line.strip().rstrip(',')
                        if not line:
                            continue
                        vm = re.match(r'^(\w+)(?:\(([^)]*)\))?$', line)
                        if not vm:
                            raise AnchorMissing('schema enumerator %r in %s' % (line, fp))
                        payload = [tuple(x.strip() for x in f.split(':')) for f in vm.group(2).split(',')] if vm.group(2) else []
                        vs.append((vm.group(1), payload))
                    self.enums[m.group(9)] = {'unchecked': bool(m.group(8)), 'underlying': m.group(10), 'variants': vs}
                elif m.group(12):
                    for om in re.finditer(r'(\w+)\s*\(([^)]*)\)', m.group(14)):
                        if om.group(1)[0].islower() and om.group(1) not in ('generatedFiles',):
                            self.ops.setdefault(m.group(13), []).append((om.group(1), [x.split(':')[0].strip() for x in om.group(2).split(',') if x.strip()]))
                            break
        if len(self.structs) < 15 or len(self.enums) < 3:
            raise AnchorMissing('schema types (found %d structs, %d enums)' % (len(self.structs), len(self.enums)))

    def rust_type(self, t):
        t = t.strip()
        if t.endswith('?'):
            return 'core::option::Option<%s>' % self.rust_type(t[:-1])
        m = re.match(r'^Sequence<(.+)>$', t)
        if m:
            return 'alloc::vec::Vec<%s>' % self.rust_type(m.group(1))
        if t in self.aliases:
            return self.rust_type(self.aliases[t])
        if t in PRIM:
            return PRIM[t]
        if t in self.structs or t in self.enums:
            return DT + t
        raise AnchorMissing('schema type %r' % t)

    def base(self, t):
        t = t.strip().rstrip('?')
        while t in self.aliases:
            t = self.aliases[t]
        return t


def _trace(prog, f):
    """ordered encoder/decoder calls of f: [(name, [arg exprs], value type, guards)] in dominance order"""
    cs = [c for c in f.calls() if not f.blocks[c.bb].get('cleanup') and c.name() in ('encode', 'encode_varint', 'encode_size', 'decode', 'decode_varint', 'decode_size', 'skip_tagged_fields')]
    import functools

    def cmp(a, b):
        if a.bb == b.bb:
            return 0
        if f.dominates(a.bb, b.bb):
            return -1
        if f.dominates(b.bb, a.bb):
            return 1
        return 0
    cs.sort(key=functools.cmp_to_key(cmp))
    out = []
    for c in cs:
        gs = [g for g in guards.guard_set(prog, f, c.bb) if not re.search(r'\) is Continue$', g)]
        out.append((c.name(), [vexpr(f, a) for a in c.args], (c.targs[1] if len(c.targs) > 1 else None), gs, c))
    return out


ARGUMENTS_SHAPE = [('encode_size', 'len(arg1.0)'), ('encode', 'next(into_iter(arg1.0)) as Some.0.0'), ('encode', 'next(into_iter(arg1.0)) as Some.0.1')]


def arguments_shape(prog, f, tr):
    """ordered (call, value) list of the Arguments encoder; the closure form (size, then (try_)for_each over the same vector with a closure
    that encodes .0 then .1 of its element) is reported in the shape of the loop form"""
    shape = [(c, a[1]) for c, a, ty, g, _ in tr]
    if shape == [('encode_size', 'len(arg1.0)')]:
        cl = [g for g in prog.fns.values() if g.path.startswith(f.path + '::{closure#')]
        ad = [c for c in f.calls() if c.name() in ('try_for_each', 'for_each') and not f.blocks[c.bb].get('cleanup')
              and vexpr(f, c.args[0]) in ('iter(arg1.0)', 'into_iter(arg1.0)') and f.dominates(tr[0][4].bb, c.bb)]
        if len(cl) == 1 and len(ad) == 1 and [(c, a[1]) for c, a, ty, g, _ in _trace(prog, cl[0])] == [('encode', 'arg2.0'), ('encode', 'arg2.1')]:
            return list(ARGUMENTS_SHAPE)
    return shape


def r_schema_encoders(r, prog, repo):
    sc = Schema(repo)
    DECODED = ('GeneratedFile', 'Diagnostic')
    for name, flds in sorted(sc.structs.items()):
        adt = prog.adts.get(DT + name)
        if adt is None:
            r.finding('schema-type-without-rust-type:%s' % name, '-', 'the schema struct %s has no Rust type in definition_types.rs' % name)
            continue
        rf = [(x['n'], x['ty']) for x in adt['variants'][0]['fields']]
        want = [(snake(n), sc.rust_type(t)) for n, t in flds]
        if rf == want:
            r.ok('struct %s: %d fields, same names, order and types as the schema' % (name, len(rf)))
        else:
            r.finding('struct-fields:%s' % name, '-', 'definition_types::%s has fields %s, the schema says %s' % (name, rf, want))
            continue
        if name in DECODED:
            continue
        f = prog.fns.get('<&%s%s as slice_codec::encode_into::EncodeInto>::encode_into' % (DT, name))
        if f is None:
            r.finding('encoder-missing:%s' % name, '-', 'no EncodeInto impl for &%s' % name)
            continue
        tr = _trace(prog, f)
        opts = [(n, t) for n, t in flds if t.endswith('?')]
        if len(opts) > 1:
            raise AnchorMissing('bit sequences with several bits (%s): not modelled' % name)
        exp = []
        for n, t in opts:
            exp.append(('encode', 'is_some(arg1.%s)' % snake(n), [], 'presence bit of %s' % n))
        for n, t in flds:
            b = sc.base(t)
            call = 'encode_varint' if b in VARINT else 'encode'
            if t.endswith('?'):
                exp.append((call, 'arg1.%s as Some.0' % snake(n), ['arg1.%s is Some' % snake(n)], '%s (only when present)' % n))
            else:
                exp.append((call, 'arg1.%s' % snake(n), [], n))
        exp.append(('encode_varint', '-1', [], 'tag end marker'))
        got = [(c, a[1] if len(a) > 1 else None, g) for c, a, ty, g, _ in tr]
        good = len(got) == len(exp) and all(g[0] == e[0] and g[1] == e[1] and g[2] == e[2] for g, e in zip(got, exp))
        if good:
            # value types of the fields
            tys = {a[1]: ty for c, a, ty, g, _ in tr if len(a) > 1}
            badty = []
            for n, t in flds:
                key = 'arg1.%s' % snake(n) + (' as Some.0' if t.endswith('?') else '')
                rt = sc.rust_type(t.rstrip('?'))
                if tys.get(key) not in (rt, '&' + rt):
                    badty.append((n, tys.get(key), rt))
            if badty:
                r.finding('encoder-types:%s' % name, f.span, 'the encoder of %s writes %s' % (name, badty))
            else:
                r.ok('encoder of %s: %s' % (name, ', '.join(e[3] for e in exp)))
        else:
            r.finding('encoder-layout:%s' % name, f.span, 'the encoder of %s writes %s; the schema prescribes %s' % (name, [(g[0], g[1], g[2]) for g in got], [(e[0], e[1], e[2]) for e in exp]))
    # enums
    for name, e in sorted(sc.enums.items()):
        adt = prog.adts.get(DT + name)
        if adt is None:
            r.finding('schema-type-without-rust-type:%s' % name, '-', 'the schema enum %s has no Rust type' % name)
            continue
        vs = [(v['n'], v['discr'], [x['ty'] for x in v['fields']]) for v in adt['variants']]
        want = [(vn, str(i), [sc.rust_type(t) for _, t in payload]) for i, (vn, payload) in enumerate(e['variants'])]
        if vs == want and 'I8, false' in (adt.get('repr_int') or ''):
            r.ok('enum %s: #[repr(u8)], %d variants numbered in schema order with the schema\'s payload types' % (name, len(vs)))
        else:
            r.finding('enum-variants:%s' % name, '-', 'definition_types::%s is %s (repr %s); the schema says %s' % (name, vs, adt.get('repr_int'), want))
            continue
        if e['underlying']:
            # plain enum over an integer: decoded
            f = prog.fns.get('<%s%s as slice_codec::decode_from::DecodeFrom>::decode_from' % (DT, name))
            if f is None:
                r.finding('decoder-missing:%s' % name, '-', 'no DecodeFrom impl for %s' % name)
                continue
            tr = _trace(prog, f)
            oks = {}
            for a in aggregates(prog, DT + name, crates=('slicec_bin',)):
                if a['fn'] is f:
                    for g in guards.guard_set(prog, f, a['bb']):
                        m = re.match(r'^decode\(arg1\) as Continue\.0 == (\d+)$', g)
                        if m:
                            oks[a['rv']['v']] = m.group(1)
            if len(tr) == 1 and tr[0][2] == PRIM[e['underlying']] and oks == {vn: str(i) for i, (vn, _) in enumerate(e['variants'])}:
                r.ok('decoder of %s: one %s, values in schema order' % (name, e['underlying']))
            else:
                r.finding('enum-decoder:%s' % name, f.span, 'the decoder of %s reads %s and maps %s' % (name, [(c, ty) for c, a, ty, g, _ in tr], oks))
            continue
        f = prog.fns.get('<&%s%s as slice_codec::encode_into::EncodeInto>::encode_into' % (DT, name))
        if f is None:
            r.finding('encoder-missing:%s' % name, '-', 'no EncodeInto impl for &%s' % name)
            continue
        tr = _trace(prog, f)
        first = tr[0] if tr else None
        last = tr[-1] if tr else None
        arms = tr[1:-1]
        good = first is not None and first[0] == 'encode_varint' and first[1][1] == 'cast(from(arg1))' and first[2] == 'u8' and not first[3]
        good = good and last[0] == 'encode_varint' and last[1][1] == '-1' and not last[3]
        seen = {}
        for c, a, ty, g, _ in arms:
            m = re.match(r'^arg1 as (\w+)\.0$', a[1])
            d = [re.match(r'^discr\(arg1\) == (\d+)$', x) for x in g]
            d = [x.group(1) for x in d if x]
            if c == 'encode' and m and len(d) == 1:
                seen[m.group(1)] = d[0]
            else:
                good = False
        if good and seen == {vn: str(i) for i, (vn, _) in enumerate(e['variants'])}:
            r.ok('encoder of %s: discriminant as varint, the payload of that variant, tag end marker' % name)
        else:
            r.finding('enum-encoder:%s' % name, f.span, 'the encoder of %s writes %s' % (name, [(c, a[1:], g) for c, a, ty, g, _ in tr]))
    # decoders of the response structs
    for name in DECODED:
        flds = sc.structs[name]
        f = prog.fns.get('<%s%s as slice_codec::decode_from::DecodeFrom>::decode_from' % (DT, name))
        if f is None:
            r.finding('decoder-missing:%s' % name, '-', 'no DecodeFrom impl for %s' % name)
            continue
        tr = _trace(prog, f)
        cl = [g for g in prog.fns.values() if g.path.startswith(f.path + '::{closure')]
        exp = ['bool' for n, t in flds if t.endswith('?')] + [sc.rust_type(t) for n, t in flds if not t.endswith('?')]
        got = [ty for c, a, ty, g, _ in tr if c == 'decode']
        optexp = [sc.rust_type(t.rstrip('?')) for n, t in flds if t.endswith('?')]
        optgot = [ty for g in cl for c, a, ty, gs, _ in _trace(prog, g) if c == 'decode']
        thens = [c for c in f.calls() if c.name() == 'then' and not f.blocks[c.bb].get('cleanup')]
        lastok = tr and tr[-1][0] == 'skip_tagged_fields'
        # optional fields must be the trailing fields here (decoded after the required ones), as the closure runs after them
        trailing = all(t.endswith('?') for n, t in flds[len(flds) - len(optexp):])
        if got == exp and optgot == optexp and lastok and trailing and len(thens) == len(optexp):
            r.ok('decoder of %s: %s%s, then skips tagged fields' % (name, ', '.join(exp), (' then optional ' + ', '.join(optexp)) if optexp else ''))
        else:
            r.finding('decoder-layout:%s' % name, f.span, 'the decoder of %s reads %s (+optional %s); the schema prescribes %s (+optional %s) and skip_tagged_fields last' % (name, got, optgot, exp, optexp))
    # Arguments = Dictionary<string, string>
    al = sc.aliases.get('Arguments', '')
    f = prog.fns.get('<%sArguments as slice_codec::encode_into::EncodeInto>::encode_into' % DT)
    if f is None:
        raise AnchorMissing('EncodeInto for Arguments')
    tr = _trace(prog, f)
    shape = arguments_shape(prog, f, tr)
    if re.match(r'^Dictionary<\s*string\s*,\s*string\s*>$', al) and shape == ARGUMENTS_SHAPE:
        r.ok('Arguments (%s): number of pairs, then key and value of every pair in order' % al)
    else:
        r.finding('arguments-layout', f.span, 'Arguments (%s) is written as %s' % (al, shape))
    # every Rust type of definition_types that is encoded or decoded is in the schema
    for p, a in prog.adts.items():
        if p.startswith(DT) and p[len(DT):] not in sc.structs and p[len(DT):] not in sc.enums and p[len(DT):] not in ('Arguments',):
            r.finding('rust-type-without-schema-type:%s' % p[len(DT):], '-', 'definition_types::%s is not declared in the schema' % p[len(DT):])
    r.floor(45)


def r_request_framing(r, prog, repo):
    sc = Schema(repo)
    f = prog.fn('slicec_bin::encode_generate_code_request')
    tr = _trace(prog, f)
    shape = [(c, a[1]) for c, a, ty, g, _ in tr]
    op = sc.ops.get('CodeGenerator', [(None, [])])[0]
    want_name = "'%s'" % op[0]
    if len(shape) == 3 and shape[0] == ('encode', want_name) and 'source_files' not in shape[0][1]:
        r.ok('the request starts with the operation name %s' % want_name)
    else:
        r.finding('request-operation-name', f.span, 'the request starts with %s (schema operation: %s)' % (shape[:1], want_name))
    # which vector is which: the one pushed under is_source == true is the first sequence
    host, via = decisions.request_partition_host(prog)
    # the two sequences are written in the order the files were compiled in (argument order): nothing sorts, reverses or thins them out
    # between the partition and the encoding
    ORDER = re.compile(r'^(sort(_unstable)?(_by(_key|_cached_key)?)?|reverse|rev|swap(_remove)?|rotate_(left|right)|retain(_mut)?|dedup(_by(_key)?)?|remove|truncate|drain|pop|split_off|insert)$')
    hosts = {f.path: f}
    if host is not None:
        hosts[host.path] = host
    moved = [(g, c) for g in hosts.values() for c in g.calls() if ORDER.match(c.name()) and not g.blocks[c.bb].get('cleanup')]
    if moved:
        g, c = moved[0]
        r.finding('request-files-reordered:%s' % c.name(), c.span, '%s calls %s on %s: the files reach the generators in another order than they were given and compiled in' % (g.path, c.name(), vexpr(g, c.args[0])[:60] if c.args else '?'))
    else:
        r.ok('the source and reference sequences keep the order of the compiled files (no sorting or removal before they are encoded)')
    if host is not f:
        return _request_partition_through_helper(r, prog, f, host, via, tr)
    pushes = [(vexpr(f, c.args[0]), vexpr(f, c.args[1]), guards.guard_set(prog, f, c.bb), c) for c in f.calls() if c.name() == 'push' and not f.blocks[c.bb].get('cleanup')]
    src = [p for p in pushes if any(re.search(r'is_source', g) and not g.startswith('!') and not re.search(r'== 0$', g) for g in p[2])]
    ref = [p for p in pushes if any((re.search(r'is_source', g) and (g.startswith('!') or re.search(r'== 0$', g))) for g in p[2])]
    if len(pushes) == 2 and len(src) == 1 and len(ref) == 1 and src[0][1] == ref[0][1] and re.match(r'^from\(next\(into_iter\(arg1\)\) as Some\.0\)$', src[0][1]):
        # the local that receives the source pushes must be the one encoded first
        sl = base_local_of(f, src[0][3].args[0])
        rl = base_local_of(f, ref[0][3].args[0])
        e1 = base_local_of(f, tr[1][4].args[1]) if len(tr) == 3 else None
        e2 = base_local_of(f, tr[2][4].args[1]) if len(tr) == 3 else None
        if sl is not None and sl == e1 and rl == e2 and sl != rl:
            r.ok('every file is converted once and goes to the source sequence (written first) when is_source, else to the reference sequence (written second)')
        else:
            r.finding('request-sequences', f.span, 'source files are collected in _%s and reference files in _%s, but _%s is written first and _%s second' % (sl, rl, e1, e2))
    else:
        r.finding('request-partition', f.span, 'files are distributed as %s' % [(p[0], p[1], p[2]) for p in pushes])
    # spawn_plugin_process: shared payload, then the arguments, nothing else
    sp = prog.fn('slicec_bin::spawn_plugin_process')
    ws = [c for c in sp.calls() if c.name() == 'write_all' and not sp.blocks[c.bb].get('cleanup')]
    enc = [c for c in sp.calls() if c.name() == 'encode' and not sp.blocks[c.bb].get('cleanup')]
    if len(ws) == 2 and len(enc) == 1 and sp.dominates(ws[0].bb, enc[0].bb) and sp.dominates(enc[0].bb, ws[1].bb) and vexpr(sp, ws[0].args[1]) == 'arg2' \
            and re.match(r'^Arguments::Arguments\{0:clone\(arg1\.args\)\}$', vexpr(sp, enc[0].args[1])):
        r.ok('a generator receives the shared payload and then its own arguments, nothing else')
    else:
        r.finding('generator-input', sp.span, 'spawn_plugin_process writes %s and encodes %s' % ([vexpr(sp, c.args[1])[:60] for c in ws], [vexpr(sp, c.args[1])[:60] for c in enc]))
    r.floor(3)


def _request_partition_through_helper(r, prog, f, h, via, tr):
    """the same decision when the conversion and distribution sit in a helper that hands back (sources, references): the pushes are judged in
    the helper, the order of the two sequences by which component of its result is encoded first"""
    pushes = [(vexpr(h, c.args[0]), vexpr(h, c.args[1]), guards.guard_set(prog, h, c.bb), c) for c in h.calls() if c.name() == 'push' and not h.blocks[c.bb].get('cleanup')]
    src = [p for p in pushes if any(re.search(r'is_source', g) and not g.startswith('!') and not re.search(r'== 0$', g) for g in p[2])]
    ref = [p for p in pushes if any((re.search(r'is_source', g) and (g.startswith('!') or re.search(r'== 0$', g))) for g in p[2])]
    rets = [d[3] for d in h.defs_of(0) if d[0] == 'assign' and d[3]['k'] == 'agg' and d[3].get('ak') == 'tuple' and not h.blocks[d[1]].get('cleanup')]
    ok = False
    if len(pushes) == 2 and len(src) == 1 and len(ref) == 1 and src[0][1] == ref[0][1] and re.match(r'^from\(next\(into_iter\(arg1\)\) as Some\.0\)$', src[0][1]) \
            and len(rets) == 1 and len(rets[0]['ops']) == 2 and vexpr(f, via.args[0]) == 'arg1':
        sl, rl = base_local_of(h, src[0][3].args[0]), base_local_of(h, ref[0][3].args[0])
        comp = [base_local_of(h, o) for o in rets[0]['ops']]
        if sl in comp and rl in comp and sl != rl and len(tr) == 3:
            si, ri = comp.index(sl), comp.index(rl)
            e1, e2 = vexpr(f, tr[1][4].args[1]), vexpr(f, tr[2][4].args[1])
            call = '%s(arg1)' % via.name()
            if e1 == '%s.%d' % (call, si) and e2 == '%s.%d' % (call, ri):
                ok = True
    if ok:
        r.ok('every file is converted once (in %s) and goes to the source sequence (written first) when is_source, else to the reference sequence (written second)' % h.name)
    else:
        r.finding('request-partition', f.span, 'files are distributed in %s as %s and the request encodes %s' % (h.name, [(p[0], p[1], p[2]) for p in pushes], [vexpr(f, t[4].args[1])[:60] for t in tr[1:]]))
    sp = prog.fn('slicec_bin::spawn_plugin_process')
    ws = [c for c in sp.calls() if c.name() == 'write_all' and not sp.blocks[c.bb].get('cleanup')]
    enc = [c for c in sp.calls() if c.name() == 'encode' and not sp.blocks[c.bb].get('cleanup')]
    if len(ws) == 2 and len(enc) == 1 and sp.dominates(ws[0].bb, enc[0].bb) and sp.dominates(enc[0].bb, ws[1].bb) and vexpr(sp, ws[0].args[1]) == 'arg2' \
            and re.match(r'^Arguments::Arguments\{0:clone\(arg1\.args\)\}$', vexpr(sp, enc[0].args[1])):
        r.ok('a generator receives the shared payload and then its own arguments, nothing else')
    else:
        r.finding('generator-input', sp.span, 'spawn_plugin_process writes %s and encodes %s' % ([vexpr(sp, c.args[1])[:60] for c in ws], [vexpr(sp, c.args[1])[:60] for c in enc]))
    r.floor(3)


def base_local_of(f, op):
    from helpers import base_local
    try:
        return base_local(f, op)
    except Exception:
        return None


def r_request_conditions(r, prog):
    guards.evaluate(r, prog, rule_scopes.guards_request, 'guards_request.json', 6)


def r_conversion_ledger(r, prog):
    guards.evaluate(r, prog, rule_scopes.guards_converter, 'guards_converter.json', 40)


def r_documentation(r, prog):
    C = 'slicec_bin::slice_file_converter::'
    DC = 'slicec::grammar::comments::DocComment'
    reads = {}
    for fld in ('overview', 'params', 'returns', 'see'):
        for a in field_accesses(prog, DC, fld, crates=('slicec_bin',)):
            reads.setdefault(fld, set()).add(a['fn'].path)
    for fld in ('overview', 'params', 'returns', 'see'):
        if reads.get(fld):
            r.ok('DocComment.%s is read by the converter (%s)' % (fld, ', '.join(sorted(x.rsplit('::', 2)[-1] if '{closure' not in x else x.rsplit('::', 3)[-2] for x in reads[fld]))[:80]))
        else:
            r.finding('doc-part-never-converted:%s' % fld, '-', 'no function of the converter reads DocComment.%s: what is written there never reaches a generator' % fld)
    # parameters <- @param tags, return members <- @returns tags
    co = prog.fn(C + 'SliceFileContentsConverter::convert_operation')
    cls = [f for f in prog.fns.values() if f.path.startswith(co.path + '::{closure')]
    # which closure maps which list
    maps = {}
    for c in co.calls():
        if c.name() == 'map' and not co.blocks[c.bb].get('cleanup'):
            src = vexpr(co, c.args[0])
            clo = c.args[1].get('c') if isinstance(c.args[1], dict) else None
            maps[src] = vexpr(co, c.args[1])
    conv = {}
    for f in cls:
        called = [c.name() for c in f.calls() if c.name().startswith('convert_')]
        conv[f.path] = called
    par = [f for f, cs in conv.items() if cs == ['convert_parameter']]
    ret = [f for f, cs in conv.items() if cs == ['convert_return_member']]
    agg = [a for a in aggregates(prog, DT + 'Operation', crates=('slicec_bin',)) if a['fn'] is co]
    flds = {k: vexpr(co, o, depth=8) for k, o in zip(agg[0]['rv']['fn'], agg[0]['rv']['ops'])} if agg else {}
    if len(par) == 1 and len(ret) == 1 and re.match(r'^collect\(map\(into_iter\(parameters\(arg2\)\),closure', flds.get('parameters', '')) \
            and re.match(r'^collect\(map\(into_iter\(return_members\(arg2\)\),closure', flds.get('return_type', '')):
        # the closure order in the source follows field order: parameters first
        pidx = int(re.search(r'closure#(\d+)', par[0]).group(1))
        ridx = int(re.search(r'closure#(\d+)', ret[0]).group(1))
        if pidx < ridx:
            r.ok('parameters are converted by convert_parameter, return members by convert_return_member')
        else:
            r.finding('member-conversion-paths', co.span, 'the parameter list is converted by %s and the return list by %s' % (conv, flds))
    else:
        r.finding('member-conversion-paths', co.span, 'convert_operation converts its members through %s: return members must not take the parameter path (their documentation is in @returns tags)' % sorted(conv.values()))

    def doc_source(fn_name, want_field, lookup):
        f = prog.fn(C + 'SliceFileContentsConverter::' + fn_name)
        # the comment of the converted member
        vals = []
        for a in aggregates(prog, DT + 'EntityInfo', crates=('slicec_bin',)):
            if a['fn'] is f:
                vals.append(vexpr(f, dict(zip(a['rv']['fn'], a['rv']['ops']))['comment']))
        for bb, j, lhs, rv, s in f.assigns():
            nm = [x.get('n') for x in lhs.get('p', []) if isinstance(x, dict) and 'f' in x]
            if nm[-1:] == ['comment'] and not f.blocks[bb].get('cleanup'):
                vals = [vexpr(f, rv['a']) if rv['k'] == 'use' else rv['k']]
        for c in f.calls():
            if c.dest is not None and [x for x in c.dest.get('p', []) if isinstance(x, dict) and x.get('n') == 'comment'] and not f.blocks[c.bb].get('cleanup'):
                vals = ['%s(%s)' % (c.name(), ','.join(vexpr(f, a) for a in c.args))]
        lf = prog.fn(C + lookup)
        rd = {fld for fld in ('params', 'returns', 'overview', 'see') for a in field_accesses(prog, DC, fld, crates=('slicec_bin',)) if a['fn'] is lf or a['fn'].path.startswith(lf.path + '::{closure')}
        if vals == ['%s(arg2)' % lookup] and rd == {want_field}:
            r.ok('%s documents the member from the operation\'s @%s tags' % (fn_name, 'param' if want_field == 'params' else 'returns'))
        else:
            r.finding('member-documentation:%s' % fn_name, f.span, '%s takes the member\'s documentation from %s, which reads DocComment.%s (expected %s reading only .%s)' % (fn_name, vals, sorted(rd), lookup, want_field))
    doc_source('convert_parameter', 'params', 'get_doc_comment_for_parameter')
    doc_source('convert_return_member', 'returns', 'get_doc_comment_for_return_member')
    r.floor(7)



E2 = r'get_entity_info_for\(arg2\)'
FIELD_SOURCES = {   # converted type -> field -> regex the value must match wherever the converter builds that type
    'EntityInfo': {'identifier': r'^to_owned\(identifier\(arg[12]\)\)$', 'attributes': r'^get_attributes_from\(attributes\(arg[12]\)\)$',
                   'comment': r'^map\(comment\(arg1\),fn:core::convert::Into::into\)$|^get_doc_comment_for_parameter\(arg2\)$'},
    'Attribute': {'directive': r'^to_owned\(directive\(arg2\.kind', 'args': r'^get_attribute_args\(arg2\)$'},
    'Module': {'identifier': r'^to_owned\(nested_module_identifier\(borrow\(unwrap\(arg1\.module\)\)\)\)$', 'attributes': r'^get_attributes_from\(attributes\(borrow\(unwrap\(arg1\.module\)\)\)\)$'},
    'SliceFile': {'path': r'^clone\(arg1\.relative_path\)$', 'module_declaration': r'^Module::Module\{', 'attributes': r'^get_attributes_from\(attributes\(arg1\)\)$', 'contents': r'^convert\(arg1\.contents\)$'},
    'DocComment': {'overview': r'^map_or\(map\(arg1\.overview,closure\(\)\),new\(\),closure\(\)\)$|^arg2$', 'see_tags': r'^collect\(map\(iter\(arg1\.see\),closure\(\)\)\)$|^new\(\)$'},
    'TypeRef': {'type_id': r'^get_type_id_for\(arg1,arg2\)$', 'is_optional': r'^arg2\.is_optional$', 'type_attributes': r'^get_attributes_from\(attributes\(arg2\)\)$'},
    'Struct': {'entity_info': '^' + E2 + '$', 'is_compact': r'^arg2\.is_compact$', 'fields': r'^collect\(map\(into_iter\(fields\(arg2\)\),closure\(arg1\)\)\)$'},
    'Field': {'entity_info': '^' + E2 + r'$|^EntityInfo::EntityInfo\{identifier:to_owned\(identifier\(arg2\)\),attributes:get_attributes_from\(attributes\(arg2\)\),comment:get_doc_comment_for_parameter\(arg2\)\}$',
              'tag': r'^map\(arg2\.tag,closure\(\)\)$', 'data_type': r'^convert_type_ref\(arg1,data_type\(arg2\)\)$'},
    'Interface': {'entity_info': '^' + E2 + '$', 'bases': r'^collect\(map\(into_iter\(base_interfaces\(arg2\)\),closure\(\)\)\)$', 'operations': r'^collect\(map\(into_iter\(operations\(arg2\)\),closure\(arg1\)\)\)$'},
    'Operation': {'entity_info': '^' + E2 + '$', 'is_idempotent': r'^arg2\.is_idempotent$', 'parameters': r'^collect\(map\(into_iter\(parameters\(arg2\)\),closure\(arg1\)\)\)$',
                  'has_streamed_parameter': r'^is_some_and\(last\(arg2\.parameters\),closure\(\)\)$', 'return_type': r'^collect\(map\(into_iter\(return_members\(arg2\)\),closure\(arg1\)\)\)$',
                  'has_streamed_return': r'^is_some_and\(last\(arg2\.return_type\),closure\(\)\)$'},
    'BasicEnum': {'entity_info': '^' + E2 + '$', 'is_unchecked': r'^arg2\.is_unchecked$', 'underlying': r'^type_string\(arg2\.underlying as Some\.0\)$', 'enumerators': r'^collect\(map\(into_iter\(enumerators\(arg2\)\),closure\(arg1\)\)\)$'},
    'VariantEnum': {'entity_info': '^' + E2 + '$', 'is_compact': r'^arg2\.is_compact$', 'is_unchecked': r'^arg2\.is_unchecked$', 'variants': r'^collect\(map\(into_iter\(enumerators\(arg2\)\),closure\(arg1\)\)\)$'},
    'Enumerator': {'entity_info': '^' + E2 + '$', 'absolute_value': r'^unsigned_abs\(value\(arg2\)\)$', 'has_negative_value': r'^is_negative\(value\(arg2\)\)$'},
    'Variant': {'entity_info': '^' + E2 + '$', 'discriminant': r'^unwrap\(try_into\(value\(arg2\)\)\)$', 'fields': r'^collect\(map\(into_iter\(fields\(arg2\)\),closure\(arg1\)\)\)$'},
    'CustomType': {'entity_info': '^' + E2 + '$'},
    'TypeAlias': {'entity_info': '^' + E2 + '$', 'underlying_type': r'^convert_type_ref\(arg1,arg2\.underlying\)$'},
    'SequenceType': {'element_type': r'^convert_type_ref\(arg1,arg2\.element_type\)$'},
    'DictionaryType': {'key_type': r'^convert_type_ref\(arg1,arg2\.key_type\)$', 'value_type': r'^convert_type_ref\(arg1,arg2\.value_type\)$'},
    'ResultType': {'success_type': r'^convert_type_ref\(arg1,arg2\.success_type\)$', 'failure_type': r'^convert_type_ref\(arg1,arg2\.failure_type\)$'},
}
SYMBOL_PAYLOAD = {'Struct': r'^convert_struct\(.*as Struct\.0\)\)$', 'Interface': r'^convert_interface\(.*as Interface\.0\)\)$', 'CustomType': r'^convert_custom_type\(.*as CustomType\.0\)\)$',
                  'TypeAlias': r'^convert_type_alias\(.*as TypeAlias\.0\)\)$', 'BasicEnum': r'^BasicEnum::BasicEnum\{', 'VariantEnum': r'^VariantEnum::VariantEnum\{',
                  'ResultType': r'^convert_result_type\(arg1,concrete_type\(arg2\) as ResultType\.0\)$', 'SequenceType': r'^convert_sequence\(arg1,concrete_type\(arg2\) as Sequence\.0\)$',
                  'DictionaryType': r'^convert_dictionary\(arg1,concrete_type\(arg2\) as Dictionary\.0\)$'}
MESSAGE = {'Text': r'^clone\(arg1 as Text\.0\)$', 'Link': r'^convert_doc_comment_link\(linked_entity\(arg1 as Link\.0\)\)$'}


def r_field_sources(r, prog):
    seen = set()
    for f in prog.fns.values():
        if f.crate.tag != 'slicec_bin' or (f.span.file or '') != 'slicec/src/slice_file_converter.rs':
            continue
        for bb, j, lhs, rv, s in f.assigns():
            if rv['k'] != 'agg' or not (rv.get('adt') or '').startswith(DT) or f.blocks[bb].get('cleanup'):
                continue
            name = rv['adt'][len(DT):]
            where = f.path.replace('slicec_bin::slice_file_converter::', '')
            if name == 'Symbol' or name == 'MessageComponent':
                table = SYMBOL_PAYLOAD if name == 'Symbol' else MESSAGE
                got = vexpr(f, rv['ops'][0], depth=10)
                if re.search(table.get(rv['v'], r'^\b$'), got):
                    r.ok('%s::%s(%s) in %s' % (name, rv['v'], got[:50], where))
                    seen.add((name, rv['v']))
                else:
                    r.finding('converted-variant:%s::%s' % (name, rv['v']), f.span, '%s builds %s::%s from %s' % (where, name, rv['v'], got[:160]))
                continue
            spec = FIELD_SOURCES.get(name)
            if spec is None:
                r.finding('converted-type-not-in-table:%s' % name, f.span, '%s builds a %s, for which no field sources are recorded' % (where, name))
                continue
            for k, o in zip(rv.get('fn') or [], rv['ops']):
                got = vexpr(f, o, depth=10)
                if k in spec and re.search(spec[k], got):
                    r.ok('%s.%s <- %s   (%s)' % (name, k, got[:70], where))
                    seen.add((name, k))
                else:
                    r.finding('converted-field:%s.%s:%s' % (name, k, where), f.span, 'in %s the field %s.%s is filled from %s; it must come from %s' % (where, name, k, got[:200], spec.get(k)))
    # numbers are split / converted at their full width: value() is an i128; a narrowing cast before unsigned_abs / is_negative / try_into is
    # invisible in the value expressions above (casts are transparent there) but wraps the upper half of uint64
    for f in prog.fns.values():
        if not f.path.startswith('slicec_bin::slice_file_converter::') or f.generated:
            continue
        for c in f.calls():
            if c.name() in ('unsigned_abs', 'is_negative', 'try_into') and not f.blocks[c.bb].get('cleanup') and vexpr(f, c.args[0]) == 'value(arg2)':
                recv = (c.resolved or c.callee or '') + ' ' + ' '.join(c.targs or [])
                if 'i128' in recv:
                    r.ok('%s: %s is applied to the i128 value itself' % (f.name, c.name()))
                else:
                    r.finding('number-narrowed-before-conversion:%s:%s' % (f.name, c.name()), c.span,
                              '%s applies %s to a narrowed copy of the value (%s): values outside that width wrap' % (f.name, c.name(), recv.strip()[:80]))
    # a resolved doc-comment link is transmitted as the full scoped name of the entity it designates (parser_scoped_identifier: operations, fields,
    # enumerators keep their container), an unresolved one as the text that was written
    lk = prog.fn('slicec_bin::slice_file_converter::convert_doc_comment_link')
    lv = vexpr(lk, {'cp': {'l': 0}}, depth=8)
    if lv == 'phi(clone(arg1 as Err.0.value)|parser_scoped_identifier(arg1 as Ok.0))':
        r.ok('a link is sent as parser_scoped_identifier() of the linked entity, or as written when unresolved')
        seen.add(('link', 'id'))
    else:
        r.finding('link-identifier', lk.span, 'convert_doc_comment_link returns %s: a link must name its entity by parser_scoped_identifier() (members keep their container) or carry the written text' % lv[:200])
    missing = [(n, k) for n, sp in FIELD_SOURCES.items() for k in sp if (n, k) not in seen] + [('Symbol', v) for v in SYMBOL_PAYLOAD if ('Symbol', v) not in seen]
    if missing:
        r.finding('converted-field-never-built', '-', 'the converter never fills %s' % missing)
    r.floor(70)

def r_type_ids(r, prog):
    C = 'slicec_bin::slice_file_converter::SliceFileContentsConverter::'
    f = prog.fn(C + 'get_type_id_for')
    # a helper that stores its argument in converted_contents and returns the position it was stored at counts as push + id
    def push_and_id(g):
        ps = [c for c in g.calls() if c.name() == 'push' and not g.blocks[c.bb].get('cleanup') and 'converted_contents' in vexpr(g, c.args[0])]
        ls = [c for c in g.calls() if c.name() == 'len' and not g.blocks[c.bb].get('cleanup')]
        ret = vexpr(g, {'cp': {'l': 0}}, depth=6)
        if len(ps) != 1 or vexpr(g, ps[0].args[1]) != 'arg2' or not ls:
            return False
        if all(g.dominates(ps[0].bb, l.bb) for l in ls) and re.match(r'^to_string\(Sub\(len\(arg1\.converted_contents\),1\)\)$', ret):
            return True
        # the same index taken just before the push (nothing else happens in between: the helper only measures, pushes and formats)
        others = [c.name() for c in g.calls() if not g.blocks[c.bb].get('cleanup') and c.name() not in ('len', 'push', 'to_string', 'deref')]
        return (len(ls) == 1 and g.dominates(ls[0].bb, ps[0].bb) and not others
                and re.match(r'^to_string\(len\(arg1\.converted_contents\)\)$', ret) is not None)
    helpers = {g.name for g in prog.fns.values() if g.path.startswith(C) and g is not f and '{closure' not in g.path and push_and_id(g)}
    pushes = [c for c in f.calls() if c.name() == 'push' and not f.blocks[c.bb].get('cleanup')]
    hcalls = [c for c in f.calls() if c.name() in helpers and not f.blocks[c.bb].get('cleanup')]
    lens = [c for c in f.calls() if c.name() == 'len' and not f.blocks[c.bb].get('cleanup')]
    convs = [c for c in f.calls() if c.name() in ('convert_result_type', 'convert_sequence', 'convert_dictionary') and not f.blocks[c.bb].get('cleanup')]
    want = {'convert_result_type': 'ResultType', 'convert_sequence': 'SequenceType', 'convert_dictionary': 'DictionaryType'}
    n = 0
    for cv in convs:
        ps = [p for p in pushes + hcalls if f.dominates(cv.bb, p.bb)]
        # nearest push dominated by this conversion and not by another conversion
        ps = [p for p in ps if not any(o is not cv and f.dominates(o.bb, p.bb) and f.dominates(cv.bb, o.bb) for o in convs)]
        ls = [l for l in lens if any(f.dominates(p.bb, l.bb) for p in ps)] + [p for p in ps if p in hcalls]
        sym = vexpr(f, ps[0].args[1]) if ps else ''
        if len(ps) == 1 and len(ls) >= 1 and re.match(r'^Symbol::%s\{0:%s\(arg1,' % (want[cv.name()], cv.name()), sym) and 'converted_contents' in (vexpr(f, ps[0].args[0]) if ps[0] in pushes else 'converted_contents'):
            n += 1
            r.ok('%s: nested conversion, then push, then id = position of the pushed symbol' % want[cv.name()])
        else:
            r.finding('anonymous-type-id:%s' % want[cv.name()], f.span,
                      'get_type_id_for(%s): the id must be read after the symbol was pushed, which must follow the nested conversion (nested symbols are pushed first); found push=%s len-after-push=%d' % (want[cv.name()], sym[:60], len(ls)))
    early = [l for l in lens if not any(f.dominates(p.bb, l.bb) for p in pushes)]
    if early:
        r.finding('anonymous-type-id-read-early', f.span, 'get_type_id_for reads converted_contents.len() before pushing: nested anonymous types pushed in between shift the id to the wrong symbol')
    rv = vexpr(f, {'cp': {'l': 0}}, depth=6)
    n_ids = len(re.findall(r'to_string\(Sub\(len\(arg1\.converted_contents\),1\)\)', rv)) + sum(rv.count(h + '(arg1,Symbol::') for h in helpers)
    if n_ids == 3:
        r.ok('the id is len() - 1')
    else:
        r.finding('anonymous-type-id-value', f.span, 'get_type_id_for returns %s' % rv[:200])
    named = re.findall(r'(module_scoped_identifier|type_string|parser_scoped_identifier|identifier)\(', rv)
    if sorted(named) == ['module_scoped_identifier'] * 3 + ['type_string']:
        r.ok('named types are identified by their module-scoped identifier, primitives by their keyword')
    else:
        r.finding('named-type-id', f.span, 'named type ids are %s' % named)
    if n < 3:
        raise AnchorMissing('anonymous arms of get_type_id_for (found %d)' % n)
    r.floor(5)


def r_attribute_kinds(r, prog):
    f = prog.fn('slicec_bin::slice_file_converter::get_attribute_args')
    handled = set()
    for c in f.calls():
        if c.name() == 'downcast' and c.targs:
            handled.add(c.targs[-1] if not c.targs[-1].startswith('&') else c.targs[-1][1:])
    kinds = {i['self'] for i in prog.impls if (i.get('trait') or '').endswith('grammar::attributes::AttributeKind') and i['_crate'].tag == 'slicec'}
    if not kinds:
        raise AnchorMissing('impls of AttributeKind')
    if kinds == handled:
        r.ok('get_attribute_args handles all %d attribute kinds' % len(kinds))
    else:
        r.finding('attribute-kind-not-converted', f.span, 'attribute kinds %s are not converted (handled: %s)' % (sorted(kinds - handled), sorted(handled - kinds)))
    r.floor(1)


def run(ctx):
    prog = ctx.prog
    ctx.run_rule('C08.1', 'T6', 'schema <-> encoder/decoder layout agreement', r_schema_encoders, prog, ctx.repo)
    from props import c19 as _c19
    ctx.run_rule('C08.2d', 'T2', 'the arguments dictionary follows the request for every generator, with or without arguments (the stream is the complete generateCode call)', _c19.r_arguments_always_sent, prog)
    ctx.run_rule('C08.2a', 'T4', 'request framing', r_request_framing, prog, ctx.repo)
    ctx.run_rule('C08.2b', 'T13', 'conditions of the request assembly (precondition ledger)', r_request_conditions, prog)
    ctx.run_rule('C08.3a', 'T5', 'documentation: every part is converted; members are documented from their own tags', r_documentation, prog)
    ctx.run_rule('C08.3b', 'T13', 'converted symbols are filled from the element they describe (value/precondition ledger)', r_conversion_ledger, prog)
    ctx.run_rule('C08.3c', 'T10', 'every field of every converted symbol comes from the part of the element it describes', r_field_sources, prog)
    ctx.run_rule('C08.4', 'T4', 'anonymous type ids', r_type_ids, prog)
    ctx.run_rule('C08.5', 'T5', 'every attribute kind is converted', r_attribute_kinds, prog)
    ctx.run_rule('C08.2c', 'T2', 'only files without a module declaration are left out of the request', decisions.r_request_leaves_out_only_moduleless_files, prog)
