"""C13 - lint suppression silences only the named lints in scope, never errors."""
import re

from mirlib import AnchorMissing, path_matches, op_place
from helpers import aggregates, must_pass, field_accesses, vexpr, sources_of, calls_matching, closures_of, loop_of
import levels

EXPLANATION = (
    'Static decision of the structural clauses of C13 on the MIR of slicec: (1) errors cannot be demoted: Diagnostic.level is written only by '
    'Diagnostic::new and, in into_updated, only inside the DiagnosticKind::Lint arm and only with Allowed; level Error is produced only under '
    'the Error-kind arm; (2) every lint other than DuplicateFile flows through set_scope before push_into, and the scope is the '
    'parser-scoped identifier of the entity the lint concerns (the key of the name table), never a bare container scope; (3) the lint-name '
    'comparison used for --allow is case-insensitive, as the option is declared; (4) non-interference: the Allow attribute and '
    'SliceOptions::allowed_lints are consulted only by into_updated (and the attribute converter of the generator request), and into_updated '
    'writes nothing but level; (5) contained elements append their parent\'s attributes. Decides these clauses on all paths, not the exact set '
    'of silenced lints for particular programs.')
THOROUGH_RERUN = ['release']     # the same rules over the release build (no debug assertions): verified clean on the pinned tree
WITNESSES = ['DiagnosticLevelsAreNotWritable']     # thorough tier: engines/witness (T12)
ASSUMPTIONS = ['rustc type checking and MIR construction', 'clap applies ignore_case as declared']
LINT = 'slicec::diagnostics::lints::Lint'
NO_SCOPE_LINTS = {'DuplicateFile': 'a command-line level lint about the file list: there is no element to attach it to'}


def _lint_pushes(prog):
    """(push_into call, expression of the pushed diagnostic) for every push whose diagnostic is (or may be) a lint."""
    lint_fns = {a['fn'].path for a in aggregates(prog, LINT, crates=('slicec',))}
    returns_lint = set()
    for p in lint_fns:
        f = prog.fns[p]
        if 'Diagnostic' in (f.raw.get('output') or '') and not [c for c in f.calls() if c.name() == 'push_into']:
            returns_lint.add(f.name)
    out = []
    for f in prog.fns.values():
        if f.crate.tag != 'slicec':
            continue
        for c in f.calls():
            if c.name() == 'push_into' and path_matches(c.resolved, 'Diagnostic::push_into'):
                ex = vexpr(f, c.args[0], depth=30)
                if 'Lint::' in ex or any((n + '(') in ex for n in returns_lint):
                    out.append((c, ex))
    return out, returns_lint


def r_lints_record_owner(r, prog):
    pushes, returns_lint = _lint_pushes(prog)
    variants = [v['n'] for v in prog.adts[LINT]['variants']]
    seen_variants = set()
    for c, ex in pushes:
        f = c.fn
        vs = re.findall(r'Lint::(\w+)\{', ex)
        for n in returns_lint:
            if (n + '(') in ex:
                g = [x for x in prog.fns.values() if x.name == n and x.crate.tag == 'slicec']
                for a in aggregates(prog, LINT, crates=('slicec',)):
                    if g and a['fn'] is g[0]:
                        vs.append(a['rv']['v'])
        vs = sorted(set(vs))
        seen_variants |= set(vs)
        if all(v in NO_SCOPE_LINTS for v in vs):
            r.ok('%s in %s carries no scope' % ('/'.join(vs), f.path), NO_SCOPE_LINTS[vs[0]])
            continue
        if 'set_scope(' not in ex:
            # the lint may be built, scope included, by a helper that hands back the finished diagnostic
            hosts = [x for n in returns_lint if (n + '(') in ex for x in prog.fns.values() if x.name == n and x.crate.tag == 'slicec'
                     and any(y.name() == 'set_scope' for y in x.calls())]
            if hosts:
                f = hosts[0]
        if 'set_scope(' not in ex and not (f is not c.fn):
            r.finding('lint-without-scope:%s:%s' % ('/'.join(vs), f.path), c.span,
                      'lint %s is pushed in %s without set_scope: an allow attribute on its element can never be consulted' % ('/'.join(vs), f.path))
            continue
        sc = [x for x in f.calls() if x.name() == 'set_scope' and ('set_scope(' + vexpr(f, x.args[0], depth=30)) in ex.replace(' ', '') or x.name() == 'set_scope']
        sc = [x for x in f.calls() if x.name() == 'set_scope']
        for x in sc:
            srcs = sources_of(prog, f, x.args[1], depth=5)
            for fp, e in sorted(srcs):
                key = '%s:%s' % ('/'.join(vs), fp)
                if re.search(r'parser_scoped_identifier\(parent\(|get_scoped_identifier\(parent\(', e):
                    r.finding('lint-scope-is-container:%s:%s' % (key, _short(re.sub(r'\s+', '', e)[:80])), x.span,
                              'the scope recorded for lint %s is the scoped identifier of the *parent* of the element (%s, in %s): an allow attribute on the element itself is not consulted' % ('/'.join(vs), e[:100], fp))
                elif 'parser_scoped_identifier(' in e or 'get_scoped_identifier(' in e:
                    r.ok('%s scope = scoped identifier of the element (%s)' % ('/'.join(vs), fp), e[:120])
                elif re.search(r'parser_scope\(|\.parser_scope|module_scope\(', e):
                    what = re.sub(r'\s+', '', e)[:80]
                    r.finding('lint-scope-is-container:%s:%s' % (key, _short(what)), x.span,
                              'the scope recorded for lint %s comes from %s in %s: that is the scope of the enclosing container, so an allow attribute '
                              'on the element itself is not consulted' % ('/'.join(vs), e[:100], fp))
                else:
                    r.finding('lint-scope-unrecognised:%s' % key, x.span, 'the scope recorded for lint %s is %s (in %s), not a scoped identifier of an entity' % ('/'.join(vs), e[:100], fp))
    for v in variants:
        if v not in seen_variants:
            r.note('lint %s has no producer in the compiler library' % v)
    r.floor(8, 'lint pushes')


def _short(e):
    """stable name of the offending source: `<Node variant>.<field>` when it is a field of an AST node, else the trailing accessor"""
    m = re.search(r'as(\w+)\.0\)?\.(\w+)', e)
    if m:
        return '%s.%s' % (m.group(1), m.group(2))
    return re.sub(r'[^\w.]', '', e)[-40:]


def r_cli_case_insensitive(r, prog):
    """--allow is declared ignore_case: the comparison with the lint code / 'All' must ignore case."""
    upd = prog.fn('slicec::diagnostics::diagnostic::Diagnostics::into_updated')
    fns = [f for f in prog.fns.values() if f.path.startswith(upd.path) or re.sub(r'(::\{closure#\d+\})+$', '', f.path) in _upd_family(prog)]
    cmp_exact = []
    cmp_ci = []
    # a function together with its closures is one unit: the code may be fetched outside the closure that compares it
    root = lambda f: re.sub(r'(::\{closure#\d+\})+$', '', f.path)
    with_code = {root(f) for f in fns if any(c.name() == 'code' and 'Lint' in (c.resolved or '') for c in f.calls())}
    fns = [f for f in fns if root(f) in with_code]
    if not fns:
        raise AnchorMissing('comparison with Lint::code() in into_updated')
    for f in fns:
        for c in f.calls():
            if c.name() in ('eq', 'ne') and 'PartialEq' in ((c.callee or '') + (c.resolved or '')) and ('str' in str(c.targs) or 'String' in str(c.targs)):
                cmp_exact.append(c)
            if c.name() in ('eq_ignore_ascii_case',):
                cmp_ci.append(c)
            if c.name() in ('to_lowercase', 'to_uppercase', 'to_ascii_lowercase', 'to_ascii_uppercase'):
                cmp_ci.append(c)
    # which functions read the command line list
    readers = {a['fn'].path for a in field_accesses(prog, 'slice_options::SliceOptions', 'allowed_lints', crates=('slicec', 'slicec_bin')) if a['kind'] == 'read'
               and not (a['fn'].impl_trait or '').startswith(('clap', 'core::fmt', 'core::default'))}
    if not readers:
        raise AnchorMissing('readers of SliceOptions::allowed_lints')
    if cmp_ci and not cmp_exact:
        r.ok('lint names are compared case-insensitively in into_updated', '%d comparison(s)' % len(cmp_ci))
    else:
        c = (cmp_exact or [None])[0]
        r.finding('allow-list-compared-exactly', c.span if c else upd.span,
                  '--allow is declared ignore_case (clap accepts "deprecated") but the names are compared exactly: the accepted value silences nothing')
    r.floor(1)


def _upd_family(prog):
    """into_updated, the functions nested in it, and the private functions of its module that are called from nowhere else (helpers hoisted
    out of it): paths of the functions (closures belong to their function)"""
    if getattr(prog, '_c13_family', None):
        return prog._c13_family
    upd = 'slicec::diagnostics::diagnostic::Diagnostics::into_updated'
    MOD = 'slicec::diagnostics::diagnostic::'
    root = lambda p: re.sub(r'(::\{closure#\d+\})+$', '', p)
    fam = {p for p in prog.fns if root(p) == upd or root(p).startswith(upd + '::')}
    fam = {root(p) for p in fam}
    grew = True
    while grew:
        grew = False
        for p, f in prog.fns.items():
            rp = root(p)
            if rp in fam or not rp.startswith(MOD) or '{closure' in rp or f.vis == 'pub' or rp.count('::') != MOD.count('::'):
                continue
            callers = {root(c.fn.path) for c in prog.callers_of(rp)}
            if callers and callers <= fam:
                fam.add(rp)
                grew = True
    prog._c13_family = fam
    return fam


def r_non_interference(r, prog):
    ALLOW = 'slicec::grammar::attributes::allow::Allow'
    upd = 'slicec::diagnostics::diagnostic::Diagnostics::into_updated'
    ok_readers = (upd, 'slicec_bin::slice_file_converter::get_attribute_args', 'slicec::grammar::attributes::allow::Allow::', '<slicec::grammar::attributes::allow::Allow as')
    n = 0
    for f in prog.fns.values():
        if f.crate.tag not in ('slicec', 'slicec_bin'):
            continue
        for c in f.calls():
            if c.name() in ('downcast', 'find_attribute', 'has_attribute') and any(ALLOW in t for t in c.targs):
                n += 1
                if f.path.startswith(ok_readers) or re.sub(r'(::\{closure#\d+\})+$', '', f.path) in _upd_family(prog):
                    r.ok('Allow consulted in %s' % f.path)
                else:
                    r.finding('allow-consulted-in:%s' % f.path, c.span, '%s looks for the allow attribute: a suppression could change more than diagnostic levels' % f.path)
    for a in field_accesses(prog, ALLOW, 'allowed_lints', crates=('slicec', 'slicec_bin')):
        f = a['fn']
        if a['kind'] == 'init' or (f.impl_trait or '').startswith('core::fmt'):
            continue
        n += 1
        if f.path.startswith(ok_readers) or re.sub(r'(::\{closure#\d+\})+$', '', f.path) in _upd_family(prog):
            r.ok('Allow.allowed_lints accessed in %s' % f.path)
        else:
            r.finding('allowed-lints-read-in:%s' % f.path, a['span'], 'Allow::allowed_lints is accessed in %s' % f.path)
    for a in field_accesses(prog, 'slice_options::SliceOptions', 'allowed_lints', crates=('slicec', 'slicec_bin')):
        f = a['fn']
        if (f.impl_trait or '').startswith(('clap', 'core::fmt', 'core::default')) or a['kind'] == 'init':
            continue
        n += 1
        if f.path.startswith(upd):
            r.ok('SliceOptions.allowed_lints read in into_updated')
        else:
            r.finding('cli-allow-list-read-in:%s' % f.path, a['span'], 'SliceOptions::allowed_lints is read in %s, outside into_updated' % f.path)
    # into_updated writes nothing but level
    u = prog.fn(upd)
    for f in [u] + prog.closures_of(u):
        for bb, j, s in f.stmts():
            if 'lhs' in s:
                names = [x.get('n') for x in s['lhs'].get('p', []) if isinstance(x, dict) and 'f' in x and (x.get('adt') or '').endswith('diagnostic::Diagnostic')]
                if names and names[-1] != 'level':
                    r.finding('into-updated-writes:%s' % names[-1], f.span_of(s.get('sp')), 'into_updated modifies Diagnostic.%s' % names[-1])
        for c in f.calls():
            if c.name() in ('push', 'remove', 'retain', 'sort', 'sort_by', 'sort_by_key', 'dedup', 'truncate', 'clear', 'swap', 'reverse', 'insert', 'drain', 'pop'):
                r.finding('into-updated-restructures:%s' % c.name(), c.span, 'into_updated calls %s: the list of diagnostics must only have levels rewritten' % c.name())
    r.ok('into_updated only rewrites levels')
    if n < 4:
        raise AnchorMissing('uses of the allow attribute / list (found %d)' % n)
    r.floor(5)


def r_contained_inherit_attributes(r, prog):
    cont = {}
    for i in prog.impls_of('slicec::grammar::traits::Contained'):
        cont[i['self_adt']] = i
    if len(cont) < 4:
        raise AnchorMissing('impls of Contained (found %d)' % len(cont))
    for adt in sorted(cont):
        ms = [f for f in prog.impl_methods('slicec::grammar::traits::Attributable', 'all_attributes') if f.impl_adt == adt]
        if not ms:
            r.finding('no-attributable-impl:%s' % adt, '-', '%s is Contained but has no Attributable impl' % adt)
            continue
        f = ms[0]
        par = [c for c in f.calls() if c.name() == 'parent']
        rec = [c for c in f.calls() if c.name() == 'all_attributes']
        ext = [c for c in f.calls() if c.name() in ('extend', 'append', 'extend_from_slice', 'chain')]
        own = [c for c in f.calls() if c.name() == 'attributes']
        if par and rec and ext and own:
            r.ok('%s::all_attributes = own attributes + parent().all_attributes()' % adt.rsplit('::', 1)[-1])
        else:
            r.finding('parent-attributes-not-inherited:%s' % adt, f.span, '%s::all_attributes does not append its parent\'s attributes: an allow on an enclosing definition is not seen' % adt)
    r.floor(4)


def r_file_allow_lookup(r, prog):
    """The file whose [[allow]] attributes are consulted for a lint is the file named by the lint's span (full relative path)."""
    upd = prog.fn('slicec::diagnostics::diagnostic::Diagnostics::into_updated')
    finds = [c for c in upd.calls() if c.name() in ('find', 'position', 'filter')]
    good = None
    for c in finds:
        cl = [a for a in c.args if a is not None and ('mv' in a or 'cp' in a)]
        ex = vexpr(upd, c.args[-1])
        for g in prog.closures_of(upd):
            if g.path.split('::')[-1] in ex or True:
                txt = str(g.raw['blocks'])
                reads_path = "'n': 'relative_path'" in txt
                reads_file = "'n': 'file'" in txt and 'slice_file::Span' in txt
                eq = any(x.name() in ('eq',) and 'PartialEq' in ((x.callee or '') + (x.resolved or '')) for x in g.calls())
                other = [n for n in ('filename', 'raw_text') if ("'n': '%s'" % n) in txt] + [x.name() for x in g.calls() if x.name() in ('file_stem', 'file_name', 'ends_with', 'starts_with', 'contains', 'eq_ignore_ascii_case')]
                if reads_path and reads_file and eq and not other:
                    good = g
    if good is not None:
        r.ok('into_updated finds the lint\'s file by relative_path == span.file', good.path)
    else:
        r.finding('file-allow-lookup-not-by-path', upd.span,
                  'into_updated does not select the file of a lint by comparing SliceFile::relative_path with the span\'s file: a file-level allow can leak to, or miss, another file')
    # the attributes consulted are those of that file
    r.floor(1)



def r_allow_accepted_where_lints_are_scoped(r, prog):
    """`allow` must be accepted on every kind of element in whose scope a lint can be reported (every Entity, and files): rejecting it
    there turns the suppression of a lint into an error."""
    from helpers import variants_reaching
    f = prog.fn('slicec::grammar::attributes::allow::Allow::validate_on')
    rep = [c for c in f.calls() if c.name() == 'report_invalid_attribute' and not f.blocks[c.bb].get('cleanup')]
    A = prog.adts['slicec::grammar::wrappers::Attributables']['variants']
    E = {v['n'] for v in prog.adts['slicec::grammar::wrappers::Entities']['variants']}
    if not rep:
        r.ok('allow is accepted everywhere')
        r.floor(1)
        return
    rejected = set()
    for c in rep:
        sw, ks = variants_reaching(f, 'Attributables', c.bb)
        for k in ks:
            if k == 'otherwise':
                rejected |= {A[i]['n'] for i in range(len(A)) if i not in sw['arms']}
            else:
                rejected.add(A[k]['n'])
    bad = sorted(rejected & (E | {'SliceFile'}))
    if bad:
        r.finding('allow-rejected-on-scoped-element:%s' % ','.join(bad), f.span, 'the allow attribute is rejected on %s, elements in whose scope lints are reported: silencing such a lint there now produces an error' % ', '.join(bad))
    else:
        r.ok('allow is rejected only on %s, which never own the scope of a lint' % ', '.join(sorted(rejected)))
    r.floor(1)

def r_every_lint_is_looked_up(r, prog):
    """into_updated decides the level of every lint by looking up its own element, file and the command line. It may not return before it has
    walked all diagnostics: a shortcut taken from a summary of the configuration (nothing on the command line, no file-level attribute) skips
    the attributes on definitions and members, which are consulted only inside the walk."""
    f = prog.fn('slicec::diagnostics::diagnostic::Diagnostics::into_updated')
    loops = [lp for lp in f.natural_loops() if any(c.name() == 'next' and c.bb in lp[1] and 'arg1' in vexpr(f, c.args[0]) for c in f.calls())]
    if not loops:
        raise AnchorMissing('the walk over the diagnostics in into_updated')
    head = max(loops, key=lambda lp: len(lp[1]))[0]
    rets = [b for b in f.return_blocks()]
    if must_pass(f, 0, rets, [head]):
        r.ok('into_updated returns only after walking all diagnostics (no exit before the walk)')
    else:
        open_blocks = f.reachable(0, blocked=[head])
        bad = [b for b in rets if b in open_blocks]
        import guards as _g
        r.finding('levels-not-updated-on-some-path', f.span_of(f.blocks[bad[0]]['t'].get('sp')) if bad else f.span,
                  'into_updated can return without walking the diagnostics (under %s): allow attributes of elements are never consulted on that path' % (_g.guard_set(prog, f, bad[0]) if bad else '?'))
    # the walk looks every lint up: the element lookup is inside the loop, behind nothing but the lint arm and the presence of a scope
    body = max(loops, key=lambda lp: len(lp[1]))[1]
    finds = [c for c in f.calls() if c.name() in ('find_element', 'find_element_with_scope', 'find_node') and c.bb in body and not f.blocks[c.bb].get('cleanup')]
    if finds:
        r.ok('the element a lint belongs to is looked up inside the walk (%d lookup site(s))' % len(finds))
    else:
        r.finding('element-not-looked-up', f.span, 'into_updated no longer looks up the element a lint belongs to while walking the diagnostics')
    r.floor(2)


def r_allow_repeatable(r, prog):
    """`allow` may be written several times on one element or file (each naming some lints): declaring it non-repeatable turns a second
    suppression into an *error* diagnostic - adding a suppression must never add a diagnostic."""
    fs = [f for f in prog.fns.values() if re.match(r'^<slicec::grammar::attributes::allow::Allow as slicec::grammar::attributes::AttributeKind>::is_repeatable$', f.path)]
    if len(fs) != 1:
        raise AnchorMissing('<Allow as AttributeKind>::is_repeatable')
    v = vexpr(fs[0], {'cp': {'l': 0}})
    if v == '1':
        r.ok('Allow::is_repeatable() is true')
    else:
        r.finding('allow-not-repeatable', fs[0].span, 'Allow::is_repeatable() returns %s: a second allow attribute on an element is reported as an error (AttributeIsNotRepeatable)' % v)
    r.floor(1)


def r_every_allow_is_consulted(r, prog):
    """A lint is suppressed if *any* allow attribute of its element, of an enclosing element or of the file names it: the helper that decides
    this asks every Allow among all_attributes(), not just the first one found (an inner `allow(X)` must not switch an outer `allow(Y)` off)."""
    f = prog.fns.get('slicec::diagnostics::diagnostic::Diagnostics::into_updated::is_lint_allowed_by_attributes')
    if f is None:
        cands = [g for g in prog.fns.values() if g.path.startswith('slicec::diagnostics::') and '{closure' not in g.path and [c for c in g.calls() if c.name() == 'all_attributes']]
        if len(cands) != 1:
            raise AnchorMissing('the helper that looks a lint up in all_attributes()')
        f = cands[0]
    live = [c for c in f.calls() if not f.blocks[c.bb].get('cleanup')]
    SHORT = {'find', 'find_map', 'next', 'first', 'last', 'nth', 'take', 'skip', 'position', 'rev', 'next_back', 'take_while', 'skip_while', 'step_by', 'max_by_key', 'min_by_key', 'get', 'pop'}
    short = [c for c in live if c.name() in SHORT and not (c.name() == 'next' and loop_of(f, c.bb) is not None)]
    v = vexpr(f, {'cp': {'l': 0}}, depth=30)
    decides = [g for g in closures_of(prog, f) if [c for c in g.calls() if c.name() == 'is_lint_allowed_by']]
    ok_any = bool(re.match(r'^any\((filter_map|filter|map|flatten|flat_map|into_iter|iter|copied|cloned|\(|\)|,|closure\(\w*\)|all_attributes\(arg1\))+,closure\(arg2\)\)$', v)) and 'all_attributes(arg1)' in v and len(decides) == 1
    # the same written as a loop: every element of all_attributes() passes the test, `true` is returned from inside the loop only
    lp_calls = [c for c in live if c.name() == 'is_lint_allowed_by' and loop_of(f, c.bb) is not None]
    ok_loop = bool(lp_calls) and any('all_attributes(arg1)' in vexpr(f, c.args[0]) for c in live if c.name() == 'into_iter')
    if not short and (ok_any or ok_loop):
        r.ok('every Allow among all_attributes() of the element is asked (%s)' % ('any over the whole chain' if ok_any else 'loop over the whole chain'))
    else:
        r.finding('allow-chain-cut-short', f.span, '%s decides with %s%s: only part of the allow attributes along the element, its parents and its file is consulted, so one suppression can switch another off' % (
            f.path.rsplit('::', 1)[-1], v[:160], (' (calls %s)' % sorted({c.name() for c in short})) if short else ''))
    r.floor(1)


def r_allow_counts_before_attribute_patching(r, prog):
    """into_updated always runs; the attribute patcher (which turns `[allow(..)]` from an Unparsed attribute into an Allow) only runs if nothing
    reported an error before it, and doc-comment lints are reported while parsing. So the helper that looks for allow attributes must
    recognise both forms - a patched Allow and an Unparsed attribute whose directive is "allow" - or every path to into_updated would have
    to pass the attribute patcher (it does not: phase gating). Otherwise a syntax error in one file un-silences the lints of all others."""
    from mirlib import const_str
    f = prog.fns.get('slicec::diagnostics::diagnostic::Diagnostics::into_updated::is_lint_allowed_by_attributes')
    if f is None:
        cands = [g for g in prog.fns.values() if g.path.startswith('slicec::diagnostics::') and '{closure' not in g.path and [c for c in g.calls() if c.name() == 'all_attributes']]
        if len(cands) != 1:
            raise AnchorMissing('the helper that looks a lint up in all_attributes()')
        f = cands[0]
    fam = [f] + [g for g in prog.fns.values() if g.path.startswith(f.path + '::{closure')]
    kinds = {c.targs[0].rsplit('::', 1)[-1] for g in fam for c in g.calls() if c.name() == 'downcast' and c.targs and not g.blocks[c.bb].get('cleanup')}
    names = prog.literals_of(f)      # the string literals of the helper, its closures and their promoted constants
    if 'Allow' not in kinds:
        raise AnchorMissing('downcast::<Allow> in %s' % f.path)
    if 'Unparsed' in kinds and 'allow' in names:
        r.ok('allow attributes are recognised patched (Allow) and unpatched (Unparsed with directive "allow"): suppression does not depend on the attribute patcher having run')
    else:
        r.finding('allow-ignored-before-attribute-patching', f.span, '%s only recognises patched Allow attributes (downcasts: %s); the attribute patcher is skipped once an error was reported, so with a syntax error in any file the allow attributes of all files stop silencing the lints reported while parsing (MalformedDocComment)' % (f.path.rsplit('::', 1)[-1], sorted(kinds)))
    r.floor(1)


def run(ctx):
    prog = ctx.prog
    ctx.run_rule('C13.1a', 'T1', 'Diagnostic.level written only by new and, with Allowed, inside the Lint arm of into_updated', levels.r_level_writers, prog)
    ctx.run_rule('C13.1b', 'T1', 'level Error only for Error kinds', levels.r_level_error_only_for_error_kind, prog)
    ctx.run_rule('C13.2', 'T3', 'every element-related lint records the scoped identifier of its element', r_lints_record_owner, prog)
    ctx.run_rule('C13.3', 'T6', 'declared case-insensitivity of --allow is implemented', r_cli_case_insensitive, prog)
    ctx.run_rule('C13.4', 'T1', 'suppressions are consulted only by into_updated, which only rewrites levels', r_non_interference, prog)
    ctx.run_rule('C13.9', 'T6', 'allow is repeatable: a further suppression never adds a diagnostic', r_allow_repeatable, prog)
    ctx.run_rule('C13.9b', 'T3', 'every allow attribute of the element, its parents and its file is consulted', r_every_allow_is_consulted, prog)
    from props import c15 as _c15
    ctx.run_rule('C13.10', 'T1', 'no lint is held back because a similar one was reported before (state that outlives the element)', _c15.r_no_first_seen_gating, prog)
    ctx.run_rule('C13.11', 'T3', 'an allow attribute counts whether or not the attribute patcher ran (typestate of attributes against phase gating)', r_allow_counts_before_attribute_patching, prog)
    ctx.run_rule('C13.8', 'T2', 'every lint is looked up: no return before the walk over the diagnostics', r_every_lint_is_looked_up, prog)
    ctx.run_rule('C13.6', 'T10', 'file-level allow is looked up by the full path of the lint\'s span', r_file_allow_lookup, prog)
    ctx.run_rule('C13.5', 'T5', 'contained elements inherit their parent\'s attributes', r_contained_inherit_attributes, prog)
    ctx.run_rule('C13.7', 'T6', 'allow is accepted on every element kind that can own the scope of a lint', r_allow_accepted_where_lints_are_scoped, prog)
