"""C04 - accepted programs are well-formed; every rule violation is diagnosed (structural clauses)."""
import os
import re

from mirlib import AnchorMissing, path_matches, op_place, const_int
from helpers import aggregates, enum_switches, arm, vexpr, calls_matching, edge_region
import guards
import rule_scopes
from props import c20

VERIF = os.path.abspath(os.path.join(os.path.dirname(os.path.abspath(__file__)), '..', '..', '..'))

EXPLANATION = (
    'C04 (acceptance of particular programs and its converse) needs a reference checker and is not decided. Decided on the MIR of slicec: '
    '(1) wiring: validate_attributes::<T> is instantiated for exactly the impls of AsAttributables, each from the visitor method that receives '
    'T; validate_common_doc_comments is called from the visitor method of every Commentable impl; validate_members / validate_parameters see '
    'struct fields, enumerator fields, parameters and return members; the validator overrides every Visitor method; every function of the '
    'validators module is reachable from validate_ast; (2) the redefinition scan covers every Container impl and operation parameter/return '
    'lists; (3) every Error variant that is a language rule has a producer reachable from the compilation entry points (frozen exceptions for '
    'variants reserved for downstream compilers); (4) attribute pipeline: the attribute types listed in patch_attributes! are the AttributeKind '
    'impls other than Unparsed, each with parse_from and validate_on; unknown directives with the compiler prefix reach UnknownAttribute; '
    '(5) numeric tables: is_integral(p) <=> numeric_bounds(p).is_some(), each bound equals MIN/MAX of the Rust type the primitive denotes, the '
    '62-bit constants equal slice_codec\'s, tags are checked against 0..=i32::MAX and implicit enum bounds are (0, i32::MAX); (6) '
    'rule-precondition ledger: the branch conditions dominating each rule\'s diagnostic (and each call of a rule function) equal the reviewed '
    'ledger - a rule that fires under narrower, wider or other conditions is reported.')
THOROUGH_RERUN = ['release']     # the same rules over the release build (no debug assertions): verified clean on the pinned tree
ASSUMPTIONS = ['rustc type checking and MIR construction', 'the reviewed precondition ledgers (ledgers/guards_*.json) state the intended conditions of each rule']
VV = "<slicec::validators::ValidatorVisitor<'a> as slicec::visitor::Visitor>::"


def _visitor_param_adt(f):
    ins = f.raw.get('inputs') or []
    m = re.match(r"^&(?:'\w+ )?([\w:#<> ]+)$", ins[1]) if len(ins) > 1 else None
    return re.sub(r'<.*', '', m.group(1)) if m else None


def r_wiring(r, prog):
    attributables = {i['self_adt'] for i in prog.impls_of('slicec::grammar::wrappers::AsAttributables') if i.get('self_adt')}
    commentables = {i['self_adt'] for i in prog.impls_of('slicec::grammar::traits::Commentable')}
    if len(attributables) < 12 or len(commentables) < 8:
        raise AnchorMissing('impls of AsAttributables (%d) / Commentable (%d)' % (len(attributables), len(commentables)))
    methods = [f for f in prog.fns.values() if f.path.startswith(VV)]
    seen_attr = {}
    seen_comm = {}
    for f in methods:
        adt = _visitor_param_adt(f)
        for c in f.calls():
            if c.name() == 'validate_attributes':
                t = re.sub(r'<.*', '', c.targs[0]) if c.targs else None
                seen_attr[t] = (f, vexpr(f, c.args[0]))
            if c.name() == 'validate_common_doc_comments':
                seen_comm[adt] = (f, vexpr(f, c.args[0]))
    for a in sorted(attributables):
        if a in seen_attr:
            f, ex = seen_attr[a]
            if _visitor_param_adt(f) == a and ex == 'arg2':
                r.ok('attributes of %s are validated by %s' % (a.rsplit('::', 1)[-1], f.name))
            else:
                r.finding('attribute-validation-miswired:%s' % a.rsplit('::', 1)[-1], f.span, 'validate_attributes::<%s> is called from %s with %s' % (a, f.name, ex))
        else:
            r.finding('attributes-never-validated:%s' % a.rsplit('::', 1)[-1], '-', 'no visitor method validates the attributes of %s: misplaced or repeated attributes on it are accepted' % a)
    for a in sorted(commentables):
        if a in seen_comm and seen_comm[a][1] .startswith('arg2'):
            r.ok('doc comment of %s is checked by %s' % (a.rsplit('::', 1)[-1], seen_comm[a][0].name))
        else:
            r.finding('comment-never-validated:%s' % a.rsplit('::', 1)[-1], '-', 'no visitor method runs validate_common_doc_comments on %s' % a)
    # member lists
    want = {('visit_struct', 'validate_members', 'fields(arg2)'), ('visit_enumerator', 'validate_members', 'contents(arg2)'),
            ('visit_operation', 'validate_members', 'parameters(arg2)'), ('visit_operation', 'validate_members', 'return_members(arg2)'),
            ('visit_operation', 'validate_parameters', 'parameters(arg2)'), ('visit_operation', 'validate_parameters', 'return_members(arg2)')}
    have = set()
    for f in methods:
        for c in f.calls():
            if c.name() in ('validate_members', 'validate_parameters'):
                have.add((f.name, c.name(), vexpr(f, c.args[0])))
    for w in sorted(want):
        if w in have or (w[0], w[1], w[2].replace('contents(', 'fields(')) in have:
            r.ok('%s: %s(%s)' % w)
        else:
            r.finding('member-list-not-validated:%s:%s:%s' % w, '-', '%s does not run %s on %s: tag / stream rules are not applied there' % w)
    # every function of the validators module is reachable from validate_ast
    reach = prog.reachable_fns(['slicec::validators::validate_ast'])
    dead = [f for f in prog.fns.values() if f.path.startswith('slicec::validators::') and f.kind != 'promoted' and f.path not in reach]
    for f in dead:
        r.finding('validator-never-called:%s' % f.path, f.span, '%s is not reachable from validate_ast: the rule it implements is not applied' % f.path)
    if not dead:
        r.ok('every function of the validators module is reachable from validate_ast')
    r.floor(26)


def r_redefinition_coverage(r, prog):
    conts = []
    for i in prog.impls_of('slicec::grammar::traits::Container'):
        if i['trait_args']:
            conts.append((i['self_adt'], i['trait_args'][-1]))
    if len(conts) < 4:
        raise AnchorMissing('impls of Container (found %d)' % len(conts))
    f = prog.fn("slicec::validators::identifiers::RedefinitionChecker::<'a>::check_for_redefinitions")
    calls = [(c, vexpr(f, c.args[1], depth=24)) for c in f.calls() if c.name() == 'check_contents_for_redefinitions']
    for y, x in sorted(conts):
        yn = y.rsplit('::', 1)[-1].replace('r#', '')
        hits = [c for c, ex in calls if c.targs and c.targs[-1] == x and re.search(r'(contents|fields|operations|enumerators)\(', ex) and re.search(r'as %s\.0|Some\.0\)?\)?$' % yn, ex)]
        hits = [c for c, ex in calls if c.targs and c.targs[-1] == x and (('as %s.0' % yn) in ex or (yn == 'Enumerator' and 'enumerators(' in ex))]
        if hits:
            r.ok('contents of %s (%s) are scanned for redefinitions' % (yn, x.rsplit('::', 1)[-1]))
        else:
            r.finding('container-not-scanned:%s' % yn, f.span, 'the names inside a %s (its %s elements) are never scanned for redefinitions: duplicates there are accepted' % (yn, x.rsplit('::', 1)[-1]))
    for acc in ('parameters', 'return_members'):
        if [1 for c, ex in calls if ('%s(' % acc) in ex]:
            r.ok('operation %s are scanned for redefinitions' % acc)
        else:
            r.finding('operation-list-not-scanned:%s' % acc, f.span, 'operation %s are never scanned for redefinitions' % acc)
    r.floor(6)


RESERVED_ERRORS = {'MissingRequiredAttribute': 'reserved for downstream compilers (language mappings); slicec itself has no required attribute'}


def r_every_rule_has_a_producer(r, prog):
    E = 'slicec::diagnostics::errors::Error'
    variants = [v['n'] for v in prog.adts[E]['variants']]
    roots = ['slicec::compile_from_options', 'slicec::compile_from_strings', 'slicec_bin::main']
    reach = prog.reachable_fns(roots)
    # parser actions are reached through the generated parser's callbacks
    import panics
    reach |= prog.reachable_fns([m for m in panics.roots_foreign_impls(prog, ('slicec',)) if m.startswith('<slicec::parsers::')])
    prod = {}
    for a in aggregates(prog, E, crates=('slicec', 'slicec_bin')):
        if a['fn'].path in reach:
            prod.setdefault(a['rv']['v'], []).append(a['fn'].path)
    for v in variants:
        if v in prod:
            r.ok('Error::%s is produced' % v, prod[v][0])
        elif v in RESERVED_ERRORS:
            r.ok('Error::%s has no producer (frozen exception)' % v, RESERVED_ERRORS[v])
        else:
            r.finding('rule-without-producer:%s' % v, '-', 'no reachable code constructs Error::%s any more: the language rule it belongs to is no longer diagnosed' % v)
    r.floor(36)


def r_attribute_pipeline(r, prog):
    AK = 'slicec::grammar::attributes::AttributeKind'
    kinds = {i['self_adt'] for i in prog.impls_of(AK)}
    kinds_np = {k for k in kinds if not k.endswith('::Unparsed')}
    if len(kinds_np) < 5:
        raise AnchorMissing('impls of AttributeKind (found %d)' % len(kinds))
    f = prog.fn('slicec::patchers::patch_ast::_patch_attributes_impl')
    parsed = set()
    for c in f.calls():
        if c.name() == 'parse_from':
            m = re.match(r'^(slicec::grammar::attributes::\w+::\w+)::parse_from$', c.resolved or '')
            if m:
                parsed.add(m.group(1))
    for k in sorted(kinds_np):
        if k in parsed:
            r.ok('attribute %s is parsed by the attribute patcher' % k.rsplit('::', 1)[-1])
        else:
            r.finding('attribute-never-parsed:%s' % k.rsplit('::', 1)[-1], f.span, 'attribute type %s implements AttributeKind but is not listed in patch_attributes!: it stays Unparsed and is never validated' % k)
        vo = [g for g in prog.fns.values() if g.path == k + '::validate_on']
        if vo:
            r.ok('%s has validate_on' % k.rsplit('::', 1)[-1])
        else:
            r.finding('attribute-without-validate-on:%s' % k.rsplit('::', 1)[-1], '-', '%s has no validate_on' % k)
    for k in sorted(parsed - kinds_np):
        r.finding('parsed-attribute-without-kind:%s' % k, f.span, '%s is parsed but does not implement AttributeKind' % k)
    # each parse result replaces the unparsed kind; directive compared with <T>::directive()
    un = [a for a in aggregates(prog, 'slicec::diagnostics::errors::Error', 'UnknownAttribute') if a['fn'] is f]
    if un:
        r.ok('unknown directives with the compiler prefix produce Error::UnknownAttribute')
    else:
        r.finding('unknown-attribute-accepted', f.span, 'the attribute patcher no longer reports unknown directives')
    # validate_on is invoked for every attribute of every attributable
    va = prog.fn('slicec::validators::attribute::validate_attributes')
    if [c for c in va.calls() if c.name() == 'validate_on'] and [c for c in va.calls() if c.name() == 'validate_repeated_attributes']:
        r.ok('validate_attributes runs validate_on for each attribute and the repetition check')
    else:
        r.finding('attribute-validation-incomplete', va.span, 'validate_attributes does not run both validate_on and validate_repeated_attributes')
    r.floor(12)


RUST_BOUNDS = {'Int8': (-2**7, 2**7 - 1), 'UInt8': (0, 2**8 - 1), 'Int16': (-2**15, 2**15 - 1), 'UInt16': (0, 2**16 - 1), 'Int32': (-2**31, 2**31 - 1), 'UInt32': (0, 2**32 - 1),
               'VarInt32': (-2**31, 2**31 - 1), 'VarUInt32': (0, 2**32 - 1), 'Int64': (-2**63, 2**63 - 1), 'UInt64': (0, 2**64 - 1),
               'VarInt62': ('slice_codec::VARINT62_MIN', 'slice_codec::VARINT62_MAX'), 'VarUInt62': (0, 'slice_codec::VARUINT62_MAX')}


def r_numeric_tables(r, prog):
    P = 'slicec::grammar::elements::primitive::Primitive'
    variants = [v['n'] for v in prog.adts[P]['variants']]
    nb = prog.fn(P + '::numeric_bounds')
    ii = prog.fn(P + '::is_integral')
    sw = enum_switches(nb, P)
    if not sw:
        raise AnchorMissing('match on Primitive in numeric_bounds')
    sw = sw[0]
    bounds = {}
    for vi, v in enumerate(variants):
        tgt = arm(sw, vi)
        if vi not in sw['arms']:
            bounds[v] = None
            continue
        val = None
        for s in nb.blocks[tgt]['s']:
            if 'lhs' in s and s['rv']['k'] == 'agg' and s['rv'].get('ak') == 'tuple':
                val = tuple(const_int(o) if const_int(o) is not None else vexpr(nb, o) for o in s['rv']['ops'])
        # Some(tuple) may be built over two blocks
        if val is None:
            for b in nb.reachable(tgt, blocked=[x for k, x in sw['arms'].items() if x != tgt]):
                for s in nb.blocks[b]['s']:
                    if 'lhs' in s and s['rv']['k'] == 'agg' and s['rv'].get('ak') == 'tuple' and val is None:
                        val = tuple(const_int(o) if const_int(o) is not None else vexpr(nb, o) for o in s['rv']['ops'])
        bounds[v] = val
    # is_integral: variant set
    integral = set()
    for s2 in enum_switches(ii, P):
        for vi, v in enumerate(variants):
            tgt = arm(s2, vi)
            vals = [const_int(s['rv'].get('a')) for s in ii.blocks[tgt]['s'] if 'lhs' in s and s['rv']['k'] == 'use']
            if 1 in vals:
                integral.add(v)
    for v in variants:
        has = bounds.get(v) is not None
        if (v in integral) == has:
            pass
        else:
            r.finding('integral-vs-bounds:%s' % v, nb.span, 'Primitive::%s: is_integral is %s but numeric_bounds is %s' % (v, v in integral, 'Some' if has else 'None'))
    if integral == set(RUST_BOUNDS):
        r.ok('is_integral is true for exactly the 12 integer primitives, and exactly those have numeric bounds')
    else:
        r.finding('integral-set', ii.span, 'is_integral holds for %s' % sorted(integral))
    consts = {k: int(c['val']) for k, c in prog.consts.items() if c.get('val') is not None}
    for v, (lo, hi) in RUST_BOUNDS.items():
        lo = consts[lo] if isinstance(lo, str) else lo
        hi = consts[hi] if isinstance(hi, str) else hi
        got = bounds.get(v)
        if got is not None:
            got = tuple(consts.get(x, consts.get('slicec::grammar::elements::primitive::' + str(x).split(':')[-1], x)) if isinstance(x, str) else x for x in got)
            got = tuple(_resolve_const(prog, x) for x in got)
        if got == (lo, hi):
            r.ok('bounds of %s = (%d, %d)' % (v, lo, hi))
        else:
            r.finding('numeric-bounds:%s' % v, nb.span, 'numeric_bounds(%s) is %s, expected (%d, %d) - the range of the type the primitive denotes%s' % (
                v, got, lo, hi, ' (slice_codec constants)' if '62' in v else ''))
    # tag range and implicit enum bounds
    pt = prog.fn('slicec::parsers::slice::grammar::parse_tag_value')
    rng = None
    for g in prog.promoted_of(pt) + [pt]:
        for c in g.calls():
            if c.name() == 'new' and 'RangeInclusive' in (c.resolved or ''):
                rng = tuple(_resolve_const(prog, vexpr(g, a)) for a in c.args[:2])
        for a in aggregates(prog, 'core::ops::range::RangeInclusive'):
            if a['fn'] is g:
                rng = tuple(const_int(o) for o in a['rv']['ops'][:2])
    if rng is None:
        # second idiom: two comparisons of the value with the bounds (v < lo || v > hi, or !(v >= lo && v <= hi))
        lo = hi = None
        for bb, j, lhs, rv, st in pt.assigns():
            if rv['k'] == 'bin' and rv['op'] in ('Lt', 'Le', 'Gt', 'Ge') and not pt.blocks[bb].get('cleanup'):
                a, b = vexpr(pt, rv['a']), vexpr(pt, rv['b'])
                op = rv['op']
                if b == 'arg2.value':       # constant on the left: turn the comparison round
                    a, b, op = b, a, {'Lt': 'Gt', 'Le': 'Ge', 'Gt': 'Lt', 'Ge': 'Le'}[op]
                if a != 'arg2.value':
                    continue
                k = _resolve_const(prog, b)
                if not isinstance(k, int):
                    continue
                if op == 'Lt':
                    lo = k              # v < lo  : out of bounds below lo
                elif op == 'Ge':
                    lo = k              # v >= lo : in bounds from lo
                elif op == 'Gt':
                    hi = k
                elif op == 'Le':
                    hi = k
        if lo is not None and hi is not None:
            rng = (lo, hi)
    if rng == (0, 2**31 - 1):
        r.ok('tags are checked against 0..=2147483647')
    else:
        r.finding('tag-range', pt.span, 'parse_tag_value checks tags against %s, expected (0, 2147483647)' % (rng,))
    bt = prog.fn('slicec::validators::enums::backing_type_bounds')
    imp = None
    for c in bt.calls():
        if c.name() == 'check_bounds':
            ex = vexpr(bt, c.args[1])
            m = re.match(r'^tuple\((-?\d+),(-?\d+|const<i128>[:\w]*)\)$', ex)
            if m:
                hi = m.group(2)
                hi = int(hi) if re.match(r'^-?\d+$', hi) else _resolve_const(prog, hi)
                imp = (int(m.group(1)), hi)
    if imp == (0, 2**31 - 1):
        r.ok('enumerators of enums without underlying type are checked against (0, 2147483647)')
    else:
        r.finding('implicit-enum-bounds', bt.span, 'enums without underlying type are checked against %s, expected (0, 2147483647)' % (imp,))
    r.floor(15)


def _resolve_const(prog, x):
    if isinstance(x, int):
        return x
    if isinstance(x, str) and re.match(r'^-?\d+$', x):
        return int(x)
    m = re.search(r'const<i128>:?([\w:]*)', str(x))
    if m and m.group(1):
        c = prog.consts.get(m.group(1))
        if c and c.get('val') is not None:
            return int(c['val'])
    return x


def r_rule_preconditions(r, prog):
    guards.evaluate(r, prog, rule_scopes.guards_validators, 'guards_validators.json', 150)


def r_parser_rule_preconditions(r, prog):
    guards.evaluate(r, prog, rule_scopes.guards_parser_rules, 'guards_parser_rules.json', 35)


def validator_inputs(prog):
    """visit method -> sorted list of 'callee(arg, arg, ...)' for the calls of functions of slicec::validators made by the validating visitor"""
    out = {}
    for f in prog.fns.values():
        m = re.match(r"^<slicec::validators::ValidatorVisitor<'a> as slicec::visitor::Visitor>::(visit_\w+)$", f.path)
        if not m:
            continue
        calls = []
        for c in f.calls():
            res = c.resolved or c.callee or ''
            if f.blocks[c.bb].get('cleanup') or not res.startswith('slicec::validators::') or '{closure' in res:
                continue
            calls.append('%s(%s)' % (re.sub(r'::<.*?>', '', res).rsplit('::', 1)[-1], ', '.join(vexpr(f, a, depth=6) for a in c.args)))
        out[m.group(1)] = sorted(calls)
    return out


def r_validator_inputs(r, prog):
    """Each validator decides about what it is handed. Handing it less (the direct bases instead of all bases, the fields instead of the
    members, one list where two are compared) makes the rule apply to fewer cases while every condition inside the validator is unchanged."""
    import json as _json
    led = _json.load(open(os.path.join(VERIF, 'ledgers', 'validator_inputs.json')))['calls']
    now = validator_inputs(prog)
    if len(now) < 10:
        raise AnchorMissing('visit methods of the validating visitor (found %d)' % len(now))
    for meth in sorted(set(led) | set(now)):
        a, b = led.get(meth, []), now.get(meth, [])
        if a == b:
            r.ok('%s: %d validator call(s) with the recorded inputs' % (meth, len(b)))
            continue
        gone = [x for x in a if x not in b]
        new = [x for x in b if x not in a]
        f = prog.fns.get("<slicec::validators::ValidatorVisitor<'a> as slicec::visitor::Visitor>::" + meth)
        r.finding('validator-input-changed:%s' % meth, f.span if f else '-',
                  '%s no longer calls %s and now calls %s: a validator that is handed something else applies its rule to other elements than before' % (meth, gone, new))
    r.floor(10)


import decisions


def run(ctx):
    prog = ctx.prog
    ctx.run_rule('C04.1a', 'T5', 'every validator is wired to every element kind it applies to', r_wiring, prog)
    ctx.run_rule('C04.1b', 'T5', 'the validator overrides every Visitor method', c20.r_validator_overrides_all, prog)
    ctx.run_rule('C04.1e', 'T5', 'every type reference that is written - element, key, value, success and failure types included - is presented to the validators (its attributes and its own rules are checked there)', c20.r_typeref, prog)
    ctx.run_rule('C04.1c', 'T5', 'the traversal the validators ride on covers every child list', c20.r_child_coverage, prog)
    ctx.run_rule('C04.2', 'T5', 'redefinition scan covers every container', r_redefinition_coverage, prog)
    ctx.run_rule('C04.3', 'T5', 'every rule has a producer', r_every_rule_has_a_producer, prog)
    ctx.run_rule('C04.4', 'T5', 'attribute pipeline: parsed set = AttributeKind impls; unknown directives reported', r_attribute_pipeline, prog)
    ctx.run_rule('C04.5', 'T6', 'numeric tables: integral set, bounds, tag range, implicit enum bounds', r_numeric_tables, prog)
    ctx.run_rule('C04.1d', 'T2', 'every file of the compilation is handed to the validators', decisions.r_every_file_validated, prog)
    ctx.run_rule('C04.7', 'T13', 'what the validating visitor hands to each validator (input ledger)', r_validator_inputs, prog)
    ctx.run_rule('C04.6a', 'T13', 'rule-precondition ledger of the validators and attribute types', r_rule_preconditions, prog)
    ctx.run_rule('C04.6b', 'T13', 'rule-precondition ledger of the parser-level rules (module rule, tags, literals, return tuples)', r_parser_rule_preconditions, prog)
