"""C03 - type references bind to the entity the scoping rules designate (structural clauses)."""
import re

from mirlib import AnchorMissing, path_matches, op_place, is_bare
from helpers import (aggregates, closure_of_arg, arm, base_local, enum_switches, edge_region, field_accesses, loop_of, must_pass, vexpr, branches_on_call, try_edges)
import guards
import rule_scopes

EXPLANATION = (
    'C03\'s outcomes for particular programs (shadowing, search order results) are value-level and not decided. Decided on the MIR of slicec: '
    '(1) every reference site is patched: the fields of type TypeRef in the grammar elements = the fields compute_patches resolves = the fields '
    'apply_patches patches; every PatchKind variant computed is applied, to the node kind it was computed from; (2) lookup scope: '
    'find_node_with_scope is given the identifier of the reference and module_scope() of that same reference - in the alias chain, of the alias '
    'currently being followed; (3) the lookup itself: a "::" name returns the global lookup directly; otherwise every iteration looks up '
    'join(scopes)::name, returns on a hit and pops one segment; the global lookup comes last; (4) single writer of the name table: '
    'lookup_table is written only by Ast::create and add_named_element; add_element is called directly only for types that are not '
    'NamedSymbol; the table and add_named_element are not public; (5) kind checks: the Node variants accepted as a type / as an entity are '
    'exactly those whose payload implements Type / Entity; (6) alias flattening: every iteration of the chain extends the accumulated '
    'attributes with those of the current alias\'s type and every successful exit hands them to try_into_patch; TypeRef::patch appends all of '
    'them; errors (DoesNotExist / TypeMismatch) are produced on the Err edge of the lookup (rule-precondition ledger of the patcher).')
THOROUGH_RERUN = ['release']     # the same rules over the release build (no debug assertions): verified clean on the pinned tree
WITNESSES = ['AstTablesArePrivate']     # thorough tier: engines/witness (T12)
ASSUMPTIONS = ['rustc type checking and MIR construction', 'HashMap::get/insert behave as documented']
TRP = "slicec::patchers::type_ref_patcher::TypeRefPatcher::<'_>::"
NODE = 'slicec::ast::node::Node'
EXC_FIELDS = {}


def typeref_fields(prog):
    out = set()
    for p, a in prog.adts.items():
        if not p.startswith('slicec::grammar::elements::') or a['kind'] != 'struct':
            continue
        for f in a['variants'][0]['fields']:
            if 'slicec::grammar::elements::type_ref::TypeRef' in f['ty'] and not p.endswith('type_ref::TypeRef'):
                out.add((p.rsplit('::', 1)[-1].replace('r#', ''), f['n']))
    return out


def r_every_reference_is_patched(r, prog):
    want = typeref_fields(prog)
    if len(want) < 10:
        raise AnchorMissing('TypeRef fields in grammar elements (found %s)' % sorted(want))
    cp = prog.fn(TRP + 'compute_patches')
    ap = prog.fn(TRP + 'apply_patches')
    variants = prog.adts[NODE]['variants']
    # compute side: per Node arm, fields handed to resolve_definition and the PatchKind built
    sw = enum_switches(cp, NODE)
    if not sw:
        raise AnchorMissing('match on Node in compute_patches')
    sw = sw[0]
    lp = loop_of(cp, sw['bb'])
    head = lp[0] if lp else None
    computed = {}
    kinds_c = {}
    fns = [cp] + prog.closures_of(cp)
    for vi, v in enumerate(variants):
        if vi not in sw['arms']:
            continue
        tgt = arm(sw, vi)
        others = [x for k, x in sw['arms'].items() if x != tgt] + [sw['otherwise']]
        region = cp.reachable(tgt, blocked=[head] + others)
        flds = set()
        pk = set()
        for c in cp.calls():
            if c.bb in region:
                if c.name() == 'resolve_definition':
                    m = re.search(r'\.(\w+)$', vexpr(cp, c.args[1], depth=24))
                    if m:
                        flds.add(m.group(1))
                for a in c.args:
                    if a is not None and 'fn' in a and 'PatchKind::' in a['fn']:
                        pk.add(a['fn'].rsplit('::', 1)[-1])
                # closures used in this arm (bases / underlying)
                for a in c.args:
                    ex = vexpr(cp, a)
                    mm = re.search(r'\.(bases|underlying)\b', ex)
                    if mm and c.name() in ('iter', 'as_ref', 'map', 'and_then'):
                        for g in prog.closures_of(cp):
                            if [x for x in g.calls() if x.name() == 'resolve_definition'] and g.path.split('::')[-1] in vexpr(cp, c.args[-1]) + ''.join(vexpr(cp, z) for z in c.args):
                                flds.add(mm.group(1))
        for a in aggregates(prog, 'slicec::patchers::type_ref_patcher::PatchKind'):
            if a['fn'] is cp and a['bb'] in region:
                pk.add(a['rv']['v'])
        # fall back: fields mentioned in the region with closures resolving
        if not flds:
            for bb, j, s in cp.stmts():
                if bb in region and 'lhs' in s:
                    mm = re.search(r"'n': '(bases|underlying|data_type)'", str(s['rv']))
                    if mm:
                        flds.add(mm.group(1))
        if flds:
            computed[v['n']] = flds
            kinds_c[v['n']] = pk
    got_c = {(n, f) for n, fs in computed.items() for f in fs}
    # apply side
    applied = set()
    kinds_a = {}
    tis = [c for c in ap.calls() if c.name() == 'try_into']
    for c in ap.calls():
        if c.name() != 'patch' or not path_matches(c.resolved, 'TypeRef::<T>::patch'):
            continue
        recv = vexpr(ap, c.args[0], depth=30)
        m = re.search(r'\.(\w+)\)?(?:,.*)?$', recv.split(',')[0]) or re.search(r'\.(\w+)\)*$', recv)
        fld = re.search(r'\)\.(\w+)', recv)
        fld = fld.group(1) if fld else None
        dom = [t for t in tis if ap.dominates(t.bb, c.bb)]
        dom.sort(key=lambda t: len(ap.dominators().get(t.bb, ())))
        node = None
        if dom:
            mt = re.search(r'OwnedPtr<slicec::grammar::elements::[\w:#]+::(\w+)>', ' '.join(dom[-1].targs))
            node = mt.group(1) if mt else None
        pk_names = {v['n'] for v in prog.adts['slicec::patchers::type_ref_patcher::PatchKind']['variants']}
        pkv = [x for x in re.findall(r' as (\w+)\.\d', vexpr(ap, c.args[1], depth=30)) if x in pk_names]
        if node and fld:
            applied.add((node, fld))
            kinds_a.setdefault(node, set()).add(pkv[0] if pkv else '?')
    for nf in sorted(want):
        c_ok = nf in got_c
        a_ok = nf in applied
        if c_ok and a_ok:
            r.ok('%s.%s is resolved by compute_patches and patched by apply_patches' % nf)
        else:
            r.finding('reference-not-patched:%s.%s' % nf, cp.span, '%s.%s holds a type reference but is %s: after an error-free compilation it would stay unbound (or bound to nothing)' % (
                nf[0], nf[1], ' and '.join(x for x in (None if c_ok else 'not resolved by compute_patches', None if a_ok else 'not patched by apply_patches') if x)))
    for nf in sorted((got_c | applied) - want):
        r.finding('patched-field-unknown:%s.%s' % nf, cp.span, '%s.%s is patched but is not a TypeRef field of the grammar elements' % nf)
    for n in sorted(kinds_c):
        if kinds_c[n] == kinds_a.get(n, set()) and len(kinds_c[n]) == 1:
            r.ok('Node::%s: computed as PatchKind::%s and applied from the same variant' % (n, next(iter(kinds_c[n]))))
        else:
            r.finding('compute-apply-kind-mismatch:%s' % n, ap.span, 'Node::%s is computed as %s but applied from %s' % (n, sorted(kinds_c[n]), sorted(kinds_a.get(n, set()))))
    # patches and nodes are paired by position: one patch pushed per node on every path, zip in apply
    push = [c for c in cp.calls() if c.name() == 'push' and 'type_ref_patches' in vexpr(cp, c.args[0])]
    if len(push) == 1 and lp and must_pass(cp, sw['bb'], [head], [push[0].bb], within=lp[1]):
        r.ok('exactly one patch is pushed per AST node (position = node index)')
    else:
        r.finding('patch-per-node', cp.span, 'compute_patches does not push exactly one patch per AST node on every path: patches and nodes get out of step')
    z = [c for c in ap.calls() if c.name() == 'zip']
    if z and 'type_ref_patches' in vexpr(ap, z[0].args[0]) and 'as_mut_slice(arg2)' in vexpr(ap, z[0].args[1]):
        r.ok('apply_patches walks patches and nodes in lock step (zip)')
    else:
        r.finding('patch-node-pairing', ap.span, 'apply_patches does not zip the patches with the AST nodes')
    # ... and nothing reorders or thins out a list of patches between the two passes: patch j was computed for the j-th node (and, inside a
    # BaseInterfaces patch, for the j-th base as written), and that position is all that ties a resolved definition to its reference
    REORDER = re.compile(r'^(sort(_unstable)?(_by(_key|_cached_key)?)?|reverse|rev|swap(_remove)?|rotate_(left|right)|retain(_mut)?|dedup(_by(_key)?)?|remove|truncate|drain|pop|skip|step_by|split_off|insert)$')
    fns = [f for f in prog.fns.values() if f.path == ap.path or f.path.startswith(ap.path + '::{closure') or f.path == cp.path or f.path.startswith(cp.path + '::{closure')]
    bad = [(f, c) for f in fns for c in f.calls() if REORDER.match(c.name()) and not f.blocks[c.bb].get('cleanup')]
    if bad:
        for f, c in bad:
            r.finding('patch-list-reordered:%s' % c.name(), c.span, '%s calls %s on %s: patches are matched to the references they were computed for by position only, a reordered or shortened list binds references to the wrong definitions' % (
                f.path.rsplit('::', 1)[-1], c.name(), vexpr(f, c.args[0])[:80] if c.args else '?'))
    else:
        r.ok('no list of patches is reordered or shortened between compute_patches and apply_patches (%d functions looked at)' % len(fns))
    r.floor(19)


def r_lookup_scope(r, prog):
    rd = prog.fn(TRP + 'resolve_definition')
    ra = prog.fn(TRP + 'resolve_type_alias')
    n = 0
    for f in (rd, ra):
        for c in f.calls():
            if c.name() != 'find_node_with_scope':
                continue
            n += 1
            idv, sc = vexpr(f, c.args[1], depth=24), vexpr(f, c.args[2], depth=24)
            m = re.match(r'^module_scope\((.*)\)$', sc)
            if not m:
                r.finding('lookup-scope-not-module-scope:%s' % f.name, c.span, 'the type lookup in %s uses scope %s (expected module_scope() of the reference)' % (f.name, sc[:70]))
                continue
            owner = m.group(1)
            norm = lambda e: re.sub(r'\s+', '', e)
            msc = [x for x in f.calls() if x.name() == 'module_scope' and f.dominates(x.bb, c.bb)]
            same_root = bool(msc) and base_local(f, msc[-1].args[0]) is not None and base_local(f, msc[-1].args[0]) == base_local(f, c.args[1])
            tail_ok = re.search(r'\.definition as Unpatched\.0\.value$|as Unpatched\.0\.value$', idv) is not None
            if (norm(owner) in norm(idv) or norm(idv).startswith(norm(owner))) or (same_root and tail_ok):
                r.ok('%s: identifier and module scope come from the same reference' % f.name, '%s / %s' % (idv[:50], sc[:50]))
            else:
                r.finding('lookup-scope-of-other-reference:%s' % f.name, c.span,
                          'in %s the identifier looked up is %s but the scope is %s: the name is searched from the module of a different reference (e.g. the first alias of a chain)' % (f.name, idv[:70], sc[:70]))
    if n < 2:
        raise AnchorMissing('two find_node_with_scope calls in the type patcher (found %d)' % n)
    # in the alias loop the scope must depend on the loop variable (the current alias)
    lp = ra.natural_loops()
    if lp:
        head, body = max(lp, key=lambda x: len(x[1]))
        ms = [c for c in ra.calls() if c.name() == 'module_scope']
        if ms and all(c.bb in body for c in ms):
            r.ok('the alias chain computes the lookup scope inside the loop, from the alias being followed')
        else:
            r.finding('alias-scope-hoisted', ra.span, 'resolve_type_alias computes the lookup scope outside the chain loop: every link would be searched from the first alias\'s module')
    r.floor(3)


def r_lookup_algorithm(r, prog):
    f = prog.fn('slicec::ast::Ast::find_node_with_scope')
    sp = [c for c in f.calls() if c.name() == 'strip_prefix']
    fn_ = [c for c in f.calls() if c.name() == 'find_node']
    loops = f.natural_loops()
    if not (sp and fn_ and loops):
        raise AnchorMissing('strip_prefix / find_node calls / scope loop in find_node_with_scope')
    head, body = loops[0]
    g = [c for c in fn_ if 'strip_prefix(' in vexpr(f, c.args[1])]
    plain = [c for c in fn_ if vexpr(f, c.args[1]) == 'arg2']
    sws = [s for s in enum_switches(f, 'core::option::Option') if 'strip_prefix(' in vexpr(f, {'cp': s['place']})]
    if g and sws:
        some = arm(sws[0], 1)
        reach = f.reachable(some, blocked=[sws[0]['bb']])
        if head not in reach and g[0].bb in reach and vexpr(f, {'cp': {'l': 0}}) and must_pass(f, some, f.return_blocks(), [g[0].bb]):
            # the result of the global lookup is what is returned on that edge
            r.ok('a name starting with "::" returns the global lookup directly (never the relative search)')
        else:
            r.finding('global-name-falls-through', g[0].span, 'after a "::" name the relative scope search is still reachable: a globally qualified name could bind to a relative match')
    else:
        r.finding('global-prefix-handling', f.span, 'find_node_with_scope does not look up "::" names through find_node(stripped name)')
    get = [c for c in f.calls() if c.name() == 'get' and c.bb in body]
    pop = [c for c in f.calls() if c.name() == 'pop' and c.bb in body]
    if get and pop:
        cand = vexpr(f, get[0].args[1])
        if cand == "add(add(join(collect(split(arg3,'::')),'::'),'::'),arg2)" or re.match(r"^add\(add\(join\(.*split\(arg3,'::'\).*\),'::'\),'::'\),arg2\)$", cand):
            r.ok('each iteration looks up <remaining scopes>::<identifier>')
        else:
            r.finding('candidate-name', get[0].span, 'the candidate looked up is %s' % cand[:80])
        sw2 = [s for s in enum_switches(f, 'core::option::Option') if 'get(' in vexpr(f, {'cp': s['place']})]
        hit_returns = sw2 and head not in f.reachable(arm(sw2[0], 1), blocked=[sw2[0]['bb']])
        miss_pops = sw2 and must_pass(f, arm(sw2[0], 0), [head], [pop[0].bb], within=body)
        if hit_returns and miss_pops:
            r.ok('a hit returns that node; a miss drops the innermost scope segment and retries (innermost first)')
        else:
            r.finding('scope-walk', f.span, 'the scope walk does not return on a hit and pop exactly on a miss')
    else:
        r.finding('scope-walk-missing', f.span, 'find_node_with_scope has no get/pop scope walk')
    # no other way to a node: every table lookup of this function is one of the three above
    allget = [c for c in f.calls() if c.name() in ('get', 'get_key_value', 'contains_key', 'index', 'entry', 'find_node', 'find_element') and not f.blocks[c.bb].get('cleanup')
              and ('lookup_table' in vexpr(f, c.args[0]) or c.name() in ('find_node', 'find_element'))]
    extra = [c for c in allget if not ((c.name() == 'get' and c.bb in body) or c in g or c in plain)]
    if extra:
        for c in extra:
            r.finding('lookup-outside-scope-walk', c.span, 'find_node_with_scope looks a name up with %s(%s) outside the scope walk: such a shortcut can return a node that the innermost-scope-first search would not have chosen' % (
                c.name(), ', '.join(vexpr(f, a)[:40] for a in c.args[1:])))
    else:
        r.ok('the only table lookups are the "::" lookup, the scope walk and the final global lookup (%d sites)' % len(allget))
    if plain and plain[0].bb not in body and f.dominates(head, plain[0].bb):
        r.ok('the global scope is searched last, after all enclosing scopes')
    else:
        r.finding('global-scope-not-last', f.span, 'the global lookup is not the last step of find_node_with_scope')
    r.floor(5)


def variant_int_table(prog, fn, adt_pat):
    """{variant name: integer constant returned for it} for a function that is one match on an `adt_pat` value with constant arms; None
    when some arm does anything else"""
    from mirlib import const_int
    sws = enum_switches(fn, adt_pat)
    if len(sws) != 1 or sws[0]['bb'] != 0:
        return None
    sw = sws[0]
    out = {}
    for vi, v in enumerate(prog.adts[sw['adt']]['variants']):
        b = fn.blocks[arm(sw, vi)]
        vals = [const_int(s['rv']['a']) for s in b['s'] if 'lhs' in s and s['lhs']['l'] == 0 and is_bare(s['lhs']) and s['rv']['k'] == 'use']
        nxt = b['t']
        if len(vals) != 1 or vals[0] is None or nxt['k'] not in ('goto', 'return') or [c for c in fn.calls() if c.bb == arm(sw, vi)]:
            return None
        if nxt['k'] == 'goto' and (fn.blocks[nxt['t']]['s'] or fn.blocks[nxt['t']]['t']['k'] != 'return'):
            return None
        out[v['n']] = vals[0]
    return out


def registration_policy(prog):
    """How Ast::add_named_element decides between the element it adds and the element already registered under the same scoped name.
    Returns dict(keeps=f(kind of the registered element, kind of the new element) -> bool, form=str), or None when the function does not
    have one of the recognised shapes: the name registered is parser_scoped_identifier() of the element, the index is elements.len(), the
    element itself is pushed onto `elements` next (nothing else in between), and the registration is skipped only on the true edge of
    `lookup_table.get(<that name>).is_some_and(<test of the entry found>)` (or of the same test written as a match)."""
    import guards as _g
    from mirlib import const_int
    A = 'slicec::ast::Ast'
    NODE = 'slicec::ast::node::Node'
    ane = prog.fn(A + '::add_named_element')
    live = lambda c: not ane.blocks[c.bb].get('cleanup')
    ins = [c for c in ane.calls() if c.name() == 'insert' and live(c)]
    if len(ins) != 1 or 'parser_scoped_identifier(' not in vexpr(ane, ins[0].args[1]) or vexpr(ane, ins[0].args[2]) != 'len(arg1.elements)' or vexpr(ane, ins[0].args[0]) != 'arg1.lookup_table':
        return None
    key = vexpr(ane, ins[0].args[1])
    if key != 'parser_scoped_identifier(borrow(arg2))':
        return None
    # the element is what is pushed, on every path, and nothing is pushed before the registration
    adds = [c for c in ane.calls() if live(c) and ((c.name() == 'add_element' and vexpr(ane, c.args[0]) == 'arg1' and vexpr(ane, c.args[1]) == 'arg2')
                                                  or (c.name() == 'push' and vexpr(ane, c.args[0]) == 'arg1.elements' and vexpr(ane, c.args[1]) == 'into(arg2)'))]
    others = [c for c in ane.calls() if live(c) and c not in adds and c.name() in ('push', 'add_element', 'insert', 'remove', 'swap_remove', 'truncate', 'clear', 'pop', 'extend')
              and c is not ins[0]]
    if len(adds) != 1 or others or not must_pass(ane, 0, ane.return_blocks(), [adds[0].bb]):
        return None
    if ins[0].bb in ane.reachable(adds[0].bb):
        return None
    brs = branches_on_call(ane, lambda c: c.name() == 'is_some_and' and vexpr(ane, c.args[0]) == 'get(arg1.lookup_table,%s)' % key)
    if not brs and branches_on_call(ane, lambda c: c.name() == 'is_some_and' and 'get(arg1.lookup_table,' in vexpr(ane, c.args[0])):
        return None
    if not brs:
        # the test written without a closure (a match on the looked-up entry): the blocks from which the registration can no longer be
        # reached are entered only on edges that require the entry found under this very name to be a primitive
        reach_ins = {b for b in range(len(ane.blocks)) if ins[0].bb in ane.reachable(b)}
        skip_entries = [b for b in ane.reachable(0) if b not in reach_ins and not ane.blocks[b].get('cleanup') and not ane.dominates(ins[0].bb, b) and ane.blocks[b]['t']['k'] != 'unreachable'
                        and any(q in reach_ins for q in ane.preds().get(b, []))]
        if skip_entries and all(any(re.match(r"^index\(arg1\.elements,get\(arg1\.lookup_table,parser_scoped_identifier\(borrow\(arg2\)\)\) as Some\.0\) is Primitive$", g)
                                    for g in _g.guard_set(prog, ane, b)) for b in skip_entries):
            return {'keeps': lambda e, n: e == 'Primitive', 'form': 'only a primitive type keeps its entry'}
        return None
    if len(brs) != 1 or not must_pass(ane, brs[0]['false'], ane.return_blocks(), [ins[0].bb]) or not ane.dominates(brs[0]['bb'], ins[0].bb):
        return None
    cl = closure_of_arg(prog, ane, brs[0]['call'].args[1])
    if cl is None:
        return None
    cap = vexpr(ane, brs[0]['call'].args[1])
    ret = vexpr(cl, {'cp': {'l': 0}})
    if cap == 'closure(arg1.elements)':
        ones = [bb for bb, j, lhs, rv, st in cl.assigns() if lhs['l'] == 0 and is_bare(lhs) and rv['k'] == 'use' and const_int(rv['a']) == 1]
        if ones and all(any(re.search(r'^index\(arg1\.0,arg2\) is Primitive$', g) for g in _g.guard_set(prog, cl, bb)) for bb in ones):
            return {'keeps': lambda e, n: e == 'Primitive', 'form': 'only a primitive type keeps its entry'}
        return None
    if cap == 'closure(arg1.elements,into(arg2))':
        m = re.match(r'^(Gt|Ge|Lt|Le)\((\w+)\(index\(arg1\.0,arg2\)\),(\w+)\(arg1\.1\)\)$', ret)
        if not m or m.group(2) != m.group(3) or [c for c in cl.calls() if c.name() not in ('index', m.group(2))]:
            return None
        rank_calls = [c for c in cl.calls() if c.name() == m.group(2)]
        rf = prog.fns.get(rank_calls[0].resolved) if rank_calls else None
        tab = variant_int_table(prog, rf, NODE) if rf is not None else None
        if tab is None:
            return None
        import operator
        cmp = {'Gt': operator.gt, 'Ge': operator.ge, 'Lt': operator.lt, 'Le': operator.le}[m.group(1)]
        return {'keeps': lambda e, n: cmp(tab[e], tab[n]), 'form': '%s(%s(registered), %s(new)) with %s' % (m.group(1), m.group(2), m.group(2), ', '.join('%s=%d' % kv for kv in sorted(tab.items(), key=lambda kv: (-kv[1], kv[0])))), 'table': tab}
    return None


def _restore_is_sanctioned(prog, setter):
    """True, or a word saying what is wrong"""
    stores = [vexpr(setter, rv['a']) for bb, j, lhs, rv, st in setter.assigns()
              if [x.get('n') for x in lhs.get('p', []) if isinstance(x, dict) and 'f' in x] == ['lookup_table'] and rv['k'] == 'use' and not setter.blocks[bb].get('cleanup')]
    if stores != ['arg2']:
        return 'setter-stores-%s' % (stores[:1] or ['nothing'])[0]
    callers = [c for c in prog.callers_of(setter.path) if not c.fn.blocks[c.bb].get('cleanup')]
    if len(callers) != 1 or callers[0].fn.path != 'slicec::parsers::parse_files':
        return 'called-from-%s' % sorted({c.fn.path.rsplit('::', 1)[-1] for c in callers})
    c = callers[0]
    pf = c.fn
    if vexpr(pf, c.args[1]) != 'clone(lookup_table(arg1.ast))':
        return 'argument-%s' % vexpr(pf, c.args[1])[:40]
    saved = [k for k in pf.calls() if k.name() == 'lookup_table' and not pf.blocks[k.bb].get('cleanup')]
    parse = [k for k in pf.calls() if k.name() == 'parse_file' and not pf.blocks[k.bb].get('cleanup')]
    errs = branches_on_call(pf, lambda k: k.name() == 'has_errors')
    if len(saved) != 1 or len(parse) != 1 or not pf.dominates(saved[0].bb, parse[0].bb) or loop_of(pf, saved[0].bb) != loop_of(pf, parse[0].bb) or loop_of(pf, parse[0].bb) is None:
        return 'table-not-saved-before-each-parse'
    if not errs or not any(pf.edge_dominates(b['bb'], b['true'], c.bb) and pf.dominates(parse[0].bb, b['bb']) for b in errs):
        return 'not-on-the-failure-edge'
    return True


def r_name_table_single_writer(r, prog):
    A = 'slicec::ast::Ast'
    n = 0
    for a in field_accesses(prog, A, 'lookup_table', crates=('slicec', 'slicec_bin')):
        f = a['fn']
        if a['kind'] in ('write', 'refmut', 'init'):
            n += 1
            if f.path in (A + '::create', A + '::add_named_element'):
                r.ok('lookup_table written in %s' % f.path.rsplit('::', 1)[-1])
            elif f.path == A + '::add_module':
                # modules: registered only when the name is vacant (entry().or_insert), never replacing a definition or a primitive
                oi = [c for c in f.calls() if c.name() == 'or_insert' and not f.blocks[c.bb].get('cleanup')]
                en = [c for c in f.calls() if c.name() == 'entry' and not f.blocks[c.bb].get('cleanup')]
                ow = [c for c in f.calls() if c.name() in ('insert', 'and_modify', 'insert_entry', 'remove') and not f.blocks[c.bb].get('cleanup')]
                if len(oi) == 1 and len(en) == 1 and not ow and 'parser_scoped_identifier(' in vexpr(f, en[0].args[1]) and vexpr(f, oi[0].args[1]) == 'len(arg1.elements)':
                    r.ok('add_module registers a module only under a vacant name (it never replaces another element)')
                else:
                    r.finding('module-can-replace-element', a['span'], 'add_module can overwrite an entry of the name table: a module that shares its name with a definition or a primitive would take its place')
            elif f.path == A + '::set_lookup_table':
                # the table is put back as it was before a file that failed to parse (its orphaned members must not be found by name):
                # the setter stores its argument, and its only caller is parse_files, on the has_errors edge, with the clone of
                # lookup_table() it took before parsing that file
                ok_set = _restore_is_sanctioned(prog, f)
                if ok_set is True:
                    r.ok('set_lookup_table only puts back, after a file failed to parse, the table saved before that file was parsed')
                else:
                    r.finding('name-table-replaced:%s' % ok_set, a['span'], 'Ast::set_lookup_table can replace the name table other than by the copy saved before a file that then failed to parse (%s)' % ok_set)
            else:
                r.finding('name-table-written-in:%s' % f.path, a['span'], 'Ast::lookup_table is written in %s' % f.path)
    if n < 2:
        raise AnchorMissing('writes of lookup_table')
    named = {i['self_adt'] for i in prog.impls_of('slicec::grammar::traits::NamedSymbol')}
    for c in prog.callers_of(A + '::add_element'):
        t = c.targs[0] if c.targs else '?'
        if c.fn.path in (A + '::add_named_element', A + '::add_module'):
            r.ok('%s adds the element after registering its name' % c.fn.path.rsplit('::', 1)[-1])
            continue
        if t in named:
            r.finding('named-element-added-unnamed:%s' % t.rsplit('::', 1)[-1], c.span, '%s adds a %s with add_element: it is in the AST but cannot be retrieved by its scoped name' % (c.fn.path, t))
        else:
            r.ok('add_element::<%s> (not a NamedSymbol) in %s' % (t.rsplit('::', 1)[-1], c.fn.path.rsplit('::', 1)[-1]))
    ane = prog.fn(A + '::add_named_element')
    ins = [c for c in ane.calls() if c.name() == 'insert']
    pol = registration_policy(prog)
    kinds = sorted({c.targs[0].rsplit('::', 1)[-1] for c in prog.callers_of(A + '::add_named_element') if c.targs and c.targs[0] != 'T'})
    if len(kinds) < 9:
        raise AnchorMissing('instantiations of add_named_element (found %s)' % kinds)
    # the element is registered whenever its name is vacant, and otherwise unless the element found under the name takes precedence over
    # it by kind; a primitive type takes precedence over everything (only possible for an element of a file without a module declaration;
    # the parser looks the primitives up by name and unwraps, so they keep their entries), and no kind gives way to itself
    # a module that is registered through add_named_element (instead of add_module's vacant-name rule) must still never take the place of
    # another element: every other kind keeps its entry against a module
    if 'Module' in kinds and pol is not None:
        loses = sorted(k for k in kinds if k != 'Module' and not pol['keeps'](k, 'Module'))
        if loses:
            r.finding('module-can-replace-element', ane.span, 'modules are registered through add_named_element, where a module takes the entry of %s (%s): `module A::S::x` declared in a later file makes the field / operation / enumerator `A::S::x` impossible to retrieve by name, depending on the order of the files' % (', '.join(loses[:5]), pol['form']))
        else:
            r.ok('modules registered through add_named_element never take the place of another element')
    if pol is not None and all(pol['keeps']('Primitive', k) for k in kinds) and not any(pol['keeps'](k, k) and pol['keeps'](k2, k) and pol['keeps'](k, k2) for k in kinds for k2 in kinds if k != k2):
        r.ok('the name registered is parser_scoped_identifier() and the index is that of the element pushed next; an entry is kept only when its kind takes precedence (%s); a primitive type always keeps its entry' % pol['form'])
    else:
        r.finding('name-registration', ane.span, 'add_named_element does not register parser_scoped_identifier() -> index of the element it pushes on every path but those where the name is held by an element whose kind takes precedence, a primitive type always taking precedence (it must keep its entry: the parser unwraps the lookup of a primitive)')
    fld = [f for f in prog.adts[A]['variants'][0]['fields'] if f['n'] == 'lookup_table'][0]
    if fld['vis'] != 'pub' and 'Public' not in (ane.vis or ''):
        r.ok('lookup_table is private and add_named_element is not public')
    else:
        r.finding('name-table-exposed', '-', 'lookup_table / add_named_element are reachable from outside the crate')
    r.floor(10)


def r_kind_checks(r, prog):
    types = {i['self_adt'] for i in prog.impls_of('slicec::grammar::traits::Type')}
    entities = {i['self_adt'] for i in prog.impls_of('slicec::grammar::traits::Entity')}
    variants = prog.adts[NODE]['variants']
    table = [('>::try_from', 'dyn slicec::grammar::traits::Type', types, 'type'),
             ('>::try_from', 'dyn slicec::grammar::traits::Entity', entities, 'entity')]
    for suffix, selfty, want, what in table:
        fs = [f for f in prog.fns.values() if f.path.endswith(suffix) and selfty in f.path and "TryFrom<&'a slicec::ast::node::Node>" in f.path and f.kind != 'closure']
        if len(fs) != 1:
            raise AnchorMissing('TryFrom<&Node> for %s (found %d)' % (selfty, len(fs)))
        f = fs[0]
        sw = enum_switches(f, NODE)[0]
        for vi, v in enumerate(variants):
            m = re.search(r'OwnedPtr<([\w:#]+)>', v['fields'][0]['ty'])
            payload = m.group(1)
            tgt = arm(sw, vi)
            oks = [a for a in aggregates(prog, 'core::result::Result', 'Ok') if a['fn'] is f and a['bb'] in f.reachable(tgt, blocked=[x for k, x in sw['arms'].items() if x != tgt] + ([sw['otherwise']] if tgt != sw['otherwise'] else []))]
            accepted = bool(oks) and vi in sw['arms']
            if accepted == (payload in want):
                r.ok('Node::%s %s as a %s' % (v['n'], 'accepted' if accepted else 'rejected', what))
            else:
                r.finding('kind-check:%s:%s' % (what, v['n']), f.span, 'Node::%s is %s as a %s although %s %s %s' % (
                    v['n'], 'accepted' if accepted else 'rejected', what, payload.rsplit('::', 1)[-1], 'does not implement' if accepted else 'implements', 'Type' if what == 'type' else 'Entity'))
    # the patcher converts nodes only through TryFrom / try_into
    tip = prog.fn('slicec::patchers::type_ref_patcher::try_into_patch')
    if [c for c in tip.calls() if c.name() == 'try_into']:
        r.ok('try_into_patch converts the node through its TryFrom impl (kind checked)')
    else:
        r.finding('conversion-unchecked', tip.span, 'try_into_patch does not go through TryInto')
    r.floor(31)


def r_alias_flattening(r, prog):
    ra = prog.fn(TRP + 'resolve_type_alias')
    lp = ra.natural_loops()
    if not lp:
        raise AnchorMissing('alias loop')
    head, body = max(lp, key=lambda x: len(x[1]))
    ext = [c for c in ra.calls() if c.name() == 'extend' and c.bb in body and re.search(r'underlying\.attributes', vexpr(ra, c.args[1], depth=24))]
    tip = [c for c in ra.calls() if c.name() == 'try_into_patch']
    contains = branches_on_call(ra, lambda c: c.name() == 'contains')
    if ext and contains:
        start = contains[0]['false']
        ok_loop = must_pass(ra, start, [head], [ext[0].bb], within=body)
        ok_exit = all(must_pass(ra, start, [c.bb], [ext[0].bb]) for c in tip)
        recv = vexpr(ra, ext[0].args[0])
        same = all(vexpr(ra, c.args[1]).startswith(recv) or recv in vexpr(ra, c.args[1]) for c in tip)
        if ok_loop and ok_exit and same and len(tip) >= 2:
            r.ok('every link of an alias chain contributes the attributes of its type; every successful exit hands the accumulated list to try_into_patch')
        else:
            r.finding('alias-attributes-lost', ra.span, 'resolve_type_alias does not extend the accumulated attributes on every iteration / does not pass them to try_into_patch on every successful exit')
    else:
        r.finding('alias-attributes-not-accumulated', ra.span, 'resolve_type_alias does not accumulate underlying.attributes of the aliases it follows')
    p = prog.fn('slicec::grammar::elements::type_ref::TypeRef::<T>::patch')
    ex = [c for c in p.calls() if c.name() == 'extend']
    filt = [c for c in p.calls() if c.name() in ('filter', 'retain', 'dedup', 'dedup_by_key', 'any', 'contains', 'find', 'skip', 'take')]
    if ex and vexpr(p, ex[0].args[0]) == 'arg1.attributes' and vexpr(p, ex[0].args[1]) == 'arg3' and not filt and must_pass(p, 0, p.return_blocks(), [ex[0].bb]):
        r.ok('TypeRef::patch appends all attributes carried along, unconditionally')
    else:
        r.finding('patch-drops-attributes', p.span, 'TypeRef::patch does not append every carried attribute (extend(self.attributes, additional)) on every path (filtering: %s)' % [c.name() for c in filt])
    ws = [a for a in field_accesses(prog, 'slicec::grammar::elements::type_ref::TypeRef', 'definition', crates=('slicec',)) if a['kind'] == 'write' and not a['fn'].blocks[a['bb']].get('cleanup')]
    okw = [a for a in ws if a['fn'] is p]
    if okw and len(ws) == len(okw):
        r.ok('TypeRef.definition is only written by TypeRef::patch')
    else:
        r.finding('definition-written-elsewhere', '-', 'TypeRef.definition is written in %s' % sorted({a['fn'].path for a in ws if a['fn'] is not p}))
    r.floor(3)


def r_patcher_preconditions(r, prog):
    guards.evaluate(r, prog, lambda f: (f.span.file or '') == 'slicec/src/patchers/type_ref_patcher.rs' and not f.generated, 'guards_type_patcher.json', 20)


def run(ctx):
    prog = ctx.prog
    ctx.run_rule('C03.1', 'T5', 'every TypeRef field is resolved and patched; compute and apply agree', r_every_reference_is_patched, prog)
    ctx.run_rule('C03.2', 'T10', 'lookups use the module scope of the very reference being resolved', r_lookup_scope, prog)
    ctx.run_rule('C03.2b', 'T4', 'lookup algorithm: "::" global only; innermost scope outwards; global last', r_lookup_algorithm, prog)
    ctx.run_rule('C03.3', 'T1', 'single writer of the name table; named elements always registered', r_name_table_single_writer, prog)
    ctx.run_rule('C03.4', 'T5', 'kind checks: accepted Node variants = impls of Type / Entity', r_kind_checks, prog)
    ctx.run_rule('C03.5', 'T3', 'alias flattening carries the attributes of every link', r_alias_flattening, prog)
    ctx.run_rule('C03.6', 'T13', 'rule-precondition ledger of the type patcher (errors on the Err edge of the lookup)', r_patcher_preconditions, prog)
