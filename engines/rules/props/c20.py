"""C20 - visitor traversal presents every element exactly once, in source order."""
import re

from mirlib import AnchorMissing, path_matches, op_place
from helpers import arm, enum_switches, edge_region, loop_of, must_pass, vexpr, aggregates, variant_edges

EXPLANATION = (
    'Static decision of the structural clauses of C20 on the MIR of slicec::visitor: for every grammar type S with a visit_with, (1) the callback '
    'for S is called exactly once, with self, before anything else (container before contents); (2) child coverage: every field of S holding '
    'children with a visit_with (Vec<WeakPtr<T>>, Option<Vec<WeakPtr<T>>>, TypeRef) is traversed - a loop over that very field whose every '
    'iteration calls T::visit_with, or a direct call for a TypeRef - with the frozen exceptions Interface.bases and Enum.underlying; the '
    'traversal source is the element\'s own field, never a derived collection (inherited operations); (3) order: parameters before return '
    'members, success before failure, key before value; (4) nested types are visited by direct recursion (depth first), not through a work '
    'queue; (5) SliceFile::visit_with presents the file, then the module whenever there is one, then iterates contents once dispatching every '
    'Definition variant to its own visit_with, with no early exit; (6) unpatched references are not descended into; (7) the compiler\'s own '
    'validator overrides every Visitor method. Decides these clauses on all paths, not the recorded sequence for particular programs.')
THOROUGH_RERUN = ['release']     # the same rules over the release build (no debug assertions): verified clean on the pinned tree
ASSUMPTIONS = ['rustc type checking and MIR construction', 'flattened aliases of anonymous types are presented under their user (DESIGN.md, C20 observation)']
EXCEPTIONS = {('Interface', 'bases'): 'base interfaces are references to other definitions, not part of the stated traversal',
              ('Enum', 'underlying'): 'the underlying type is a primitive reference, not part of the stated traversal'}
ORDER = {'Operation': ['parameters', 'return_type'], 'ResultType': ['success_type', 'failure_type'], 'Dictionary': ['key_type', 'value_type']}


def _snake(n):
    return re.sub(r'(?<!^)([A-Z])', r'_\1', n).lower()


def visit_fns(prog):
    out = {}
    for f in prog.fns.values():
        m = re.match(r'^slicec::visitor::<impl (slicec::[\w:#]+)>::visit_with$', f.path)
        if m:
            out[m.group(1)] = f
    return out


def _child_kind(prog, ty, vfs):
    """('vec'|'optvec'|'typeref', child adt) if the field type holds visitable children"""
    m = re.match(r'^alloc::vec::Vec<slicec::utils::ptr_util::WeakPtr<(slicec::[\w:#]+)>>$', ty)
    if m and m.group(1) in vfs:
        return 'vec', m.group(1)
    m = re.match(r'^core::option::Option<alloc::vec::Vec<slicec::utils::ptr_util::WeakPtr<(slicec::[\w:#]+)>>>$', ty)
    if m and m.group(1) in vfs:
        return 'optvec', m.group(1)
    if re.match(r'^slicec::grammar::elements::type_ref::TypeRef(<dyn slicec::grammar::traits::Type>)?$', ty):
        return 'typeref', 'slicec::grammar::elements::type_ref::TypeRef'
    if re.match(r'^alloc::vec::Vec<slicec::grammar::elements::type_ref::TypeRef<', ty) or re.match(r'^core::option::Option<slicec::grammar::elements::type_ref::TypeRef<', ty):
        return 'typeref-other', None
    return None, None


_ACC = {}


def _field_of_accessor(prog, path, depth=3):
    """If the method `path` returns (a view of) exactly one field of self - e.g. fields(), operations(), contents() - the
    name of that field, else None."""
    if path in _ACC:
        return _ACC[path]
    _ACC[path] = None
    g = prog.fns.get(path)
    if g is None or depth <= 0:
        return None
    fields = set()
    other = False
    for d in g.defs_of(0):
        ex = vexpr(g, {'cp': {'l': 0}}, depth=24) if False else None
    exs = []
    for d in g.defs_of(0):
        if d[0] == 'assign':
            exs.append(vexpr(g, d[3].get('a') or {'cp': d[3].get('p')}, depth=24))
        elif d[0] == 'call':
            c = d[3]
            exs.append('%s(%s)' % (c.name(), ','.join(vexpr(g, a, depth=24) for a in c.args)))
            # delegation to another accessor on self
            if c.args and vexpr(g, c.args[0]) == 'arg1' and c.f.get('res'):
                sub = _field_of_accessor(prog, c.f['res'], depth - 1)
                if sub:
                    fields.add(sub)
                    exs.pop()
    for ex in exs:
        fs = set(re.findall(r'arg1\.(\w+)', ex))
        fields |= fs
        if re.search(r'\b\w+\(arg1\)', ex):
            other = True
    res = next(iter(fields)) if len(fields) == 1 and not other else None
    _ACC[path] = res
    return res


def _normalise_accessors(prog, f, c):
    """receiver expression of a visit call with accessor calls on self replaced by the field they return"""
    ex = vexpr(f, c.args[0], depth=24)
    for t in f.origin(c.args[0], wide=True):
        if t[0] == 'call' and t[1].args and vexpr(f, t[1].args[0]) == 'arg1' and t[1].f.get('res'):
            fld = _field_of_accessor(prog, t[1].f['res'])
            if fld:
                ex = ex.replace('%s(arg1)' % t[1].name(), 'arg1.%s' % fld)
    return ex


def _visits_of_field(prog, f, field, child):
    """calls of <child>::visit_with in f whose receiver derives from arg1.<field> (directly or through an accessor that
    returns exactly that field)"""
    out = []
    for c in f.calls():
        if c.name() == 'visit_with' and c.args:
            ex = _normalise_accessors(prog, f, c)
            if re.search(r'arg1\.%s\b' % re.escape(field), ex):
                out.append((c, ex))
    return out


def r_callbacks(r, prog):
    vfs = visit_fns(prog)
    if len(vfs) < 12:
        raise AnchorMissing('visit_with implementations (found %d)' % len(vfs))
    for adt, f in sorted(vfs.items()):
        name = adt.rsplit('::', 1)[-1].replace('r#', '')
        cbs = [c for c in f.calls() if (c.callee or '').startswith('slicec::visitor::Visitor::visit_')]
        want = 'visit_' + {'SliceFile': 'file', 'TypeRef': 'type_ref'}.get(name, _snake(name))
        if len(cbs) == 1 and cbs[0].name() == want and vexpr(f, cbs[0].args[1]) == 'arg1' and f.dominates(cbs[0].bb, f.return_blocks()[0]) \
                and all(f.dominates(cbs[0].bb, c.bb) for c in f.calls() if c is not cbs[0] and c.name() in ('visit_with', 'into_iter', 'next')):
            r.ok('%s::visit_with calls %s(self) exactly once, first' % (name, want))
        else:
            r.finding('callback:%s' % name, f.span, '%s::visit_with does not call exactly %s(self) once before visiting its contents (calls: %s)' % (name, want, [c.name() for c in cbs]))
        if loop_of(f, cbs[0].bb) is not None if cbs else False:
            r.finding('callback-in-loop:%s' % name, f.span, 'the callback of %s is inside a loop' % name)
    r.floor(12)


def r_child_coverage(r, prog):
    vfs = visit_fns(prog)
    for adt, f in sorted(vfs.items()):
        a = prog.adts.get(adt)
        name = adt.rsplit('::', 1)[-1].replace('r#', '')
        if not a or a['kind'] != 'struct' or name in ('SliceFile', 'TypeRef'):
            continue
        for fld in a['variants'][0]['fields']:
            kind, child = _child_kind(prog, fld['ty'], vfs)
            if kind is None:
                continue
            key = (name, fld['n'])
            vs = _visits_of_field(prog, f, fld['n'], child)
            if key in EXCEPTIONS or kind == 'typeref-other':
                if vs:
                    r.finding('exception-traversed:%s.%s' % key, f.span, '%s.%s is traversed although it is not part of the stated traversal' % key)
                else:
                    r.ok('%s.%s is not traversed (frozen exception)' % key, EXCEPTIONS.get(key, 'references to other definitions'))
                continue
            if not vs:
                r.finding('children-not-visited:%s.%s' % key, f.span, '%s::visit_with never visits the elements of its field %s: they are silently neither validated nor generated' % key)
                continue
            c, ex = vs[0]
            res = c.resolved or ''
            if child not in res:
                r.finding('wrong-child-visit:%s.%s' % key, c.span, 'the elements of %s.%s are visited through %s' % (key[0], key[1], res))
                continue
            if len(vs) != 1:
                r.finding('children-visited-twice:%s.%s' % key, f.span, '%s.%s is traversed by %d visit sites' % (key[0], key[1], len(vs)))
                continue
            if kind == 'typeref':
                if ex == 'arg1.%s' % fld['n'] and must_pass(f, 0, f.return_blocks(), [c.bb]) and loop_of(f, c.bb) is None:
                    r.ok('%s.%s (type) is visited once on every path, right from the field' % key)
                else:
                    r.finding('type-visit:%s.%s' % key, c.span, 'the type %s.%s is not visited exactly once on every path (%s)' % (key[0], key[1], ex[:50]))
            else:
                lp = loop_of(f, c.bb)
                src_ok = re.match(r'^(borrow\()?next\(into_iter\(arg1\.%s( as Some\.0)?\)\) as Some\.0\)?$' % re.escape(fld['n']), ex) is not None
                if lp and src_ok:
                    head, body = lp
                    somes = [arm(sw, 1) for sw in enum_switches(f, 'core::option::Option') if sw['bb'] in body and 'next(' in vexpr(f, {'cp': sw['place']})]
                    every = somes and must_pass(f, somes[0], [head], [c.bb], within=body)
                    reach = must_pass(f, 0, f.return_blocks(), [head]) if kind == 'vec' else True
                    if every and reach:
                        r.ok('%s.%s: every element is visited, in order, on every path' % key)
                    else:
                        r.finding('children-skipped:%s.%s' % key, c.span, 'some elements of %s.%s can be skipped (conditional visit or early exit)' % key)
                else:
                    r.finding('children-source:%s.%s' % key, c.span,
                              'the traversal for %s.%s iterates %s, not the element\'s own field front to back: elements could be presented twice, out of order or from elsewhere' % (key[0], key[1], ex[:70]))
        # nothing else is visited: every visit_with call of f was accounted to a field
        allv = [c for c in f.calls() if c.name() == 'visit_with']
        acc = sum(len(_visits_of_field(prog, f, fld['n'], None)) for fld in a['variants'][0]['fields'])
        if len(allv) != acc:
            extra = [vexpr(f, c.args[0])[:60] for c in allv if not re.search(r'arg1\.\w+', _normalise_accessors(prog, f, c))]
            r.finding('foreign-elements-visited:%s' % name, f.span, '%s::visit_with visits %s, which are not fields of the element itself (e.g. inherited or derived collections)' % (name, extra))
    r.floor(11, 'child fields')


def r_order(r, prog):
    vfs = visit_fns(prog)
    # Operation: fields of self; ResultType / Dictionary: inside TypeRef::visit_with
    f = vfs.get('slicec::grammar::elements::operation::Operation')
    t = vfs.get('slicec::grammar::elements::type_ref::TypeRef')
    if not f or not t:
        raise AnchorMissing('Operation / TypeRef visit_with')
    for owner, fields in ORDER.items():
        g = f if owner == 'Operation' else t
        firsts = []
        for fld in fields:
            cs = [c for c in g.calls() if c.name() in ('visit_with', 'into_iter') and re.search(r'\.%s\b' % fld, _normalise_accessors(prog, g, c))]
            if not cs:
                cs = [c for c in g.calls() if c.name() in ('call_mut', 'call', 'call_once') and len(c.args) > 1 and re.search(r'\.%s\b' % fld, vexpr(g, c.args[1], depth=24))]
            if not cs and owner != 'Operation':
                # collected into a list that is then walked front to back: the order of the visits is the order of the entries
                sites = _field_ref_sites(g, fld)
                if sites:
                    firsts.append([('ref', x) for x in sites])
                    continue
            if not cs:
                r.finding('order-anchor:%s.%s' % (owner, fld), g.span, '%s.%s is not traversed' % (owner, fld))
                break
            firsts.append(cs)
        else:
            a, b = firsts
            if a and isinstance(a[0], tuple) or b and isinstance(b[0], tuple):
                if a and b and isinstance(a[0], tuple) and isinstance(b[0], tuple) and len(a) == 1 and len(b) == 1:
                    (ba, ja), (bb_, jb) = a[0][1], b[0][1]
                    first = (ba == bb_ and ja < jb) or (ba != bb_ and g.dominates(ba, bb_))
                    if first:
                        r.ok('%s: %s is put into the list before %s (the list is walked front to back)' % (owner, fields[0], fields[1]))
                    else:
                        r.finding('visit-order:%s' % owner, g.span, '%s: %s is not collected before %s' % (owner, fields[0], fields[1]))
                else:
                    r.finding('visit-order:%s' % owner, g.span, '%s: %s and %s are traversed in different ways' % (owner, fields[0], fields[1]))
                continue
            a0 = min(a, key=lambda c: len(g.dominators().get(c.bb, ())))
            b0 = min(b, key=lambda c: len(g.dominators().get(c.bb, ())))
            back = any(x.bb in g.reachable(y.bb) and x.bb != y.bb for x in a for y in b)
            if g.dominates(a0.bb, b0.bb) and not back:
                r.ok('%s: %s before %s' % (owner, fields[0], fields[1]))
            else:
                r.finding('visit-order:%s' % owner, g.span, '%s: %s is not visited before %s on every path' % (owner, fields[0], fields[1]))
    r.floor(3)



def _field_ref_sites(t, fld):
    """(bb, j) of the statements that take a reference to <payload>.<fld> (a nested type reference put into a list)"""
    out = []
    for bb, j, lhs, rv, st in t.assigns():
        if rv['k'] == 'ref' and not t.blocks[bb].get('cleanup'):
            names = [x.get('n') for x in rv['p'].get('p', []) if isinstance(x, dict) and 'f' in x]
            if names and names[-1] == fld:
                out.append((bb, j))
    return out


def _collected_then_visited_where_written(prog, t, sw, tgt, fld, rets):
    """third form of the same traversal: the arm puts a reference to the nested type into a list, and one loop over that list recurses into
    every element whose span lies inside the span of the reference being visited (same file, start >=, end <=)"""
    import guards as _g
    others = [x for k, x in sw['arms'].items() if x != tgt] + ([sw['otherwise']] if sw['otherwise'] != tgt else [])
    region = t.reachable(tgt, blocked=others)
    if not [x for x in _field_ref_sites(t, fld) if x[0] in region]:
        return False
    rec = [c for c in t.calls() if c.name() == 'visit_with' and c.resolved == t.path and not t.blocks[c.bb].get('cleanup') and loop_of(t, c.bb) is not None
           and re.match(r'^next\(into_iter\(.*\)\) as Some\.0$', vexpr(t, c.args[0]))]
    if len(rec) != 1 or len(t.natural_loops()) != 1:
        return False
    head = loop_of(t, rec[0].bb)[0]
    elem = re.escape(vexpr(t, rec[0].args[0]))
    gs = [g for g in _g.expand_predicates(prog, t, _g.guard_set(prog, t, rec[0].bb)) if not _g._LOOP_HAS_NEXT.match(g) and not re.search(r'definition is not Unpatched$', g)]
    comp = {'eq': 'ne', 'ge': 'lt', 'le': 'gt'}
    body = lambda op, f_: r'%s\(span\(%s\)\.%s,span\(arg1\)\.%s\)' % (op, elem, f_, f_)
    pat = lambda op, f_: any(re.match('^' + body(op, f_) + '$', g) or re.match(r'^!\(' + body(comp[op], f_) + r'\)$', g) for g in gs)
    return len(gs) == 3 and pat('eq', 'file') and pat('ge', 'start') and pat('le', 'end') and must_pass(t, tgt, rets, [head])


def _descends_when_written_here(prog, t):
    """the local closure of TypeRef::visit_with recurses into its argument exactly when the argument's span lies inside the span of the
    reference being visited (same file, start >=, end <=): nested types written here are presented, those of an alias are not"""
    import guards as _g
    cls = [f for f in prog.fns.values() if f.path.startswith(t.path + '::{closure')]
    if len(cls) != 1:
        return False
    f = cls[0]
    rec = [c for c in f.calls() if c.name() == 'visit_with' and c.resolved == t.path and not f.blocks[c.bb].get('cleanup')]
    if len(rec) != 1 or vexpr(f, rec[0].args[0]) != 'arg2':
        return False
    gs = _g.expand_predicates(prog, f, _g.guard_set(prog, f, rec[0].bb))
    comp = {'eq': 'ne', 'ge': 'lt', 'le': 'gt'}      # the same test written as the negation of its complement (early return instead of nested if)
    body = lambda op, fld: r'%s\(tuple\(span\(arg2\),span\(arg1\.0\)\)\.0\.%s,tuple\(span\(arg2\),span\(arg1\.0\)\)\.1\.%s\)' % (op, fld, fld)
    pat = lambda op, fld: any(re.match('^' + body(op, fld) + '$', g) or re.match(r'^!\(' + body(comp[op], fld) + r'\)$', g) for g in gs)
    return len(gs) == 3 and pat('eq', 'file') and pat('ge', 'start') and pat('le', 'end')

def r_typeref(r, prog):
    vfs = visit_fns(prog)
    t = vfs['slicec::grammar::elements::type_ref::TypeRef']
    TY = 'slicec::grammar::wrappers::Types'
    TRD = 'slicec::grammar::elements::type_ref::TypeRefDefinition'
    ct = [c for c in t.calls() if c.name() == 'concrete_type']
    sws = enum_switches(t, TRD)
    variants = [v['n'] for v in prog.adts[TRD]['variants']]
    if ct and sws:
        ui = variants.index('Unpatched')
        edges = variant_edges(t, TRD, ui, len(variants))
        if edges and any(ct[0].bb not in t.reachable(dst, blocked=[src]) and dst != oth for src, dst, oth in edges):
            r.ok('concrete_type() is not reachable on the Unpatched edge')
        else:
            r.finding('unpatched-descended', ct[0].span, 'TypeRef::visit_with can call concrete_type() on an unpatched reference')
    else:
        r.finding('unpatched-test-missing', t.span, 'TypeRef::visit_with does not test for TypeRefDefinition::Unpatched before descending')
    # every Types variant whose payload has TypeRef fields recurses into every one of them, by direct recursion
    sw = enum_switches(t, TY)
    if not sw:
        raise AnchorMissing('match on Types in TypeRef::visit_with')
    sw = sw[0]
    rets = t.return_blocks()
    for vi, v in enumerate(prog.adts[TY]['variants']):
        m = re.match(r"^&(?:'\w+ )?([\w:#]+)", v['fields'][0]['ty']) if v['fields'] else None
        payload = m.group(1) if m else None
        p = prog.adts.get(payload)
        trf = [fl['n'] for fl in p['variants'][0]['fields'] if fl['ty'].startswith('slicec::grammar::elements::type_ref::TypeRef')] if p and p['kind'] == 'struct' else []
        if not trf or v['n'] in ('Struct', 'Enum', 'CustomType', 'TypeAlias', 'Primitive'):
            continue
        tgt = arm(sw, vi)
        for fld in trf:
            cs = [c for c in t.calls() if c.name() == 'visit_with' and c.resolved == t.path and vexpr(t, c.args[0], depth=24).endswith('.' + fld) and c.bb in t.reachable(tgt)]
            # ... or through the local closure that descends when the nested reference is written inside this one
            via = [c for c in t.calls() if c.name() in ('call_mut', 'call', 'call_once') and (c.resolved or '').startswith(t.path + '::{closure') and len(c.args) > 1
                   and re.search(r'\.%s\)?$' % fld, vexpr(t, c.args[1], depth=24)) and c.bb in t.reachable(tgt)]
            if len(cs) == 1 and must_pass(t, tgt, rets, [cs[0].bb]):
                r.ok('Types::%s: direct recursion into %s' % (v['n'], fld))
            elif len(via) == 1 and must_pass(t, tgt, rets, [via[0].bb]) and _descends_when_written_here(prog, t):
                r.ok('Types::%s: recursion into %s where it is written inside the reference being visited' % (v['n'], fld))
            elif not cs and not via and _collected_then_visited_where_written(prog, t, sw, tgt, fld, rets):
                r.ok('Types::%s: %s is collected and every collected reference is recursed into where it is written inside the reference being visited' % (v['n'], fld))
            else:
                r.finding('nested-type-not-visited:%s.%s' % (v['n'], fld), t.span, 'TypeRef::visit_with does not recurse exactly once into %s of %s on every path' % (fld, v['n']))
    q = [c for c in t.calls() if c.name() in ('push_back', 'pop_front', 'push', 'pop', 'push_front', 'pop_back', 'extend')]
    if q:
        r.finding('nested-types-through-work-list', q[0].span, 'TypeRef::visit_with keeps a work list (%s): nested types are no longer presented right after their owner (depth first)' % q[0].name())
    else:
        r.ok('nested types are visited by direct recursion (depth first)')
    r.floor(7)


def r_file(r, prog):
    vfs = visit_fns(prog)
    f = vfs['slicec::slice_file::SliceFile']
    DEF = 'slicec::grammar::wrappers::Definition'
    cb = [c for c in f.calls() if c.name() == 'visit_file']
    mods = [c for c in f.calls() if c.name() == 'visit_with' and 'module' in vexpr(f, c.args[0])]
    sw = enum_switches(f, DEF)
    if not (cb and mods and sw):
        raise AnchorMissing('visit_file / module visit / Definition match in SliceFile::visit_with')
    sw = sw[0]
    lp = loop_of(f, sw['bb'])
    if lp is None:
        raise AnchorMissing('loop over contents')
    head, body = lp
    # module whenever there is one
    msw = [s for s in enum_switches(f, 'core::option::Option') if 'arg1.module' in vexpr(f, {'cp': s['place']})]
    if msw and must_pass(f, arm(msw[0], 1), f.return_blocks() + [head], [mods[0].bb]) and f.dominates(cb[0].bb, msw[0]['bb']) and f.dominates(msw[0]['bb'], head):
        r.ok('file, then the module on every path where there is one, then the definitions')
    else:
        r.finding('module-not-always-visited', f.span, 'SliceFile::visit_with does not visit the module on every path where the file has one (or not between the file and its definitions)')
    # contents loop reached on every path (no early exit) and iterates arg1.contents
    it = [c for c in f.calls() if c.name() == 'into_iter' and 'arg1.contents' in vexpr(f, c.args[0])]
    nx = [c for c in f.calls() if c.name() == 'next' and c.bb in body and not f.blocks[c.bb].get('cleanup')]
    if it and must_pass(f, 0, f.return_blocks(), [head]) and (len(f.natural_loops()) != 1 or not nx or any(vexpr(f, c.args[0]) != 'into_iter(arg1.contents)' for c in nx)):
        r.finding('definitions-reordered', f.span, 'SliceFile::visit_with walks %s in %d loop(s): the definitions must be presented by one walk over self.contents as it is (source order)' % (
            sorted({vexpr(f, c.args[0])[:80] for c in nx}), len(f.natural_loops())))
    elif it and must_pass(f, 0, f.return_blocks(), [head]):
        r.ok('the definitions are iterated on every path (no early exit), by one walk over self.contents as it is')
    else:
        r.finding('definitions-skipped', f.span, 'SliceFile::visit_with can return without iterating its definitions, or does not iterate self.contents')
    # every Definition variant dispatches to the visit_with of its own type
    for vi, v in enumerate(prog.adts[DEF]['variants']):
        m = re.search(r'WeakPtr<(slicec::[\w:#]+)>', v['fields'][0]['ty'])
        child = m.group(1) if m else None
        tgt = arm(sw, vi)
        others = [arm(sw, k) for k in range(len(prog.adts[DEF]['variants'])) if k != vi]
        cs = [c for c in f.calls() if c.name() == 'visit_with' and c.bb in f.reachable(tgt, blocked=[head] + others)]
        if len(cs) == 1 and child and child in (cs[0].resolved or '') and must_pass(f, tgt, [head], [cs[0].bb], within=body):
            r.ok('Definition::%s -> %s::visit_with' % (v['n'], child.rsplit('::', 1)[-1]))
        else:
            r.finding('definition-dispatch:%s' % v['n'], f.span, 'Definition::%s is not dispatched to exactly its own visit_with (%s)' % (v['n'], [c.resolved for c in cs]))
    r.floor(7)


def r_validator_overrides_all(r, prog):
    tr = prog.traits['slicec::visitor::Visitor']
    methods = {m['n'] for m in tr['methods']}
    imp = [i for i in prog.impls_of('slicec::visitor::Visitor') if 'ValidatorVisitor' in i['self']]
    if not imp:
        raise AnchorMissing('impl Visitor for ValidatorVisitor')
    have = {m['n'] for m in imp[0]['methods']}
    for m in sorted(methods):
        if m in have:
            r.ok('ValidatorVisitor overrides %s' % m)
        else:
            r.finding('validator-misses-callback:%s' % m, '-', 'ValidatorVisitor does not override %s: elements of that kind are visited but never validated' % m)
    r.floor(12)



def r_validator_visits_every_file(r, prog):
    f = prog.fn('slicec::validators::validate_ast')
    vs = [c for c in f.calls() if c.name() == 'visit_with' and not f.blocks[c.bb].get('cleanup')]
    lp = loop_of(f, vs[0].bb) if vs else None
    recv = vexpr(f, vs[0].args[0], depth=8) if vs else ''
    if len(vs) == 1 and lp is not None and recv in ('next(into_iter(arg1.files)) as Some.0', 'next(iter(arg1.files)) as Some.0'):
        r.ok('the validators walk every file of the compilation state, in the order of the file list')
    else:
        r.finding('validator-does-not-walk-the-file-list', f.span, 'validate_ast calls visit_with on %s: files reached through another collection can be merged, dropped or reordered' % (recv[:80] or 'nothing'))
    r.floor(1)

import decisions


def run(ctx):
    prog = ctx.prog
    ctx.run_rule('C20.1', 'T6', 'each visit_with calls exactly its own callback once, first', r_callbacks, prog)
    ctx.run_rule('C20.2', 'T5', 'child coverage: every child-holding field is traversed from the field itself, every element, once', r_child_coverage, prog)
    ctx.run_rule('C20.3', 'T4', 'declared order of sibling traversals', r_order, prog)
    ctx.run_rule('C20.4', 'T2', 'type references: not descended when unpatched; nested types by direct recursion', r_typeref, prog)
    ctx.run_rule('C20.5', 'T4', 'file: file, module, every definition dispatched to its own visit_with', r_file, prog)
    ctx.run_rule('C20.6', 'T5', 'the validator overrides every Visitor method', r_validator_overrides_all, prog)
    ctx.run_rule('C20.6', 'T2', 'the validating walk presents every file', decisions.r_every_file_validated, prog)
    ctx.run_rule('C20.7', 'T10', 'the validators visit every file of the file list', r_validator_visits_every_file, prog)
