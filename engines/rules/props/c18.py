"""C18 - a failing generator is reported, never fatal, and never half-trusted."""
import re

from mirlib import AnchorMissing, path_matches, op_place, const_int
from helpers import (aggregates, arm, closure_of_arg, branches_on_call, bool_branches, enum_switches, loop_of, must_pass, ok_dominates, try_edges, vexpr, origin_calls)
from props import c07, c11
import entrypoints
import panics

EXPLANATION = (
    'Static decision of the structural clauses of C18 on the MIR of slicec\'s main.rs: (1) every failure is folded into a diagnostic: for each '
    'generator the chain spawn -> collect -> handle ends in unwrap_or_else(convert_generator_error_to_diagnostic) and is extended into the '
    'diagnostics on every loop path, the wait loop has no early exit, no io::Result or codec Result is unwrapped in the generator path, the '
    'converter builds Error::IO naming the generator\'s path, and no panic-capable site in the generator path is unaccounted for; (2) identical '
    'request: the payload is encoded once before the loop and every spawn receives a shared borrow of that same buffer; per-generator data are '
    'path and args only; (3) only a fully decoded reply is trusted: write_generated_file is dominated by the success edges of both decode() '
    'calls; collect_plugin_output returns Ok only on the stderr-empty and exit-code-0 edges and returns the child\'s stdout; one generator\'s '
    'files do not depend on another generator\'s diagnostics; (4) compare before write: the file is created only on the differs-or-unreadable '
    'edge, and the path compared, the path created and (with an output directory) dir.join(relative path) are the same value; (5) all children '
    'are spawned before the first is awaited. Decides these clauses, not hangs, signals or file-system outcomes.')
THOROUGH_RERUN = ['release']     # the same rules over the release build (no debug assertions): verified clean on the pinned tree
ASSUMPTIONS = ['rustc type checking and MIR construction', 'std::process / std::fs behave as documented', 'generators read their whole stdin before writing (the protocol\'s stated assumption)']
B = 'slicec_bin::'


def r_converter_names_generator(r, prog):
    f = prog.fn(B + 'convert_generator_error_to_diagnostic')
    io = [a for a in aggregates(prog, 'slicec::diagnostics::errors::Error', 'IO') if a['fn'] is f]
    if not io:
        r.finding('generator-error-not-io', f.span, 'convert_generator_error_to_diagnostic does not build Error::IO')
        return
    ops = dict(zip(io[0]['rv']['fn'], io[0]['rv']['ops']))
    p, e = vexpr(f, ops['path']), vexpr(f, ops['error'])
    if 'arg1.path' in p and e == 'arg2':
        r.ok('the diagnostic names the generator\'s path and carries its error', '%s / %s' % (p, e))
    else:
        r.finding('generator-error-fields', io[0]['span'], 'Error::IO is built with path=%s error=%s' % (p, e))
    push = [c for c in f.calls() if c.name() == 'push_into']
    if push and must_pass(f, 0, f.return_blocks(), [push[0].bb]):
        r.ok('the failure diagnostic is pushed on every path')
    else:
        r.finding('generator-error-not-pushed', f.span, 'the failure diagnostic is not pushed on every path')
    # main routes every Err of the chain through the converter
    main = prog.fn(B + 'main')
    uo = [c for c in main.calls() if c.name() == 'unwrap_or_else']
    ext = [c for c in main.calls() if c.name() == 'extend' and 'compile_from_options(' in vexpr(main, c.args[0])]
    if uo and ext and 'unwrap_or_else(and_then(and_then(' in vexpr(main, ext[0].args[1]) and 'collect_plugin_output' in vexpr(main, ext[0].args[1]):
        cl = [g for g in prog.closures_of(main) if [c for c in g.calls() if c.name() == 'convert_generator_error_to_diagnostic']]
        if cl:
            r.ok('spawn -> collect -> handle, any Err converted by convert_generator_error_to_diagnostic, result extended into the diagnostics')
        else:
            r.finding('chain-error-not-converted', uo[0].span, 'the Err of the generator chain is not converted by convert_generator_error_to_diagnostic')
    else:
        r.finding('generator-chain-shape', main.span, 'main does not fold spawn/collect/handle into one diagnostics value per generator that is extended into the diagnostics (found %s)' % (vexpr(main, ext[0].args[1])[:80] if ext else 'no extend'))
    r.floor(3)


def r_no_unwrap_in_generator_path(r, prog):
    fns = [prog.fn(B + n) for n in ('spawn_plugin_process', 'collect_plugin_output', 'handle_generator_response', 'write_generated_file', 'convert_generator_error_to_diagnostic', 'encode_generate_code_request')]
    fns += [g for f in list(fns) for g in prog.closures_of(f)]
    for f in fns:
        bad = [s for s in panics.sites_of(f) if not panics.auto_discharge(s, prog)]
        if bad:
            for s in bad:
                r.finding('panic-site-in-generator-path:%s' % s.key, s.span, '%s contains a panic-capable site (%s %s): a generator failure could crash the compiler' % (f.path, s.kind, s.what))
        else:
            r.ok('%s: no panic-capable site' % f.path)
    r.floor(6)


def r_identical_request(r, prog):
    main = prog.fn(B + 'main')
    enc = [c for c in main.calls() if c.name() == 'encode_generate_code_request']
    if len(enc) != 1 or loop_of(main, enc[0].bb) is not None:
        r.finding('request-encoded-per-generator', main.span, 'the request is not encoded exactly once, outside any loop')
        return
    r.ok('the request is encoded once, before the generators are started')
    if 'compile_from_options(' in vexpr(main, enc[0].args[0]) and '.files' in vexpr(main, enc[0].args[0]):
        r.ok('the request is built from the files of the compilation')
    else:
        r.finding('request-source', enc[0].span, 'the request is encoded from %s' % vexpr(main, enc[0].args[0])[:60])
    spawns = []
    for g in [main] + prog.closures_of(main):
        for c in g.calls():
            if c.name() == 'spawn_plugin_process':
                spawns.append((g, c))
    if not spawns:
        raise AnchorMissing('spawn_plugin_process call')
    from helpers import sources_of
    for g, c in spawns:
        srcs = sources_of(prog, g, c.args[1], depth=4)
        exs = {e for _, e in srcs}
        base = vexpr(main, {'cp': enc[0].dest})
        n_enc = len(prog.callers_of(B + 'encode_generate_code_request'))
        if exs and n_enc == 1 and all(p_ == main.path and base in e for p_, e in srcs):
            r.ok('every generator receives a borrow of that one encoded request', sorted(exs)[0][:80])
        else:
            r.finding('request-differs-per-generator', c.span, 'spawn_plugin_process is given %s as payload' % sorted(exs))
    sp = prog.fn(B + 'spawn_plugin_process')
    w = [c for c in sp.calls() if c.name() == 'write_all']
    if len(w) == 2 and vexpr(sp, w[0].args[1]) == 'arg2' and sp.dominates(w[0].bb, w[1].bb):
        r.ok('stdin receives the shared payload first, unmodified')
    else:
        r.finding('payload-not-written-first', sp.span, 'spawn_plugin_process does not write the shared payload first and unmodified (%s)' % [vexpr(sp, c.args[1])[:40] for c in w])
    args = [c for c in sp.calls() if c.name() == 'encode']
    if args and 'arg1.args' in vexpr(sp, args[0].args[1]) and len(w) == 2 and 'new()' in vexpr(sp, w[1].args[1]):
        r.ok('then the generator\'s own arguments (plugin.args), encoded into a fresh buffer')
    else:
        r.finding('arguments-source', sp.span, 'the per-generator arguments are not encoded from plugin.args into a fresh buffer')
    cmdn = [c for c in sp.calls() if c.name() == 'new' and 'Command' in (c.resolved or '')]
    if cmdn and 'arg1.path' in vexpr(sp, cmdn[0].args[0]):
        r.ok('the process started is plugin.path')
    else:
        r.finding('command-path', sp.span, 'Command::new is not given plugin.path')
    r.floor(6)


def r_only_decoded_reply_trusted(r, prog):
    h = prog.fn(B + 'handle_generator_response')
    dec = [c for c in h.calls() if c.name() == 'decode']
    wr = [c for c in h.calls() if c.name() == 'write_generated_file']
    if len(dec) < 2 or not wr:
        raise AnchorMissing('two decode() calls and write_generated_file in handle_generator_response')
    if all(ok_dominates(h, d, wr[0].bb) for d in dec):
        r.ok('files are written only after both sequences of the reply decoded successfully')
    else:
        r.finding('files-written-before-full-decode', wr[0].span, 'write_generated_file is reachable before both decode() calls succeeded: a half-decoded reply would be trusted')
    if 'arg1' in vexpr(h, dec[0].args[0]) or 'from(arg1)' in vexpr(h, dec[0].args[0]):
        r.ok('the reply is decoded from the generator\'s own output')
    # isolation: guards in this function depend only on this generator's data
    for b in branches_on_call(h, lambda c: c.name() == 'has_errors'):
        recv = vexpr(h, b['call'].args[0])
        if recv.startswith('new()'):
            r.ok('the has_errors() guard looks at this generator\'s own (fresh) diagnostics')
        else:
            r.finding('generator-files-depend-on-others', b['call'].span,
                      'handle_generator_response gates the writing of this generator\'s files on %s, diagnostics that other generators (or the compilation) wrote into' % recv[:60])
    ins = h.raw.get('inputs') or []
    if any('Diagnostics' in t for t in ins):
        r.finding('generator-response-shares-diagnostics', h.span, 'handle_generator_response receives a Diagnostics container from outside (%s)' % ins)
    # collect_plugin_output
    c = prog.fn(B + 'collect_plugin_output')
    oks = [a for a in aggregates(prog, 'core::result::Result', 'Ok') if a['fn'] is c]
    if len(oks) != 1:
        r.finding('collect-ok-exits', c.span, 'collect_plugin_output has %d Ok exits (expected exactly one)' % len(oks))
    else:
        ok = oks[0]
        val = vexpr(c, ok['rv']['ops'][0])
        if val.endswith('.stdout') and 'wait_with_output(arg1)' in val:
            r.ok('the reply is the child\'s stdout after wait_with_output')
        else:
            r.finding('collect-returns', ok['span'], 'collect_plugin_output returns %s' % val[:60])
        # stderr empty edge
        em = branches_on_call(c, lambda x: x.name() == 'is_empty' and 'stderr' in vexpr(c, x.args[0]))
        good1 = em and c.edge_dominates(em[0]['bb'], em[0]['true'], ok['bb'])
        # exit code == 0 edge: switch on the i32 code with explicit arm 0
        good2 = False
        for i, blk in enumerate(c.blocks):
            t = blk['t']
            if t['k'] == 'switch' and t['ty'] == 'i32' and 'code(' in vexpr(c, t['d']):
                z = [tgt for v, tgt in t['ts'] if v == '0']
                if z and c.edge_dominates(i, z[0], ok['bb']) and z[0] != t['else']:
                    good2 = True
        good3 = False
        for sw in enum_switches(c, 'core::option::Option'):
            if 'code(' in vexpr(c, {'cp': sw['place']}) and c.edge_dominates(sw['bb'], arm(sw, 1), ok['bb']) and arm(sw, 1) != arm(sw, 0):
                good3 = True
        if good1:
            r.ok('Ok only if the generator wrote nothing to stderr')
        else:
            r.finding('stderr-output-ignored', ok['span'], 'collect_plugin_output can return Ok although the generator wrote to stderr')
        if good2 and good3:
            r.ok('Ok only if the generator exited with status code 0 (a missing code, i.e. a signal, is a failure)')
        else:
            r.finding('exit-status-not-required', ok['span'], 'collect_plugin_output can return Ok without an exit code of exactly 0 (e.g. a generator killed by a signal)')
    r.floor(6)


def r_compare_before_write(r, prog):
    f = prog.fn(B + 'write_generated_file')
    rd = [c for c in f.calls() if c.name() == 'read' and 'fs' in (c.resolved or '')]
    cr = [c for c in f.calls() if c.name() == 'create']
    jn = [c for c in f.calls() if c.name() == 'join']
    if not (rd and cr):
        raise AnchorMissing('fs::read and File::create in write_generated_file')
    p_read, p_create = vexpr(f, rd[0].args[0]), vexpr(f, cr[0].args[0])
    if p_read == p_create:
        r.ok('the path compared is the path written')
    else:
        r.finding('compare-and-write-paths-differ', rd[0].span, 'the existing file is read from %s but the file is created at %s' % (p_read[:70], p_create[:70]))
    if jn and 'join(from(arg2 as Some.0),arg1.path)' in p_create.replace(' ', '') .replace('join(from(arg2asSome.0),arg1.path)', 'join(from(arg2 as Some.0),arg1.path)') or 'join(from(arg2 as Some.0),arg1.path)' in p_create:
        r.ok('with an output directory the path is dir.join(relative path); without one it is the relative path')
    else:
        r.finding('output-directory-ignored', cr[0].span, 'the created path is %s' % p_create[:80])
    eq = branches_on_call(f, lambda c: c.name() == 'eq')
    good = False
    for b in eq:
        a0, a1 = vexpr(f, b['call'].args[0]), vexpr(f, b['call'].args[1])
        if 'read(' in a0 + a1 and 'arg1.contents' in a0 + a1:
            # identical -> return without create
            if cr[0].bb not in f.reachable(b['true'], blocked=[b['bb']]) and b['true'] != b['false']:
                good = True
    if not good:
        # second idiom: read(path).is_ok_and(|current| current == bytes) branched on directly
        for b in branches_on_call(f, lambda c: c.name() == 'is_ok_and' and 'read(' in vexpr(f, c.args[0])):
            cl = closure_of_arg(prog, f, b['call'].args[1])
            if cl is None:
                continue
            cmpv = vexpr(cl, {'cp': {'l': 0}}, depth=8)
            if re.match(r'^eq\(', cmpv) and 'arg2' in cmpv and 'contents' in vexpr(f, b['call'].args[1]) + cmpv \
                    and cr[0].bb not in f.reachable(b['true'], blocked=[b['bb']]) and b['true'] != b['false']:
                good = True
    if good:
        r.ok('identical existing contents -> the file is left untouched')
    else:
        r.finding('identical-file-rewritten', cr[0].span, 'File::create is reachable on the "existing contents are identical" edge (or the contents are not compared)')
    w = [c for c in f.calls() if c.name() == 'write_all']
    if w and vexpr(f, w[0].args[1]).startswith('as_bytes(arg1.contents)') or (w and 'arg1.contents' in vexpr(f, w[0].args[1])):
        r.ok('the bytes written are the generated contents')
    else:
        r.finding('written-bytes', f.span, 'write_all is not given the generated contents')
    r.floor(4)


def r_spawn_all_then_wait(r, prog):
    main = prog.fn(B + 'main')
    col = [c for c in main.calls() if c.name() == 'collect']
    spawn_cl = [g for g in prog.closures_of(main) if [c for c in g.calls() if c.name() == 'spawn_plugin_process']]
    waits = [c for c in main.calls() if c.name() in ('and_then',) and 'collect_plugin_output' in vexpr(main, c.args[1])]
    if col and spawn_cl and waits and main.dominates(col[0].bb, waits[0].bb) and spawn_cl[0].path.split('::')[-1] in vexpr(main, col[0].args[0]) or (col and spawn_cl and waits and main.dominates(col[0].bb, waits[0].bb)):
        r.ok('all generators are spawned (collect of the spawn iterator) before the first one is awaited')
    else:
        r.finding('spawn-and-wait-interleaved', main.span, 'generators are not all spawned before the first one is awaited')
    r.floor(1)


def r_generator_streams_piped(r, prog):
    """stdin, stdout and stderr of a generator are all pipes of the compiler: the request goes down the first, the reply comes up the second, and
    anything on the third makes the run a failure. An inherited (or null) stderr is never seen by wait_with_output(): a generator that reports
    errors there and exits 0 would be trusted."""
    sp = prog.fn('slicec_bin::spawn_plugin_process')
    cmd = [c for c in sp.calls() if c.name() == 'spawn' and not sp.blocks[c.bb].get('cleanup')]
    if len(cmd) != 1:
        raise AnchorMissing('Command::spawn in spawn_plugin_process (found %d)' % len(cmd))
    chain = vexpr(sp, cmd[0].args[0], depth=12)
    how = {c.name(): vexpr(sp, c.args[1]) for c in sp.calls() if c.name() in ('stdin', 'stdout', 'stderr') and len(c.args) == 2 and not sp.blocks[c.bb].get('cleanup')}
    missing = [st for st in ('stdin', 'stdout', 'stderr') if how.get(st) != 'piped()' or ('%s(' % st) not in chain]
    if missing:
        r.finding('generator-stream-not-piped:%s' % '+'.join(missing), cmd[0].span, 'the generator is spawned as %s: %s is not Stdio::piped()' % (chain[:160], ' and '.join(missing)))
    else:
        r.ok('stdin, stdout and stderr of the generator are piped')
    r.floor(1)


import codec as _codec


def r_reply_flags_are_strict_bools(r, prog):
    """The presence flag of an optional field of a reply type is read with the strict bool decoder (0 or 1, anything else is an error): a
    decoder that reads a byte and tests a bit accepts a malformed reply, and files are then written from it."""
    n = 0
    for p_, f in sorted(prog.fns.items()):
        m = re.match(r'^<(slicec_bin::definition_types::\w+) as slice_codec::decode_from::DecodeFrom>::decode_from$', p_)
        if not m:
            continue
        adt = prog.adts.get(m.group(1))
        if adt is None or len(adt['variants']) != 1:
            continue
        n += 1
        n_opt = len([x for x in adt['variants'][0]['fields'] if re.match(r'^(core::option::)?Option<', x.get('ty') or '')])
        decs = [c for c in f.calls() if c.name() == 'decode' and not f.blocks[c.bb].get('cleanup')]
        n_bool = len([c for c in decs if c.targs and c.targs[-1] == 'bool'])
        bits = [rv['op'] for bb, j, lhs, rv, st in f.assigns() if rv['k'] == 'bin' and rv['op'] in ('BitAnd', 'Shr', 'Shl', 'BitOr') and not f.blocks[bb].get('cleanup')]
        if n_opt > 1:
            raise AnchorMissing('%s has %d optional fields: its bit sequence is not a single bool (rule not written for that shape)' % (m.group(1), n_opt))
        if n_bool == n_opt and not bits:
            r.ok('%s: %d optional field(s), %d strict bool flag(s), no bit tests' % (m.group(1).rsplit('::', 1)[-1], n_opt, n_bool))
        else:
            r.finding('reply-flag-not-strict-bool:%s' % m.group(1).rsplit('::', 1)[-1], f.span, '%s::decode_from reads %d bool flag(s) for %d optional field(s)%s: a flag byte other than 0 or 1 is not rejected' % (
                m.group(1), n_bool, n_opt, (' and tests bits (%s)' % ', '.join(sorted(set(bits)))) if bits else ''))
    if n < 2:
        raise AnchorMissing('DecodeFrom impls of the reply structs (found %d)' % n)
    r.floor(2)


def r_no_foreign_calls(r, prog):
    """The compiler leaves the process as the Rust runtime set it up - in particular SIGPIPE stays ignored, which is what turns a generator
    that closes its stdin early into an `Err(BrokenPipe)` from write_all (reported, naming the generator) instead of a signal that kills
    slicec. Nothing in slicec (library or binary) calls a foreign function: no `extern "C"` item declared in the crates, nothing from libc."""
    n_unsafe = 0
    bad = []
    for f in prog.fns.values():
        if f.crate.tag not in ('slicec', 'slicec_bin') or f.generated:
            continue
        for c in f.calls():
            if f.blocks[c.bb].get('cleanup'):
                continue
            raw = c.raw.get('f', {})
            if raw.get('unsafe'):
                n_unsafe += 1
                res = raw.get('res') or raw.get('def') or ''
                if (raw.get('local') and res not in prog.fns and raw.get('rk') == 'item') or res.startswith('libc::'):
                    bad.append((f, c, res))
    if n_unsafe < 3:
        raise AnchorMissing('calls of unsafe functions in slicec (the flag the rule reads; found %d)' % n_unsafe)
    if bad:
        for f, c, res in bad[:3]:
            r.finding('foreign-function-called:%s' % res, c.span, '%s calls the foreign function %s: process-wide state (signal dispositions, ...) is no longer what the error handling around the generators relies on' % (f.path, res))
    else:
        r.ok('no foreign function is called from slicec (%d calls of unsafe functions looked at, all Rust items with bodies or std)' % n_unsafe)
    r.floor(1)


def r_reply_consumed_completely(r, prog):
    """A reply is the two sequences and nothing else: after decoding them the decoder must be at the end of the payload - `remaining() != 0`
    returns an error before anything from the reply is used (messages printed, files written). Bytes after the second sequence mean the
    generator printed something that is not a reply, or crashed half-way; a prefix that happens to decode is not to be trusted."""
    f = prog.fn('slicec_bin::handle_generator_response')
    decs = [c for c in f.calls() if c.name() == 'decode' and not f.blocks[c.bb].get('cleanup')]
    uses = [c for c in f.calls() if c.name() in ('write_generated_file', '_print', 'println', 'print') and not f.blocks[c.bb].get('cleanup')]
    if len(decs) < 2 or not uses:
        raise AnchorMissing('the two decode calls / the uses of the reply in handle_generator_response')
    ok = False
    shown = []
    for b, p_, ts, fs in bool_branches(f):
        if p_ is None:
            continue
        v = vexpr(f, {'cp': p_})
        m = re.match(r'^(Ne|Eq|Gt|Lt)\((.*)\)$', v)
        if not m or 'remaining(' not in v or not re.search(r'(^|,)0(,|$)', m.group(2)):
            continue
        shown.append(v)
        clean = fs if m.group(1) in ('Ne', 'Gt', 'Lt') else ts      # the edge on which nothing remains
        dirty = ts if clean == fs else fs
        errs = [a['bb'] for a in aggregates(prog, 'core::result::Result', 'Err') if a['fn'] is f and a['lhs']['l'] == 0 and not f.blocks[a['bb']].get('cleanup')]
        if all(f.dominates(d.bb, b) for d in decs) and all(f.edge_dominates(b, clean, u.bb) for u in uses) and errs and must_pass(f, dirty, f.return_blocks(), errs):
            ok = True
    if ok:
        r.ok('nothing of a reply is used unless the decoder is at the end of the payload after the two sequences (anything left over is an error)')
    else:
        r.finding('reply-not-consumed-completely', f.span, 'handle_generator_response uses the decoded reply without checking that nothing remains after the two sequences (%s): a reply followed by stray output - a crash message, a second reply - is accepted and its files are written' % (shown or 'no test of remaining()'))
    r.floor(1)


def run(ctx):
    prog = ctx.prog
    ctx.run_rule('C18.1a', 'T3', 'every generator failure is converted into an Error::IO naming the generator and extended into the diagnostics', r_converter_names_generator, prog)
    from props import c19 as _c19
    ctx.run_rule('C18.2b', 'T2', 'every started generator is sent the request followed by its own arguments dictionary', _c19.r_arguments_always_sent, prog)
    ctx.run_rule('C18.1c', 'T10', 'all three standard streams of a generator are pipes of the compiler', r_generator_streams_piped, prog)
    ctx.run_rule('C18.5', 'T7', 'rendering a decode error never panics: panic-site ledger over slice-codec (an undecodable reply is reported through Display of the codec\'s error)', c11.r_codec_panic_ledger, prog, getattr(ctx, 'config', 'default'))
    ctx.run_rule('C18.3b', 'T10', 'a collection decoder reads exactly the announced number of elements (a truncated sequence fails, it is not shortened)', _codec.r_element_count_is_announced, prog)
    ctx.run_rule('C18.1b', 'T3', 'every generator result is folded on every loop path; the wait loop has no early exit', c07.r_generator_results_folded, prog)
    ctx.run_rule('C18.1c', 'T7', 'no panic-capable site in the generator path', r_no_unwrap_in_generator_path, prog)
    ctx.run_rule('C18.1d', 'T5', 'every codec error can be rendered', c11.r_error_rendering, prog)
    ctx.run_rule('C18.1e', 'T1', 'reply decode errors are values', c11.r_reply_errors_are_values, prog)
    ctx.run_rule('C18.2', 'T10', 'identical request: encoded once, shared borrow, own arguments appended', r_identical_request, prog)
    ctx.run_rule('C18.3c', 'T3', 'presence flags of reply fields are decoded as strict bools', r_reply_flags_are_strict_bools, prog)
    ctx.run_rule('C18.7', 'T1', 'no foreign function is called (SIGPIPE stays ignored: a generator that closes stdin early is a reported write error)', r_no_foreign_calls, prog)
    ctx.run_rule('C18.3d', 'T2', 'a length announced by a reply never reaches an allocation unchecked (a reply that announces 2^62 bytes is an error naming the generator, not an abort)', _codec.r_announced_sizes, prog)
    ctx.run_rule('C18.3e', 'T2', 'a reply is the two sequences and nothing else: left-over bytes are an error before anything is used', r_reply_consumed_completely, prog)
    ctx.run_rule('C18.3', 'T2', 'only a fully decoded reply from a clean exit is trusted; generators are independent', r_only_decoded_reply_trusted, prog)
    ctx.run_rule('C18.4', 'T2', 'compare before write, on the very path that is written', r_compare_before_write, prog)
    ctx.run_rule('C18.5', 'T3', 'all generators are spawned before any is awaited', r_spawn_all_then_wait, prog)
    ctx.run_rule('C18.6', 'T10', 'exit status derives from the error count of the emitted vector (generator failures included)', c07.r_exit_status, prog)
