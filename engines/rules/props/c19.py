"""C19 - generator specifications parse back to the path and arguments that were written (structural clauses)."""
import re
import decisions
import rule_scopes
import guards

from mirlib import AnchorMissing, path_matches, op_place
from helpers import aggregates, field_accesses, loop_of, must_pass, vexpr, branches_on_call, ok_dominates
import panics

EXPLANATION = (
    'C19\'s core (the state machine computes the right path and pairs for every string) is a value-level function and is not decided. Decided on '
    'the MIR: (1) rejection instead of crash: every panic-capable site of plugin_parser is discharged (next() after peek() matched, last_mut() '
    'after push); (2) plugin_parser leaves only through Ok(Plugin) or Err(&str) and is installed as clap value parser of --generator; (3) the '
    'character loop consumes on every iteration; (4) structural tables of the syntax: the dispatch characters are exactly backslash, comma and '
    'equals; the escape look-ahead set is exactly {comma, equals}; path, keys and values are trimmed and the emptiness checks are applied to '
    'the trimmed path and keys; (5) arguments reach the generator unchanged: Plugin.path/.args are written only by plugin_parser, read only by '
    'spawn_plugin_process and the error path; the pairs are kept in an ordered Vec, cloned into Arguments and encoded as size then key, value in '
    'order.')
THOROUGH_RERUN = ['release']     # the same rules over the release build (no debug assertions): verified clean on the pinned tree
ASSUMPTIONS = ['rustc type checking and MIR construction', 'clap calls the declared value_parser for every -G value and turns Err into a usage error (exit status 2)']
PP = 'slicec::slice_options::plugin_parser'


def r_no_crash(r, prog):
    f = prog.fn(PP)
    ledger = panics.load_ledger('panic_sites.json')
    n = 0
    for g in [f] + prog.closures_of(f):
        for s in panics.sites_of(g):
            n += 1
            why = panics.auto_discharge(s, prog)
            if why:
                r.ok(s.key, why)
            elif s.key in ledger:
                r.ok(s.key, 'ledger: ' + ledger[s.key]['reason'])
            else:
                r.finding('panic-site:%s' % s.key, s.span, 'plugin_parser contains a panic-capable site (%s %s): a specification could crash the compiler instead of being rejected' % (s.kind, s.what))
    # last_mut().unwrap() follows a push on the same path (states Key / Value are entered only after a push)
    lm = [c for c in f.calls() if c.name() == 'last_mut']
    pushes = [c for c in f.calls() if c.name() == 'push' and vexpr(f, c.args[1]) == 'default()']
    lp = loop_of(f, lm[0].bb) if lm else None
    for c in lm:
        same_arm = pushes and any(f.dominates(p.bb, c.bb) for p in pushes)
        if same_arm:
            r.ok('last_mut() directly after pushing a new pair', c.span)
        else:
            # the '=' arm in state Key: state Key is only assigned in the block that pushed
            st = [bb for bb, j, lhs, rv, s in f.assigns() if f.local_name(lhs['l']) == 'state' and not lhs.get('p')
                  and ((rv['k'] == 'agg' and rv.get('v') == 'Key') or (rv['k'] == 'use' and vexpr(f, rv['a']) == 'State::Key{}'))]
            if st and pushes and all(any(f.dominates(p.bb, b) for p in pushes) for b in st):
                r.ok('last_mut() in state Key, which is only entered in the block that pushed a pair', c.span)
            else:
                r.finding('last-mut-without-push', c.span, 'plugin_parser calls last_mut().unwrap() on a path where no pair is known to have been pushed')
    r.floor(4)


def r_rejections_are_usage_errors(r, prog):
    f = prog.fn(PP)
    out = f.raw.get('output') or ''
    if re.match(r"^core::result::Result<slicec::slice_options::Plugin, &'?\w* ?str>$", out):
        r.ok('plugin_parser returns Result<Plugin, &str>', out)
    else:
        r.finding('parser-result-type', f.span, 'plugin_parser returns %s' % out)
    errs = [a for a in aggregates(prog, 'core::result::Result', 'Err') if a['fn'] is f]
    msgs = sorted(prog.literals_of(f))
    if len(errs) >= 3:
        r.ok('%d rejecting exits' % len(errs), '; '.join(m[:40] for m in msgs if 'missing' in m or 'once' in m))
    else:
        r.finding('rejections-missing', f.span, 'plugin_parser has %d Err exits (expected: second "=", missing path, missing key)' % len(errs))
    # installed as value parser: the clap derive closure mentions it as a function value
    prog.callgraph()
    users = [a for (a, b) in prog.cg_reason if b == PP and 'clap_builder::derive::Args' in a]
    if users:
        r.ok('plugin_parser is the value_parser of --generator (referenced by the clap derive)', users[0])
    else:
        r.finding('value-parser-not-installed', f.span, 'the clap derive of SliceOptions does not reference plugin_parser: -G values would not be validated')
    r.floor(3)


def r_loop_progress(r, prog):
    f = prog.fn(PP)
    loops = f.natural_loops()
    main = [l for l in loops if [c for c in f.calls() if c.bb in l[1] and c.name() == 'next' and 'chars(arg1)' in vexpr(f, c.args[0])]]
    if not main:
        raise AnchorMissing('character loop of plugin_parser')
    head, body = max(main, key=lambda l: len(l[1]))
    nx = [c.bb for c in f.calls() if c.bb in body and c.name() == 'next' and 'chars(arg1)' in vexpr(f, c.args[0])]
    if head in nx or all(must_pass(f, s, [head], nx, within=body) for s in f.succs(head) if s in body):
        r.ok('every iteration consumes at least one character of the specification')
    else:
        r.finding('state-machine-loop-without-progress', f.span, 'a path round the character loop does not consume a character')
    r.floor(1)


def r_syntax_tables(r, prog):
    f = prog.fn(PP)
    disp = esc = None
    for i, blk in enumerate(f.blocks):
        t = blk['t']
        if t['k'] == 'switch' and t['ty'] == 'char':
            ex = vexpr(f, t['d'])
            vals = sorted(int(v) for v, _ in t['ts'])
            if ex.startswith('next('):
                disp = vals
            elif ex.startswith('peek('):
                esc = vals
    if disp == [44, 61, 92]:
        r.ok('dispatch characters are exactly "," "=" and backslash')
    else:
        r.finding('dispatch-characters', f.span, 'the state machine dispatches on %s (expected [44, 61, 92])' % disp)
    if esc == [44, 61]:
        r.ok('a backslash escapes exactly "," and "="; any other backslash is literal')
    else:
        r.finding('escape-set', f.span, 'the backslash look-ahead accepts %s (expected [44, 61]: "," and "="): other backslashes would be swallowed' % esc)
    # trimming and validation of the trimmed values
    empt = [c for c in f.calls() if c.name() == 'is_empty']
    tr = [vexpr(f, c.args[0]) for c in empt]
    cl = prog.closures_of(f)
    trims = [(g, c) for g in cl for c in g.calls() if c.name() == 'trim']
    path_ok = any(e.startswith('to_owned(trim(') for e in tr)
    key_ok = any('map(' in e and e.endswith('.0') for e in tr)
    if not key_ok:
        # second idiom: args.iter().any(|(key, _)| key.is_empty()) over the collected, already trimmed pairs
        inner = [g for g in cl if any(c.name() == 'is_empty' and vexpr(g, c.args[0]) == 'arg2.0' for c in g.calls())]
        key_ok = bool(inner) and any(c.name() == 'any' and 'map(' in vexpr(f, c.args[0]) and not f.blocks[c.bb].get('cleanup') for c in f.calls())
    if path_ok:
        r.ok('the path is trimmed and the missing-path check looks at the trimmed path')
    else:
        r.finding('path-validated-before-trim', f.span, 'the missing-path check is applied to %s, not to the trimmed path' % tr)
    if key_ok and len(trims) >= 2:
        r.ok('keys and values are trimmed and the missing-key check looks at the trimmed key')
    else:
        r.finding('key-validated-before-trim', f.span, 'the missing-key check is applied to %s, not to the trimmed key (%d trim call(s) in the mapping closure)' % (tr, len(trims)))
    pl = [a for a in aggregates(prog, 'slicec::slice_options::Plugin') if a['fn'] is f]
    if pl:
        ops = dict(zip(pl[0]['rv']['fn'], pl[0]['rv']['ops']))
        if vexpr(f, ops['path']).startswith('to_owned(trim(') and 'map(' in vexpr(f, ops['args']):
            r.ok('Plugin { trimmed path, trimmed pairs in order }')
        else:
            r.finding('plugin-fields', pl[0]['span'], 'Plugin is built from path=%s args=%s' % (vexpr(f, ops['path'])[:40], vexpr(f, ops['args'])[:40]))
    # no reordering / de-duplication of the pairs
    bad = [c for c in f.calls() if c.name() in ('sort', 'sort_by', 'sort_by_key', 'dedup', 'dedup_by_key', 'reverse', 'retain', 'rev')]
    if bad:
        r.finding('pairs-reordered', bad[0].span, 'plugin_parser calls %s on the argument pairs' % bad[0].name())
    r.floor(5)


def r_arguments_unchanged(r, prog):
    PL = 'slicec::slice_options::Plugin'
    for fld in ('path', 'args'):
        for a in field_accesses(prog, PL, fld, crates=('slicec', 'slicec_bin')):
            f = a['fn']
            base = f.path.split('::{closure')[0]
            if (f.impl_trait or '').startswith(('core::fmt', 'core::clone')):
                continue
            if a['kind'] in ('write', 'refmut', 'init'):
                if base == PP:
                    r.ok('Plugin.%s written in plugin_parser' % fld)
                else:
                    r.finding('plugin-field-written:%s:%s' % (fld, base), a['span'], 'Plugin.%s is written in %s' % (fld, base))
            else:
                if base in ('slicec_bin::spawn_plugin_process', 'slicec_bin::convert_generator_error_to_diagnostic'):
                    r.ok('Plugin.%s read in %s' % (fld, base.rsplit('::', 1)[-1]))
                else:
                    r.finding('plugin-field-read:%s:%s' % (fld, base), a['span'], 'Plugin.%s is read in %s' % (fld, base))
    adt = prog.adts[PL]
    ty = [f['ty'] for f in adt['variants'][0]['fields'] if f['n'] == 'args'][0]
    if ty == 'alloc::vec::Vec<(alloc::string::String, alloc::string::String)>':
        r.ok('the pairs are kept in an ordered Vec<(String, String)>')
    else:
        r.finding('pairs-container', '-', 'Plugin.args is a %s: order or repeated keys would be lost' % ty)
    A = 'slicec_bin::definition_types::Arguments'
    aty = prog.adts[A]['variants'][0]['fields'][0]['ty']
    if aty == 'alloc::vec::Vec<(alloc::string::String, alloc::string::String)>':
        r.ok('Arguments wraps the same ordered Vec')
    else:
        r.finding('arguments-container', '-', 'definition_types::Arguments wraps %s: the arguments would not reach the generator in order / with repeated keys' % aty)
    sp = prog.fn('slicec_bin::spawn_plugin_process')
    ag = [a for a in aggregates(prog, A) if a['fn'] is sp]
    if ag and vexpr(sp, ag[0]['rv']['ops'][0]) == 'clone(arg1.args)':
        r.ok('Arguments(plugin.args.clone())')
    else:
        r.finding('arguments-source', sp.span, 'Arguments is built from %s' % ([vexpr(sp, a['rv']['ops'][0]) for a in ag]))
    enc = [f for f in prog.fns.values() if f.path == '<%s as slice_codec::encode_into::EncodeInto>::encode_into' % A]
    if not enc:
        raise AnchorMissing('EncodeInto for Arguments')
    e = enc[0]
    import props.c08 as c08
    tr8 = c08._trace(prog, e)
    shape = c08.arguments_shape(prog, e, tr8)
    if shape == c08.ARGUMENTS_SHAPE and not [c for c in e.calls() if c.name() in ('rev', 'sort', 'collect')]:
        r.ok('encoded as size, then key, value of each pair in order')
    else:
        r.finding('arguments-encoding', e.span, 'Arguments is not encoded as encode_size(len) followed by key then value of each pair in order')
    r.floor(9)



def r_plugin_parser_preconditions(r, prog):
    guards.evaluate(r, prog, rule_scopes.guards_plugin_parser, 'guards_plugin_parser.json', 15)

def r_arguments_always_sent(r, prog):
    """Every generator that is started is sent the request and then its arguments dictionary - also when it has no arguments (an empty
    dictionary is one byte): a successful return of spawn_plugin_process has passed both writes, in that order, and the second write is the
    encoded Arguments(plugin.args)."""
    sp = prog.fn('slicec_bin::spawn_plugin_process')
    ws = [c for c in sp.calls() if c.name() == 'write_all' and not sp.blocks[c.bb].get('cleanup')]
    enc = [c for c in sp.calls() if c.name() == 'encode' and not sp.blocks[c.bb].get('cleanup') and 'Arguments' in vexpr(sp, c.args[1])]
    oks = [a['bb'] for a in aggregates(prog, 'core::result::Result', 'Ok') if a['fn'] is sp and not sp.blocks[a['bb']].get('cleanup') and a['lhs']['l'] == 0]
    if len(ws) < 2 or not enc or not oks:
        r.finding('arguments-not-sent', sp.span, 'spawn_plugin_process has %d write(s) to the generator and %d Arguments encoding(s)' % (len(ws), len(enc)))
        r.floor(1)
        return
    req = [c for c in ws if vexpr(sp, c.args[1]) == 'arg2']
    arg = [c for c in ws if c not in req]
    probs = []
    if len(req) != 1 or len(arg) != 1:
        probs.append('%d write(s) of the request and %d other write(s)' % (len(req), len(arg)))
    else:
        if not all(must_pass(sp, 0, [b], [req[0].bb]) and must_pass(sp, 0, [b], [arg[0].bb]) and must_pass(sp, 0, [b], [enc[0].bb]) for b in oks):
            probs.append('a successful return does not pass the request write, the encoding of the arguments and the arguments write on every path (the arguments are skipped under some condition)')
        if not (sp.dominates(req[0].bb, arg[0].bb) and sp.dominates(enc[0].bb, arg[0].bb)):
            probs.append('the arguments are not written after the request / after being encoded')
    if probs:
        r.finding('arguments-not-always-sent', sp.span, '; '.join(probs))
    else:
        r.ok('request, then the encoded arguments dictionary, are written on every path that returns the started generator')
    r.floor(1)


def r_encoders_grow(r, prog):
    """What is sent to a generator - the request and its arguments - is encoded into a growable buffer: no length of a valid command line or
    program makes the encoder run out of space (a fixed-size target turns a long argument list into an end-of-buffer error after the
    generator has already been started and sent the request)."""
    n = 0
    for name in ('slicec_bin::spawn_plugin_process', 'slicec_bin::encode_generate_code_request'):
        f = prog.fn(name)
        encs = [c for c in f.calls() if c.name() == 'encode' and 'encoder::Encoder' in (c.resolved or '') and not f.blocks[c.bb].get('cleanup')]
        if not encs:
            raise AnchorMissing('Encoder::encode calls in %s' % name)
        for c in encs:
            n += 1
            tgt = c.targs[0] if c.targs else '?'
            if 'VecOutputTarget' in tgt:
                r.ok('%s encodes %s into a growable target' % (name.rsplit('::', 1)[-1], (c.targs[1] if len(c.targs) > 1 else '?').rsplit('::', 1)[-1]))
            else:
                r.finding('encoded-into-fixed-buffer:%s' % name.rsplit('::', 1)[-1], c.span, '%s encodes into %s: a value longer than that buffer fails with UnexpectedEob and never reaches the generator' % (name, tgt))
    r.floor(4)


def run(ctx):
    prog = ctx.prog
    ctx.run_rule('C19.1', 'T7', 'no undischarged panic site in plugin_parser', r_no_crash, prog)
    ctx.run_rule('C19.2', 'T1', 'rejections are Err(&str) of the installed clap value parser', r_rejections_are_usage_errors, prog)
    ctx.run_rule('C19.3', 'T9', 'the character loop consumes on every iteration', r_loop_progress, prog)
    ctx.run_rule('C19.4', 'T6', 'syntax tables: dispatch set, escape set, trimming and validation of trimmed values', r_syntax_tables, prog)
    ctx.run_rule('C19.8', 'T2', 'every started generator is sent its arguments dictionary after the request, also when it is empty', r_arguments_always_sent, prog)
    ctx.run_rule('C19.9', 'T1', 'request and arguments are encoded into growable buffers (no length limit on a valid specification)', r_encoders_grow, prog)
    ctx.run_rule('C19.5', 'T1', 'arguments reach the generator unchanged and in order', r_arguments_unchanged, prog)
    ctx.run_rule('C19.6', 'T13', 'conditions under which plugin_parser opens a pair, switches state, trims, rejects and returns (precondition ledger)', r_plugin_parser_preconditions, prog)
    ctx.run_rule('C19.7', 'T6', 'rejection reasons, argument opening and no removal (decision table of plugin_parser)', decisions.r_plugin_parser_decisions, prog)
