"""C05 - illegal cycles are always diagnosed; none of them makes a later phase recurse forever."""
import re

import guards

from mirlib import AnchorMissing, op_place, path_matches, is_bare, place_projs
from helpers import (base_local, branches_on_call, closure_of_arg, comes_from_call, enum_switches, edge_region, eq_branches, must_pass, origin_calls, ungated_reach, chain,
                     aggregates, arm, field_accesses, loop_of, vexpr, bool_branches)

EXPLANATION = (
    'Static decision of the structural clauses of C05 on the MIR of slicec: (1) in validate_ast the cycle detector runs first '
    'and everything else (redefinition scan, visitor pass, hence every recursive consumer of types and of the base-interface '
    'closure) is dominated by the no-errors edge tested after it; the validators have no other entry; (2) the detector traverses '
    'every wrapper form and container: each variant of Types whose payload holds TypeRef fields recurses into every such field '
    'on every path, every payload implementing CycleCandidate is pushed and checked, every impl of Container<Field> is handed to '
    'the field scan, detection starts from every Node variant holding a CycleCandidate and from interfaces; (3) the recursive '
    'descent is preceded by the comparison with the type being checked and by the scan of the dependency stack, both with a '
    'returning edge, and push/pop are paired; (4) the alias-chain loop leaves on a membership test, grows the chain on every '
    'iteration and produces E019 on that edge; (5) the inheritance search only expands bases not yet visited. It decides these '
    'clauses on all paths, not the exactness of the reported cycles for particular graphs.')
THOROUGH_RERUN = ['release']     # the same rules over the release build (no debug assertions): verified clean on the pinned tree
ASSUMPTIONS = ['rustc type checking and MIR construction', 'HashSet::insert / Vec::contains behave as documented']

V = 'slicec::validators::'
CD = V + 'cycle_detection::'
HAS_ERRORS = 'diagnostics::diagnostic::Diagnostics::has_errors'


def r_cycles_first(r, prog):
    va = prog.fn(V + 'validate_ast')
    dc = va.calls_to(CD + 'detect_cycles')
    if len(dc) != 1:
        raise AnchorMissing('exactly one call of detect_cycles in validate_ast (found %d)' % len(dc))
    dc = dc[0]
    # the has_errors() test evaluated after detect_cycles on the same container
    guards = []
    for b in branches_on_call(va, HAS_ERRORS):
        if va.dominates(dc.bb, b['bb']) and b['false'] != b['true']:
            o1 = {str(t) for t in va.origin(b['call'].args[0])}
            o2 = {str(t) for t in va.origin(dc.args[1])}
            if o1 & o2:
                # no other call between detect_cycles and the test that could run a recursive phase
                guards.append(b)
    if not guards:
        r.finding('no-error-test-after-detect-cycles', dc.span, 'validate_ast does not test has_errors() on the diagnostics after detect_cycles')
        return
    first = min(guards, key=lambda b: len(va.dominators().get(b['bb'], ())))
    region = edge_region(va, first['bb'], first['false'])
    for c in va.calls():
        res = c.resolved or ''
        if c is dc or c is first['call']:
            continue
        if res.startswith('slicec::') and not path_matches(res, HAS_ERRORS):
            # every slicec function called by validate_ast other than the detector must be behind the guard
            if c.bb in region:
                r.ok('%s behind the post-cycle-detection guard' % res, c.span)
            else:
                if c.bb in va.reachable(0) and not va.dominates(first['bb'], c.bb) and va.dominates(c.bb, dc.bb):
                    # runs before detect_cycles: only harmless constructors are allowed there
                    r.finding('phase-before-cycle-detection:%s' % res, c.span, '%s runs before detect_cycles in validate_ast' % res)
                else:
                    r.finding('ungated-after-cycle-detection:%s' % res, c.span,
                              '%s is called in validate_ast on a path that is not dominated by the no-errors edge tested after detect_cycles: '
                              'a recursive validator could run on a cyclic definition' % res)
    # the true (errors) edge must lead to return without calling anything
    err_reach = va.reachable(first['true'])
    bad = [c for c in va.calls() if c.bb in err_reach and c.bb not in region and (c.resolved or '').startswith('slicec::') and c.bb != first['bb'] and not va.dominates(c.bb, first['bb'])]
    if bad:
        r.finding('error-edge-continues', bad[0].span, 'after cycle errors validate_ast still calls %s' % bad[0].resolved)
    else:
        r.ok('error edge after detect_cycles returns without further validation')
    r.floor(3)


def r_validators_single_entry(r, prog):
    """No function of the validators module is called from outside it except validate_ast (installed via apply)."""
    prog.callgraph()
    n = 0
    for (a, b), why in prog.cg_reason.items():
        inb = b.startswith(V) or ('<' in b and ' as ' + V in b) or ('for ' + V in b)
        ina = a.startswith(V) or (' as ' + V in a) or ('impl ' in a and V in a)
        if b.startswith(V) and not a.startswith(V) and not a.startswith('<') :
            n += 1
            if b == V + 'validate_ast' and a == 'slicec::compile_files':
                r.ok('validate_ast installed by compile_files')
            else:
                r.finding('validator-called-from-outside:%s:from:%s' % (b, a), prog.fns[a].span,
                          '%s (validators module) is referenced from %s: the validators assume that cycle detection already ran' % (b, a))
    r.floor(1)


def _typeref_fields(prog, adt_path):
    adt = prog.adts.get(adt_path)
    if not adt or adt['kind'] != 'struct':
        return []
    return [f['n'] for f in adt['variants'][0]['fields'] if f['ty'].startswith('slicec::grammar::elements::type_ref::TypeRef')]


def _payload_adt(ty):
    m = re.match(r"^&(?:'\w+ )?(?:mut )?([\w:#]+)", ty)
    return m.group(1) if m else None



def _dead_end_edges(prog, f):
    """(bb, target) edges on which a function of the detector returns because the type is a recorded dead end"""
    out = []
    for b in branches_on_call(f, lambda c: c.name() == 'contains' and re.search(r'dead_ends', vexpr(f, c.args[0]))):
        out.append((b['bb'], b['true']))
    return out


def _collected_and_iterated(prog, f, sw, tgt, fld, rets):
    """the arm stores a reference to payload.<fld> into a list, and the function then recurses into every element of that list"""
    others = [x for k, x in sw['arms'].items() if x != tgt] + ([sw['otherwise']] if sw['otherwise'] != tgt else [])
    region = f.reachable(tgt, blocked=others)
    stored = False
    for bb, j, lhs, rv, s in f.assigns():
        if bb in region and rv['k'] == 'ref':
            names = [x.get('n') for x in rv['p'].get('p', []) if isinstance(x, dict) and 'f' in x]
            if names and names[-1] == fld:
                stored = True
    rec = [c for c in f.calls() if path_matches(c.resolved, 'check_field_type_for_cycles') and loop_of(f, c.bb) is not None and re.match(r'^next\(into_iter\(', vexpr(f, c.args[1]))]
    if not (stored and rec):
        return False
    head = loop_of(f, rec[0].bb)[0]
    return must_pass(f, tgt, rets, [head], unwind=False) or bool(_must_pass_cut(f, tgt, rets, [head], _dead_end_edges(prog, f)))


def _must_pass_cut(f, start, targets, through, cut_edges):
    reach = f.reachable(start, blocked=list(through), blocked_edges=cut_edges)
    return not (reach & set(targets))

def _delegated_to_nested_types_of(prog, f):
    """the function takes the nested references of its type_ref from nested_types_of(type_ref) (whose coverage of every wrapper form is rule
    C05.6b) and recurses into every one of them in one loop over that list; the only way round the loop is a recorded dead end"""
    nt = [c for c in f.calls() if c.name() == 'nested_types_of' and not f.blocks[c.bb].get('cleanup') and vexpr(f, c.args[0]) == 'arg2']
    if len(nt) != 1:
        return False
    recs = [c for c in f.calls() if path_matches(c.resolved, 'check_field_type_for_cycles') and not f.blocks[c.bb].get('cleanup')]
    loops = f.natural_loops()
    for c in recs:
        lp = loop_of(f, c.bb)
        if lp is None:
            continue
        head, body = lp
        nx = [x for x in f.calls() if x.name() == 'next' and x.bb in body and 'nested_types_of(arg2) as Some.0' in vexpr(f, x.args[0])]
        if nx and vexpr(f, c.args[1]).startswith('next(') and 'nested_types_of(arg2) as Some.0' in vexpr(f, c.args[1]) \
                and must_pass(f, head, [head] + f.return_blocks(), [c.bb] + [b for b in body if f.blocks[b]['t']['k'] == 'switch' and b == head] , within=body | set(f.return_blocks())) is not None:
            # every iteration that yields an element recurses into it
            yields = [s_ for s_ in enum_switches(f, 'core::option::Option') if s_['bb'] in body and s_['place'] is not None and nx[0].dest is not None and s_['place']['l'] == nx[0].dest['l']]
            if yields and must_pass(f, arm(yields[0], 1), [head], [c.bb], within=body):
                # and the loop is reached whenever nested_types_of gave a list, unless a dead-end test fired
                some = [s_ for s_ in enum_switches(f, 'core::option::Option') if s_['place'] is not None and nt[0].dest is not None and s_['place']['l'] == nt[0].dest['l']]
                cut = _dead_end_edges(prog, f)
                if some:
                    open_blocks = f.reachable(arm(some[0], 1), blocked=[head], blocked_edges=cut)
                    if not [b for b in f.return_blocks() if b in open_blocks]:
                        return True
    return False


def r_wrapper_coverage(r, prog):
    f = prog.fn(CD + "CycleDetector::<'a>::check_field_type_for_cycles")
    types_adt = 'slicec::grammar::wrappers::Types'
    sw = enum_switches(f, types_adt)
    if len(sw) != 1:
        raise AnchorMissing('one match on Types in check_field_type_for_cycles (found %d)' % len(sw))
    sw = sw[0]
    cands = {i['self_adt'] for i in prog.impls_of(CD + 'CycleCandidate')}
    if len(cands) < 2:
        raise AnchorMissing('impls of CycleCandidate')
    rets = f.return_blocks()
    variants = prog.adts[types_adt]['variants']
    # the dispatch itself is reached on every path: no position (optional, tagged, ...) is exempt from the traversal
    if must_pass(f, 0, rets, [sw['bb']]):
        r.ok('every path through check_field_type_for_cycles reaches the match on the concrete type')
    else:
        r.finding('traversal-skipped-before-dispatch', f.span,
                  'check_field_type_for_cycles can return before looking at the concrete type: cycles through the exempted positions are not diagnosed')
    ct = [c for c in f.calls() if c.name() == 'concrete_type' and origin_calls(f, sw['place']) and f.dominates(c.bb, sw['bb'])]
    if ct and any(t[0] == 'arg' and t[1] == 2 for t in f.origin(ct[0].args[0], wide=True)):
        r.ok('the match is on the concrete type of the type reference being checked')
    else:
        r.finding('dispatch-not-on-checked-type', f.span, 'the match in check_field_type_for_cycles is not on concrete_type() of its type_ref parameter')
    for vi, v in enumerate(variants):
        payload = _payload_adt(v['fields'][0]['ty']) if v['fields'] else None
        tgt = sw['arms'].get(vi, sw['otherwise'])
        trf = _typeref_fields(prog, payload) if payload else []
        if payload in cands:
            calls = [c for c in f.calls() if path_matches(c.resolved, 'push_to_stack_and_check')]
            # the call that receives this payload
            mine = [c for c in calls if any(t[0] in ('rv', 'agg', 'unknown', 'call', 'arg') for t in f.origin(c.args[1])) and c.bb in f.reachable(tgt)]
            if mine and must_pass(f, tgt, rets, [c.bb for c in mine]):
                r.ok('Types::%s -> push_to_stack_and_check on every path' % v['n'])
            else:
                r.finding('candidate-not-descended:%s' % v['n'], f.span, 'the Types::%s arm does not hand the %s to push_to_stack_and_check on every path: cycles through it are missed' % (v['n'], payload))
        elif trf:
            for fld in trf:
                calls = []
                for c in f.calls():
                    if path_matches(c.resolved, 'check_field_type_for_cycles') and c.bb in f.reachable(tgt):
                        for t in f.origin(c.args[1]):
                            if t[2] and t[2][-1] == '.' + fld:
                                calls.append(c)
                if calls and must_pass(f, tgt, rets, [c.bb for c in calls]):
                    r.ok('Types::%s: recursion into %s.%s on every path' % (v['n'], payload.rsplit('::', 1)[-1], fld))
                elif _collected_and_iterated(prog, f, sw, tgt, fld, rets):
                    r.ok('Types::%s: %s.%s is collected and every collected reference is recursed into (dead ends apart)' % (v['n'], payload.rsplit('::', 1)[-1], fld))
                elif _delegated_to_nested_types_of(prog, f):
                    r.ok('Types::%s: %s.%s is among the references nested_types_of hands back (rule C05.6b), each of which is recursed into (dead ends apart)' % (v['n'], payload.rsplit('::', 1)[-1], fld))
                else:
                    r.finding('wrapper-field-not-traversed:%s.%s' % (v['n'], fld), f.span,
                              'the Types::%s arm does not recurse into %s on every path: a cycle routed through that position is not detected' % (v['n'], fld))
        else:
            r.ok('Types::%s is terminal (no TypeRef field, not a CycleCandidate)' % v['n'])
    r.floor(9, 'Types variants')


def _direct_field_scans(prog, fn):
    """the field scan written out where it is needed instead of through check_fields_for_cycles: a loop over `<A as Container<Field>>::contents(x)`
    whose every pass hands data_type(field) and the field itself to check_field_type_for_cycles. Returns [(A, the contents() call)]."""
    out = []
    for c in fn.calls():
        m = re.match(r'^<([\w:#]+) as slicec::grammar::traits::Container<slicec::grammar::elements::field::Field>>::contents$', c.resolved or '')
        if not m or fn.blocks[c.bb].get('cleanup'):
            continue
        src = vexpr(fn, {'cp': c.dest}) if c.dest is not None else None
        for k in fn.calls_to('check_field_type_for_cycles'):
            lp = loop_of(fn, k.bb)
            if lp is None or fn.blocks[k.bb].get('cleanup'):
                continue
            head, body = lp
            elem = vexpr(fn, k.args[2])
            dts = [d for d in fn.calls() if d.name() == 'data_type' and d.bb in body and base_local(fn, d.args[0]) == base_local(fn, k.args[2])]
            if not re.match(r'^next\(into_iter\(contents\(.*\)\)\) as Some\.0$', elem) or not dts or not vexpr(fn, k.args[1]).startswith('data_type('):
                continue
            # the loop runs over what this very contents() call returned
            its = [i for i in fn.calls() if i.name() == 'into_iter' and fn.dominates(i.bb, head) and i.bb not in body and vexpr(fn, i.args[0]).startswith('contents(')
                   and base_local(fn, i.args[0]) == c.dest.get('l')]
            if not its or not fn.dominates(c.bb, its[0].bb):
                continue
            ok = False
            for e in enum_switches(fn):
                if e['bb'] in body and 1 in e['arms'] and loop_of(fn, e['bb'])[0] == head:
                    ok = must_pass(fn, e['arms'][1], [head], [k.bb])
            if ok:
                out.append((m.group(1), c))
    return out


def r_container_coverage(r, prog):
    # every impl of Container<Field> is scanned by check_fields_for_cycles
    conts = set()
    for i in prog.impls_of('slicec::grammar::traits::Container'):
        if i['trait_args'] and i['trait_args'][-1].endswith('elements::field::Field'):
            conts.add(i['self_adt'])
    if len(conts) < 2:
        raise AnchorMissing('impls of Container<Field> (found %s)' % sorted(conts))
    given = set()
    cff = CD + "CycleDetector::<'a>::check_fields_for_cycles"
    for c in prog.callers_of(cff):
        fn = c.fn
        for bb, j, lhs, rv, s in fn.assigns():
            if rv['k'] == 'cast' and 'Unsize' in rv['ck'] and 'Container<slicec::grammar::elements::field::Field>' in rv['ty']:
                a = _payload_adt(rv['from'])
                if a:
                    given.add((a, fn.path))
    for fn in prog.fns.values():
        if fn.path.startswith(CD) or 'cycle_detection::CycleCandidate' in fn.path:
            for a, c in _direct_field_scans(prog, fn):
                given.add((a, fn.path))
    for a in sorted(conts):
        hit = [g for g in given if g[0] == a]
        if hit:
            r.ok('Container<Field> for %s scanned' % a, hit[0][1])
        else:
            r.finding('field-container-not-scanned:%s' % a, '-', 'fields held by %s are never handed to check_fields_for_cycles (the #689 regression class)' % a)
    # check_fields_for_cycles checks the type of every field
    f = prog.fns.get(cff)
    inner = f.calls_to('check_field_type_for_cycles') if f is not None else []
    if f is None:
        if not given:
            raise AnchorMissing('check_fields_for_cycles, or the field scan written out in the candidates')
        r.ok('no shared field scan: the candidates walk their fields themselves (each loop checked where it stands)')
    elif not inner:
        r.finding('field-scan-does-nothing', f.span, 'check_fields_for_cycles never calls check_field_type_for_cycles')
    else:
        lp = loop_of(f, inner[0].bb)
        nxt = [c for c in f.calls() if c.name() == 'next']
        ok = False
        if lp and nxt:
            head, body = lp
            # from the Some edge of next() every path back to the head passes the check
            for e in enum_switches(f):
                if e['bb'] in body and origin_calls(f, e['place']) and 1 in e['arms']:
                    ok = must_pass(f, e['arms'][1], [head], [c.bb for c in inner])
            dt = [c for c in f.calls() if c.name() == 'data_type' and c.bb in body]
            ok = ok and bool(dt)
        if ok:
            r.ok('check_fields_for_cycles: every field\'s data_type is checked')
        else:
            r.finding('field-scan-skips-fields', f.span, 'check_fields_for_cycles does not check the data type of every field on every loop path')
    # Enum's impl visits every enumerator
    for m in prog.impl_methods(CD + 'CycleCandidate', 'check_for_cycles'):
        cs = m.calls_to('check_fields_for_cycles') + [c for a, c in _direct_field_scans(prog, m)]
        if not cs:
            r.finding('candidate-impl-scans-nothing:%s' % m.impl_adt, m.span, '%s::check_for_cycles never scans fields' % m.impl_adt)
            continue
        rets = m.return_blocks()
        lp = loop_of(m, cs[0].bb)
        if lp is None:
            if must_pass(m, 0, rets, [c.bb for c in cs]):
                r.ok('%s::check_for_cycles scans its fields on every path' % m.impl_adt)
            else:
                r.finding('candidate-impl-conditional:%s' % m.impl_adt, m.span, '%s::check_for_cycles skips the field scan on some path' % m.impl_adt)
        else:
            head, body = lp
            good = False
            for e in enum_switches(m):
                if e['bb'] in body and 1 in e['arms'] and loop_of(m, e['bb'])[0] == head:
                    good = must_pass(m, e['arms'][1], [head], [c.bb for c in cs])
            src = [c for c in m.calls() if c.name() in ('enumerators', 'contents')]
            if good and src:
                r.ok('%s::check_for_cycles scans every element of %s()' % (m.impl_adt, src[0].name()))
            else:
                r.finding('candidate-impl-skips-elements:%s' % m.impl_adt, m.span, '%s::check_for_cycles does not scan every enumerator' % m.impl_adt)
    r.floor(5)


def r_detect_roots(r, prog):
    f = prog.fn(CD + 'detect_cycles')
    node = 'slicec::ast::node::Node'
    sws = [x for x in enum_switches(f, node) if len(x['arms']) >= 2]      # the candidate dispatch (the alias pre-pass tests a single variant)
    if len(sws) != 1:
        raise AnchorMissing('one multi-arm match on Node in detect_cycles')
    sw = sws[0]
    cands = {i['self_adt'] for i in prog.impls_of(CD + 'CycleCandidate')}
    variants = prog.adts[node]['variants']
    lp = loop_of(f, sw['bb'])
    if lp is None:
        raise AnchorMissing('detect_cycles iterates the AST in a loop')
    head, body = lp
    chk = [c for c in f.calls() if path_matches(c.callee, 'CycleCandidate::check_for_cycles')]
    for vi, v in enumerate(variants):
        pty = v['fields'][0]['ty'] if v['fields'] else ''
        m = re.search(r'OwnedPtr<([\w:#]+)>', pty)
        payload = m.group(1) if m else None
        tgt = sw['arms'].get(vi, sw['otherwise'])
        if payload in cands:
            if vi in sw['arms'] and chk and must_pass(f, tgt, [head], [c.bb for c in chk]):
                r.ok('Node::%s is a root of the cycle search' % v['n'])
            else:
                r.finding('candidate-not-a-root:%s' % v['n'], f.span, 'detect_cycles does not start a search from Node::%s although %s is a CycleCandidate' % (v['n'], payload))
        elif payload == 'slicec::grammar::elements::interface::Interface':
            ic = [c for c in f.calls() if c.bb in f.reachable(tgt, blocked=[head]) and 'inherit' in (c.resolved or '').lower()]
            if vi in sw['arms'] and ic and must_pass(f, tgt, [head], [c.bb for c in ic]):
                r.ok('Node::Interface is checked for inheritance loops')
            else:
                r.finding('interfaces-not-checked-for-inheritance-loops', f.span,
                          'detect_cycles has no arm for Node::Interface that checks the interface for inheritance loops; all_base_interfaces recurses without a guard')
    # type_being_checked is set before each search
    setters = [a for a in field_accesses(prog, 'CycleDetector', 'type_being_checked') if a['kind'] == 'write' and a['fn'] is f]
    if setters and chk and all(must_pass(f, sw['arms'][vi], [c.bb for c in chk], [s['bb'] for s in setters]) for vi in sw['arms'] if
                                 variants[vi]['n'] in ('Struct', 'Enum')):
        r.ok('type_being_checked assigned before every search')
    else:
        r.finding('type-being-checked-not-set', f.span, 'detect_cycles starts a search without assigning type_being_checked first')
    r.floor(4)


def _stack_scan_any(prog, f):
    """Second idiom of the on-stack test: `self.dependency_stack.iter().any(|(id, _)| id == &candidate_id)` branched on directly. Returns
    eq_branches-like entries (bb, call, equal = the edge taken when the candidate is on the stack, differ, scan=True)."""
    out = []
    for b in branches_on_call(f, lambda c: c.name() == 'any' and vexpr(f, c.args[0]) in ('iter(arg1.dependency_stack)', 'into_iter(arg1.dependency_stack)')):
        c = b['call']
        g = closure_of_arg(prog, f, c.args[1])
        if g is None or 'module_scoped_identifier' not in vexpr(f, c.args[1]):
            continue
        if vexpr(g, {'cp': {'l': 0}}, depth=6) in ('eq(arg2.0,arg1.0)', 'eq(arg1.0,arg2.0)'):
            out.append({'bb': b['bb'], 'call': c, 'equal': b['true'], 'differ': b['false'], 'scan': True})
    return out


def r_recursion_guard(r, prog):
    f = prog.fn(CD + "CycleDetector::<'a>::push_to_stack_and_check")
    rec = [c for c in f.calls() if path_matches(c.callee, 'CycleCandidate::check_for_cycles')]
    if not rec:
        raise AnchorMissing('recursive check_for_cycles call in push_to_stack_and_check')
    eqs = eq_branches(f)
    cand_id = lambda op: any(t[0] == 'call' and t[1].name() == 'module_scoped_identifier' for t in f.origin(op, wide=True))
    from_field = lambda op, fld: any(('.' + fld) in t[2] for t in f.origin(op, wide=True) if t[0] in ('arg', 'call', 'rv', 'agg'))
    g1 = [e for e in eqs if any(cand_id(a) for a in e['call'].args) and any(from_field(a, 'type_being_checked') for a in e['call'].args)]
    g2 = [e for e in eqs if any(cand_id(a) for a in e['call'].args) and any(from_field(a, 'dependency_stack') for a in e['call'].args)]
    g2 += _stack_scan_any(prog, f)
    for c in rec:
        # guard 1: equal to the type being checked -> never recurse
        if g1 and all(c.bb not in f.reachable(e['equal']) or f.edge_dominates(e['bb'], e['differ'], c.bb) for e in g1) and \
                any(f.dominates(e['bb'], c.bb) and c.bb not in f.reachable(e['equal'], blocked=[e['bb']]) for e in g1):
            r.ok('recursion is off the "candidate == type being checked" edge', c.span)
        else:
            r.finding('no-self-comparison-before-recursion', c.span,
                      'the recursive check_for_cycles call is not dominated by the differ-edge of a comparison of the candidate with type_being_checked')
        # guard 2: membership scan of the dependency stack, with an equal-edge that returns
        ok2 = False
        for e in g2:
            if e.get('scan'):
                # `any` walks the whole stack unless it finds a match: the recursion must be off its true edge
                if f.dominates(e['bb'], c.bb) and c.bb not in f.reachable(e['equal']):
                    ok2 = True
                continue
            lp = loop_of(f, e['bb'])
            if lp is None:
                continue
            head, body = lp
            if f.dominates(head, c.bb) and c.bb not in body and c.bb not in f.reachable(e['equal'], blocked=[head]):
                # the scan iterates the whole stack: its only other exit is iterator exhaustion
                ok2 = True
        if ok2:
            r.ok('recursion only after the dependency stack was scanned without a match', c.span)
        else:
            r.finding('no-stack-scan-before-recursion', c.span,
                      'the recursive check_for_cycles call is not preceded by a scan of dependency_stack whose match edge returns: the search can recurse forever on a cycle that does not contain the type being checked')
        # push before, pop after
        pushes = [x for x in f.calls() if x.name() == 'push' and from_field(x.args[0], 'dependency_stack')]
        pops = [x for x in f.calls() if x.name() == 'pop' and from_field(x.args[0], 'dependency_stack')]
        if must_pass(f, 0, [c.bb], [x.bb for x in pushes]) and must_pass(f, c.target, f.return_blocks(), [x.bb for x in pops]):
            r.ok('dependency_stack push before / pop after the recursion on every path', c.span)
        else:
            r.finding('stack-push-pop-unbalanced', c.span, 'dependency_stack is not pushed before or not popped after the recursive descent on every path')
    # no other way round the descent: entry leads to the recursion unless one of the two guards fired
    cut = [(e['bb'], e['equal']) for e in g1 + g2] + _dead_end_edges(prog, f)
    open_blocks = f.reachable(0, blocked=[c.bb for c in rec], blocked_edges=cut)
    leaks = [b for b in f.return_blocks() if b in open_blocks]
    if leaks:
        r.finding('descent-skipped-for-another-reason', f.span,
                  'push_to_stack_and_check can return without descending into the candidate although no guard (candidate == type being checked, '
                  'candidate already on the dependency stack, candidate a recorded dead end) fired: cycles behind the skipped candidate are not diagnosed')
    else:
        r.ok('the descent is skipped only on the guard edges (self, on the stack, recorded dead end)')
    # the reporting path pushes and pops as well
    rep = f.calls_to('report_cycle_error')
    for c in rep:
        pushes = [x for x in f.calls() if x.name() == 'push' and from_field(x.args[0], 'dependency_stack')]
        pops = [x for x in f.calls() if x.name() == 'pop' and from_field(x.args[0], 'dependency_stack')]
        if must_pass(f, 0, [c.bb], [x.bb for x in pushes]) and must_pass(f, c.target, f.return_blocks(), [x.bb for x in pops]) \
                and g1 and all(f.edge_dominates(e['bb'], e['equal'], c.bb) for e in g1):
            r.ok('cycle reported exactly on the "candidate == type being checked" edge with the offending field pushed', c.span)
        else:
            r.finding('report-path-broken', c.span, 'report_cycle_error is not called exactly on the equal edge with a balanced push/pop')
    if not rep:
        r.finding('cycle-never-reported', f.span, 'push_to_stack_and_check never reports a cycle')
    # the report is an InfiniteSizeCycle error
    rc = prog.fn(CD + "CycleDetector::<'a>::report_cycle_error")
    aggs = [a for a in aggregates(prog, 'slicec::diagnostics::errors::Error', 'InfiniteSizeCycle') if a['fn'] is rc]
    pi = rc.calls_to('Diagnostic::push_into')
    if aggs and pi:
        r.ok('report_cycle_error builds Error::InfiniteSizeCycle and pushes it')
    else:
        r.finding('report-builds-no-error', rc.span, 'report_cycle_error does not build and push Error::InfiniteSizeCycle')
    r.floor(6)


def r_alias_loop(r, prog):
    f = prog.fn("slicec::patchers::type_ref_patcher::TypeRefPatcher::<'_>::resolve_type_alias")
    loops = f.natural_loops()
    if not loops:
        raise AnchorMissing('alias chain loop in resolve_type_alias')
    head, body = max(loops, key=lambda x: len(x[1]))
    contains = [b for b in branches_on_call(f, lambda c: c.name() == 'contains') if b['bb'] in body]
    if not contains:
        r.finding('alias-loop-without-membership-test', f.span, 'the alias-chain loop has no membership test of the chain: an alias loop never terminates')
        return
    b = contains[0]
    chain_local = b['call'].args[0]
    # true edge leaves the loop for good
    if head in f.reachable(b['true']):
        r.finding('alias-membership-edge-loops', b['call'].span, 'after finding the current alias in the chain the loop can continue')
    else:
        r.ok('alias already in chain -> leaves the loop', b['call'].span)
    # every path round the loop pushes onto the same chain
    same = lambda op: {str(t) for t in f.origin(op, wide=True)} & {str(t) for t in f.origin(chain_local, wide=True)}
    pushes = [c for c in f.calls() if c.name() == 'push' and c.bb in body and same(c.args[0])]
    back = [p for p in body if head in f.succs(p)]
    if pushes and all(must_pass(f, b['false'], [head], [c.bb for c in pushes]) for _ in [0]):
        r.ok('every iteration appends the current alias to the chain')
    else:
        r.finding('alias-chain-not-extended', f.span, 'a path round the alias loop does not push the current alias onto the chain: the membership test cannot stop the loop')
    # the pushed and tested value is the current alias's identifier
    ids = [c for c in f.calls() if c.name() == 'module_scoped_identifier' and c.bb in body]
    if ids:
        r.ok('chain holds module-scoped alias identifiers')
    else:
        r.finding('alias-chain-identity', f.span, 'the alias chain does not hold module_scoped_identifier() values')
    # E019 produced on the membership edge
    aggs = [a for a in aggregates(prog, 'slicec::diagnostics::errors::Error', 'SelfReferentialTypeAliasNeedsConcreteType') if a['fn'] is f]
    if aggs and all(f.edge_dominates(b['bb'], b['true'], a['bb']) for a in aggs):
        r.ok('E019 produced on the membership edge', aggs[0]['span'])
    else:
        r.finding('no-error-for-alias-loop', f.span, 'no SelfReferentialTypeAliasNeedsConcreteType error is produced on the membership edge of the alias loop')
    # that edge returns Err (never a patch)
    errs = [a for a in aggregates(prog, 'core::result::Result', 'Err') if a['fn'] is f and a['bb'] in f.reachable(b['true'])]
    oks = [c for c in f.calls() if c.bb in f.reachable(b['true']) and c.name() == 'try_into_patch']
    if errs and not oks:
        r.ok('alias loop yields Err(DoesNotExist), never a binding')
    else:
        r.finding('alias-loop-yields-binding', f.span, 'the membership edge of the alias loop can return a patch')
    r.floor(5)


def r_inheritance(r, prog):
    # (a) the closure functions are reachable from compile_files only behind the post-cycle-detection guard
    va = prog.fn(V + 'validate_ast')
    dc = va.calls_to(CD + 'detect_cycles')
    guards = [b for b in branches_on_call(va, HAS_ERRORS) if dc and va.dominates(dc[0].bb, b['bb'])]
    if not guards:
        raise AnchorMissing('has_errors() test after detect_cycles')
    first = min(guards, key=lambda b: len(va.dominators().get(b['bb'], ())))
    g = {va.path: [(first['bb'], first['false'])]}
    seen, parent = ungated_reach(prog, ['slicec::compile_files'], g)
    targets = [p for p in prog.fns if re.search(r'interface::Interface::(all_base_interfaces|all_inherited_operations|all_operations)$', p)]
    if len(targets) < 3:
        raise AnchorMissing('Interface::all_base_interfaces / all_inherited_operations / all_operations')
    det = prog.reachable_fns([CD + 'detect_cycles'])
    for t in sorted(targets):
        if t in seen:
            r.finding('base-closure-before-cycle-check:%s' % t, prog.fns[t].span,
                      '%s (unguarded recursion over bases) is reachable during compilation without passing the inheritance-loop check' % t, chain(parent, t))
        else:
            r.ok('%s only runs after inheritance loops were rejected' % t.rsplit('::', 1)[-1])
    # (b) the inheritance search itself: recursion only on the "newly visited" edge
    fs = [f for f in prog.fns.values() if f.path.startswith(CD) and 'inherit' in f.path.lower() and f.kind != 'closure']
    rec = []
    for f in fs:
        for c in f.calls():
            if c.resolved == f.path:
                rec.append((f, c))
    if not fs:
        r.finding('no-inheritance-search', '-', 'cycle_detection has no inheritance-loop search')
        return
    for f, c in rec:
        ins = [b for b in branches_on_call(f, lambda x: x.name() == 'insert' and 'HashSet' in (x.resolved or ''))]
        if ins and any(f.edge_dominates(b['bb'], b['true'], c.bb) for b in ins):
            r.ok('%s recurses only into bases it inserts into the visited set for the first time' % f.name, c.span)
        else:
            r.finding('inheritance-search-unguarded', c.span, '%s recurses without a visited-set guard' % f.path)
    # an error is produced by the interface check
    chk = [f for f in fs if any(a['fn'] is f for a in aggregates(prog, 'slicec::diagnostics::errors::Error'))]
    if chk and any(f.calls_to('Diagnostic::push_into') for f in chk):
        r.ok('inheritance loop produces an error diagnostic', chk[0].path)
    else:
        r.finding('inheritance-loop-not-reported', fs[0].span, 'the inheritance-loop search never produces an error diagnostic')
    # the search walks `bases`
    walks = [f for f in fs if any(c.name() in ('base_interfaces',) for c in f.calls())] or \
            [a for a in field_accesses(prog, 'interface::Interface', 'bases') if a['fn'] in fs]
    if walks:
        r.ok('inheritance search walks the base interfaces')
    else:
        r.finding('inheritance-search-ignores-bases', fs[0].span, 'the inheritance-loop search does not read the interface bases')
    r.floor(6)



def r_alias_through_anonymous(r, prog):
    """A type alias that reaches itself through anonymous types (`typealias A = Sequence<A>`) makes the patched type graph cyclic: every
    recursive walk over type expressions is finite only because such aliases are rejected first."""
    dc = prog.fn(CD + 'detect_cycles')
    chk = [c for c in dc.calls() if c.name() == 'check_type_alias_for_cycles' and not dc.blocks[c.bb].get('cleanup')]
    if not chk:
        r.finding('no-alias-containment-check', dc.span, 'detect_cycles does not check type aliases for anonymous types that contain themselves: `typealias A = Sequence<A>` makes every later walk over the type recurse forever')
        return
    lp = loop_of(dc, chk[0].bb)
    arg = vexpr(dc, chk[0].args[1], depth=8)
    if lp is not None and re.search(r'as TypeAlias\.0\)$', arg) and any(c.name() == 'next' and c.bb in lp[1] and 'as_slice(arg1)' in vexpr(dc, c.args[0]) for c in dc.calls()):
        r.ok('every TypeAlias node of the AST is checked for an aliased type that contains itself')
    else:
        r.finding('alias-check-not-over-all-nodes', chk[0].span, 'check_type_alias_for_cycles is not applied to every TypeAlias node of ast.as_slice() (argument: %s)' % arg[:80])
    # the gate: the candidate checks are reachable only on the not-found edge
    later = [c for c in dc.calls() if c.name() in ('check_for_cycles', 'check_interface_for_inheritance_cycles') and not dc.blocks[c.bb].get('cleanup')]
    gate = None
    for b, pl, ts, fs in bool_branches(dc):
        if pl is None or ts == fs:
            continue
        cond = vexpr(dc, {'cp': pl}, depth=10)
        if 'check_type_alias_for_cycles(' in cond and later and all(dc.edge_dominates(b, fs, c.bb) for c in later) and not any(c.bb in dc.reachable(ts, blocked=[b]) for c in later):
            gate = (b, fs)
    if gate and len(later) >= 2:
        r.ok('the struct / enum / interface checks run only when no such alias was found')
    else:
        r.finding('alias-check-does-not-gate', dc.span, 'detect_cycles walks the types of fields without first having established that no alias contains itself')
        return
    # every recursive walker of type expressions runs only behind that gate (and behind the post-cycle-detection gate of validate_ast)
    W = [('sequence::Sequence', 'element_type'), ('dictionary::Dictionary', 'key_type'), ('dictionary::Dictionary', 'value_type'), ('result::ResultType', 'success_type'), ('result::ResultType', 'failure_type')]
    readers = set()
    for adt, fld in W:
        for a in field_accesses(prog, adt, fld):
            readers.add(a['fn'].path)
    nodes = [p_ for p_ in prog.fns if prog.fns[p_].crate.tag == 'slicec']
    walkers = set()
    for comp in prog.sccs(nodes):
        if set(comp) & readers:
            walkers |= set(comp)
    own = {p_ for p_ in walkers if 'leads_back_to' in p_ or 'nested_types_of' in p_}
    walkers -= own
    if len(walkers) < 6:
        raise AnchorMissing('recursive walkers over anonymous types (found %d)' % len(walkers))
    va = prog.fn(V + 'validate_ast')
    dcc = va.calls_to(CD + 'detect_cycles')
    vg = [b for b in branches_on_call(va, HAS_ERRORS) if dcc and va.dominates(dcc[0].bb, b['bb'])]
    if not vg:
        raise AnchorMissing('has_errors() test after detect_cycles')
    first = min(vg, key=lambda b: len(va.dominators().get(b['bb'], ())))
    g = {va.path: [(first['bb'], first['false'])], dc.path: [gate]}
    seen, parent = ungated_reach(prog, ['slicec::compile_files'], g)
    bad = sorted(w for w in walkers if w in seen)
    if bad:
        for w in bad:
            r.finding('type-walk-before-alias-check:%s' % w, prog.fns[w].span, '%s recurses through anonymous types and is reachable during compilation without passing the self-containing-alias check' % w, chain(parent, w))
    else:
        r.ok('all %d recursive walkers over type expressions run only after self-containing aliases were rejected' % len(walkers))
    # the check itself terminates: every anonymous type is searched through at most once per alias
    w = prog.fn(CD + "CycleDetector::<'a>::leads_back_to")
    rec = [c for c in w.calls() if c.resolved == w.path and not w.blocks[c.bb].get('cleanup')]
    cont = [b for b in branches_on_call(w, lambda x: x.name() == 'contains')]
    push = [c for c in w.calls() if c.name() == 'push' and not w.blocks[c.bb].get('cleanup')]
    if rec and cont and push and all(w.edge_dominates(b['bb'], b['false'], c.bb) for b in cont for c in rec) and all(w.dominates(p_.bb, c.bb) for p_ in push for c in rec) \
            and vexpr(w, push[0].args[1]) == vexpr(w, cont[0]['call'].args[1]):
        r.ok('the search descends only into an anonymous type that was not searched before, which it records first')
    else:
        r.finding('alias-walk-unguarded', w.span, 'leads_back_to recurses without the searched-types guard')
    ct = prog.fn(CD + "CycleDetector::<'a>::check_type_alias_for_cycles")
    if any(a['fn'] is ct for a in aggregates(prog, 'slicec::diagnostics::errors::Error')) and ct.calls_to('Diagnostic::push_into'):
        r.ok('a self-containing alias produces an error diagnostic')
    else:
        r.finding('alias-containment-not-reported', ct.span, 'check_type_alias_for_cycles does not report an error')
    r.floor(5)


def r_search_state_and_identity(r, prog):
    """(a) every root search starts from fresh state; (b) candidates scan all their fields on every path; (c) cycles are identified by scoped names"""
    CDT = CD + "CycleDetector::<'a>::"
    ci = prog.fn(CDT + 'check_interface_for_inheritance_cycles')
    fp = [c for c in ci.calls() if c.name() == 'find_inheritance_path' and not ci.blocks[c.bb].get('cleanup')]
    if len(fp) != 1:
        raise AnchorMissing('the root call of find_inheritance_path')
    a = [vexpr(ci, x) for x in fp[0].args]
    if a[0] == 'arg2' and a[1] == 'module_scoped_identifier(arg2)' and a[2] == 'new()' and a[3] == 'new()':
        r.ok('the inheritance search of every interface starts with an empty visited set and an empty path of its own')
    else:
        r.finding('inheritance-search-state-shared', fp[0].span,
                  'the inheritance search is started with visited=%s path=%s: state that survives from one interface to the next hides loops first reached from outside (every interface must be searched from fresh state)' % (a[2][:60], a[3][:60]))
    # (b) candidates: no exit before the scan
    for imp in prog.impls_of(CD + 'CycleCandidate'):
        f = None
        for m in imp['methods']:
            if m['n'] == 'check_for_cycles':
                f = prog.fns.get(m['path'])
        if f is None:
            continue
        rets = [i for i, b in enumerate(f.blocks) if b['t']['k'] == 'return']
        scans = [c for c in f.calls() if c.name() in ('check_fields_for_cycles',) and not f.blocks[c.bb].get('cleanup')] + [c for a, c in _direct_field_scans(prog, f)]
        its = [c for c in f.calls() if c.name() == 'next' and not f.blocks[c.bb].get('cleanup')]
        through = [c.bb for c in its] if its else [c.bb for c in scans]
        adt = imp['self_adt'].rsplit('::', 1)[-1]
        if scans and through and must_pass(f, 0, rets, through):
            r.ok('%s::check_for_cycles scans its fields on every path (no exit before the scan)' % adt)
        else:
            r.finding('candidate-exit-before-scan:%s' % adt, f.span, '%s::check_for_cycles can return without scanning the fields of the type: cycles through such a type are never found' % adt)
    # (b2) a cycle that was found is reported unless the very same cycle was reported before: the report is behind the insert into
    # reported_cycles and nothing else (no cap on the number of reports, no other filter - every type on a cycle must be named by one)
    for fn_name, extra in (('report_cycle_error', r'^next\(into_iter\(arg1\.dependency_stack\)\) is None$'), ('check_interface_for_inheritance_cycles', r'^find_inheritance_path\(')):
        g_ = prog.fn(CDT + fn_name)
        ps = [c for c in g_.calls() if c.name() == 'push_into' and not g_.blocks[c.bb].get('cleanup')]
        if len(ps) != 1:
            raise AnchorMissing('the report in %s' % fn_name)
        gs = guards.guard_set(prog, g_, ps[0].bb)
        rest = [x for x in gs if not re.match(r'^insert\(arg1\.reported_cycles,', x) and not re.match(extra, x)]
        if [x for x in gs if re.match(r'^insert\(arg1\.reported_cycles,', x)] and not rest:
            r.ok('%s: a cycle that was found is reported unless the same cycle was reported before' % fn_name)
        else:
            r.finding('cycle-report-suppressed:%s' % fn_name, ps[0].span, '%s reports a cycle only when %s: cycles are left unreported for another reason than having been reported already, so a type on such a cycle may be named by no error' % (fn_name, rest or gs))
    # (c) identity of a cycle: module-scoped identifiers
    rc = prog.fn(CDT + 'report_cycle_error')
    ins = [c for c in rc.calls() if c.name() == 'insert' and 'reported_cycles' in vexpr(rc, c.args[0]) and not rc.blocks[c.bb].get('cleanup')]
    cl = [f for f in prog.fns.values() if f.path.startswith(rc.path + '::{closure')]
    # the closure that maps a stack entry to its part of the cycle's identity: the one handed to the map() whose collected result is inserted
    keycl = []
    for ic in ins:
        for m in rc.calls():
            if m.name() == 'map' and not rc.blocks[m.bb].get('cleanup'):
                col = [c for c in rc.calls() if c.name() == 'collect' and comes_from_call(rc, c.args[0], m) and comes_from_call(rc, ic.args[1], c)]
                g = closure_of_arg(prog, rc, m.args[1]) if col else None
                if g is not None:
                    keycl.append(g)
    pushes = []
    for f in prog.fns.values():
        if f.path.startswith(CDT):
            for c in f.calls():
                if c.name() == 'push' and 'dependency_stack' in vexpr(f, c.args[0]) and not f.blocks[c.bb].get('cleanup'):
                    pushes.append((f, vexpr(f, c.args[1])))
    ok_ins = len(ins) == 1 and vexpr(rc, ins[0].args[1]) == 'collect(map(iter(arg1.dependency_stack),closure()))'
    ok_cl = len(keycl) == 1 and vexpr(keycl[0], {'cp': {'l': 0}}) == 'clone(arg2.0)'
    ok_push = pushes and all(re.match(r'^tuple\(module_scoped_identifier\(arg2\),arg3\)$', v) for f, v in pushes)
    if ok_ins and ok_cl and ok_push:
        r.ok('a reported cycle is identified by the module-scoped identifiers of the types on it')
    else:
        r.finding('cycle-identity-not-scoped', rc.span, 'reported cycles are de-duplicated by %s / %s built from %s: two different cycles whose members share unscoped names would be reported once' % (
            [vexpr(rc, c.args[1])[:60] for c in ins], [vexpr(f, {'cp': {'l': 0}})[:40] for f in keycl], [v[:50] for f, v in pushes]))
    ii = [c for c in ci.calls() if c.name() == 'insert' and 'reported_cycles' in vexpr(ci, c.args[0]) and not ci.blocks[c.bb].get('cleanup')]
    fi = prog.fn(CDT + 'find_inheritance_path')
    pp = [vexpr(fi, c.args[1]) for c in fi.calls() if c.name() == 'push' and not fi.blocks[c.bb].get('cleanup')]
    if len(ii) == 1 and re.match(r'^collect\(cloned\(iter\(new\(\)\)\)\)$', vexpr(ci, ii[0].args[1])) and pp and all(re.match(r'^(clone\()?module_scoped_identifier\(', v) for v in pp):
        r.ok('an inheritance loop is identified by the module-scoped identifiers of the interfaces on it')
    else:
        r.finding('inheritance-loop-identity-not-scoped', ci.span, 'inheritance loops are de-duplicated by %s built from %s' % ([vexpr(ci, c.args[1])[:60] for c in ii], pp))
    r.floor(5)


def _through_identity_helpers(prog, f, v):
    """`address_of(x)` -> `x` / `definition(x)` when address_of is a function of this crate that hands back (the definition of) its argument
    (casts are transparent)"""
    for _ in range(3):
        m = re.match(r'^(\w+)\((.*)\)$', v)
        if not m:
            break
        cands = {c.resolved for c in f.calls() if c.name() == m.group(1) and c.resolved in prog.fns and prog.fns[c.resolved].crate.tag == f.crate.tag}
        if len(cands) != 1:
            break
        h = prog.fns[cands.pop()]
        ret = vexpr(h, {'cp': {'l': 0}})
        if h.argc != 1 or [c for c in h.calls() if not h.blocks[c.bb].get('cleanup') and c.name() not in ('definition', 'deref', 'borrow')] or ret not in ('arg1', 'definition(arg1)'):
            break
        v = ret.replace('arg1', m.group(2))
    return v


def r_dead_ends(r, prog):
    """A type may be skipped as a dead end only if an earlier, complete search through it found nothing for the same root."""
    CDT = CD + "CycleDetector::<'a>::"
    n_ins = 0
    for fn_name in ('push_to_stack_and_check', 'check_field_type_for_cycles'):
        f = prog.fn(CDT + fn_name)
        ins = [c for c in f.calls() if c.name() == 'insert' and re.search(r'dead_ends', vexpr(f, c.args[0])) and not f.blocks[c.bb].get('cleanup')]
        rec = [c for c in f.calls() if (path_matches(c.callee, 'CycleCandidate::check_for_cycles') or path_matches(c.resolved, 'check_field_type_for_cycles')) and not f.blocks[c.bb].get('cleanup')]
        for c in ins:
            n_ins += 1
            gs = guards.guard_set(prog, f, c.bb)
            same = [g for g in gs if re.match(r'^Eq\(.*search_events.*,.*search_events.*\)$|^Eq\(arg1\.search_events,arg1\.search_events\)$', g)]
            # the value compared with was read before the descent
            reads = [bb for bb, j, lhs, rv, s in f.assigns() if rv['k'] == 'use' and 'search_events' in vexpr(f, rv['a'], depth=1) and not lhs.get('p')]
            before = any(all(f.dominates(rb, x.bb) for x in rec) for rb in reads)
            after = all(f.dominates(x.bb, c.bb) or x.bb in loop_body(f, x) for x in rec)
            if same and before and rec:
                r.ok('%s records a dead end only when the descent changed nothing in search_events (nothing found, nothing skipped)' % fn_name)
            else:
                r.finding('dead-end-recorded-unsoundly:%s' % fn_name, c.span, '%s records a dead end under %s: a type through which the root can still be reached (or whose search was cut short) would be skipped later' % (fn_name, gs))
    # search_events is bumped on the two cutting edges of push_to_stack_and_check
    f = prog.fn(CDT + 'push_to_stack_and_check')
    bumps = []
    for bb, j, lhs, rv, s in f.assigns():
        names = [x.get('n') for x in lhs.get('p', []) if isinstance(x, dict) and 'f' in x]
        if names == ['search_events'] and not f.blocks[bb].get('cleanup'):
            bumps.append(bb)
    eqs = eq_branches(f) + _stack_scan_any(prog, f)
    eq_edges = [(e['bb'], e['equal']) for e in eqs]
    covered = [e for e in eq_edges if any(f.edge_dominates(e[0], e[1], b) for b in bumps)]
    if len(bumps) >= 2 and len(covered) >= 2:
        r.ok('search_events counts both events that make a search incomplete: the root was found, a type on the stack was skipped')
    else:
        r.finding('search-events-not-counted', f.span, 'search_events is bumped at %d site(s), on %d of the comparison edges: an incomplete search could be taken for a complete one' % (len(bumps), len(covered)))
    # reset per root
    dc = prog.fn(CD + 'detect_cycles')
    clears = [c for c in dc.calls() if c.name() == 'clear' and re.search(r'dead_ends', vexpr(dc, c.args[0])) and not dc.blocks[c.bb].get('cleanup')]
    roots = [c for c in dc.calls() if path_matches(c.callee, 'CycleCandidate::check_for_cycles')]
    sets = {re.search(r'\.(\w*dead_ends)$', vexpr(dc, c.args[0])).group(1) for c in clears if re.search(r'\.(\w*dead_ends)$', vexpr(dc, c.args[0]))}
    if roots and len(sets) >= 2 and all(all(dc.dominates(c.bb, x.bb) and loop_of(dc, c.bb) == loop_of(dc, x.bb) for x in roots) for c in clears):
        r.ok('both dead-end sets are emptied before every root: nothing learnt for one type being checked is used for another')
    else:
        r.finding('dead-ends-survive-the-root', dc.span, 'the dead-end sets (%s) are not cleared before each root search: whether a type leads back depends on the root (memoising across roots hides cycles)' % sorted(sets))
    if n_ins < 2:
        raise AnchorMissing('dead-end insertions (found %d)' % n_ins)
    # what a dead end is recorded and looked up under identifies the type: the module-scoped identifier of a named type (what the dependency
    # stack holds, rule C05.7), the address of the definition of an anonymous one. Anything coarser (the unscoped name, the type string, which
    # prints named types without their module) lets one type's dead end hide another type's way back.
    keys = []
    for fn_name in ('push_to_stack_and_check', 'check_field_type_for_cycles'):
        f = prog.fn(CDT + fn_name)
        for c in f.calls():
            if c.name() in ('insert', 'contains') and not f.blocks[c.bb].get('cleanup') and re.search(r'dead_ends$', vexpr(f, c.args[0])):
                keys.append((fn_name, c, vexpr(f, c.args[0]).rsplit('.', 1)[-1], _through_identity_helpers(prog, f, vexpr(f, c.args[1]))))
    NAMED = (r'^module_scoped_identifier\(arg2\)$', r'^unwrap\(pop\(arg1\.dependency_stack\)\)\.0$')
    bad = [(fn_name, c, st, k) for fn_name, c, st, k in keys
           if not ((st == 'dead_ends' and any(re.match(p_, k) for p_ in NAMED)) or (st == 'anonymous_dead_ends' and k == 'definition(arg2)'))]
    if len(keys) < 4:
        raise AnchorMissing('dead-end lookups and insertions (found %d)' % len(keys))
    if bad:
        for fn_name, c, st, k in bad:
            r.finding('dead-end-identity:%s:%s' % (fn_name, st), c.span, '%s %s %s under %s: two different types can share that key, and the dead end recorded for one makes the search skip the other' % (
                fn_name, 'records a type in' if c.name() == 'insert' else 'looks a type up in', st, k[:100]))
    else:
        r.ok('dead ends are recorded and looked up under the module-scoped identifier (named types) or the address of the definition (anonymous types)')
    r.floor(5)


def loop_body(f, c):
    lp = loop_of(f, c.bb)
    return lp[1] if lp else set()

def r_alias_nested_coverage(r, prog):
    """The search for an alias that contains itself through anonymous types follows *every* type reference nested in an anonymous type: for
    each wrapper form (result, sequence, dictionary) nested_types_of hands back all the TypeRef fields of the form. A position that is left out
    (a dictionary's key: only rejected later, by a validator that runs after this search) is a way for an alias to contain itself unnoticed."""
    f = prog.fn(CD + "CycleDetector::<'a>::nested_types_of")
    types_adt = 'slicec::grammar::wrappers::Types'
    sws = enum_switches(f, types_adt)
    if len(sws) != 1:
        raise AnchorMissing('one match on Types in nested_types_of (found %d)' % len(sws))
    sw = sws[0]
    variants = prog.adts[types_adt]['variants']
    n = 0
    for vi, v in enumerate(variants):
        payload = _payload_adt(v['fields'][0]['ty']) if v['fields'] else None
        want = set(_typeref_fields(prog, payload)) if payload else set()
        if not want or payload in {i['self_adt'] for i in prog.impls_of(CD + 'CycleCandidate')}:
            continue
        n += 1
        tgt = sw['arms'].get(vi, sw['otherwise'])
        others = [t for k, t in sw['arms'].items() if k != vi] + ([sw['otherwise']] if vi in sw['arms'] else [])
        region = f.reachable(tgt, blocked=[t for t in others if t != tgt])
        got = set()
        for bb, j, st in f.stmts():
            if bb not in region or 'rv' not in st or f.blocks[bb].get('cleanup'):
                continue
            rv = st['rv']
            pl = rv.get('p') if rv['k'] in ('ref', 'rawptr') else None
            if pl is not None:
                got |= {pr.get('n') for pr in place_projs(pl) if isinstance(pr, dict) and 'f' in pr}
        if want <= got and tgt not in [t for t in others]:
            r.ok('Types::%s -> all of %s are followed' % (v['n'], sorted(want)))
        else:
            r.finding('alias-nesting-not-followed:%s' % v['n'], f.span, 'nested_types_of follows %s of a %s, not %s: an alias can contain itself through the position left out' % (sorted(got & want), v['n'], sorted(want - got)))
    if n < 3:
        raise AnchorMissing('anonymous wrapper forms in Types (found %d)' % n)
    r.floor(3)


def r_bases_complete(r, prog):
    """base_interfaces() is the list as written: every base reference, in order, nothing filtered. The inheritance-loop search and the closure
    are built on it; a base that is filtered out (the interface itself, say) is an inheritance loop nobody sees."""
    f = prog.fn('slicec::grammar::elements::interface::Interface::base_interfaces')
    ret = vexpr(f, {'cp': {'l': 0}}, depth=8)
    if re.match(r'^collect\(map\(iter\(arg1\.bases\),fn:.*definition.*\)\)$|^collect\(map\(iter\(arg1\.bases\),(closure\(\)|[\w:<>]*definition[\w:<>]*)\)\)$', ret):
        r.ok('base_interfaces() = bases.iter().map(definition).collect()')
    else:
        r.finding('bases-filtered', f.span, 'base_interfaces() returns %s: expected every base reference mapped to its definition, nothing else' % ret[:160])
    r.floor(1)


def run(ctx):
    prog = ctx.prog
    ctx.run_rule('C05.1a', 'T2', 'cycle detection runs first; everything else in validate_ast is behind the no-errors edge', r_cycles_first, prog)
    ctx.run_rule('C05.1b', 'T1', 'validators are entered only through validate_ast', r_validators_single_entry, prog)
    ctx.run_rule('C05.2a', 'T5', 'every wrapper form of Types is traversed into every TypeRef position', r_wrapper_coverage, prog)
    ctx.run_rule('C05.2b', 'T5', 'every Container<Field> and every field is scanned', r_container_coverage, prog)
    ctx.run_rule('C05.2c', 'T5', 'search starts from every CycleCandidate node and from interfaces', r_detect_roots, prog)
    ctx.run_rule('C05.3', 'T8', 'recursion guard: self comparison, dependency-stack scan, balanced push/pop', r_recursion_guard, prog)
    ctx.run_rule('C05.4', 'T9', 'alias chain loop: membership exit, chain grows, E019 on that edge', r_alias_loop, prog)
    ctx.run_rule('C05.5', 'T8', 'inheritance loops rejected before any consumer of the base closure; guarded search', r_inheritance, prog)
    ctx.run_rule('C05.6', 'T2', 'aliases that contain themselves through anonymous types are rejected before any recursive walk over type expressions', r_alias_through_anonymous, prog)
    ctx.run_rule('C05.7', 'T10', 'fresh search state per root; candidates scan on every path; cycles identified by scoped names', r_search_state_and_identity, prog)
    from props import c03 as _c03
    ctx.run_rule('C05.9', 'T10', 'every link of an alias chain is looked up from the module of the alias it is written in: a chain through several modules is not taken for a loop', _c03.r_lookup_scope, prog)
    ctx.run_rule('C05.6b', 'T5', 'the alias self-containment search follows every type reference nested in an anonymous type', r_alias_nested_coverage, prog)
    ctx.run_rule('C05.5b', 'T10', 'the inheritance search sees every base as written (base_interfaces filters nothing)', r_bases_complete, prog)
    ctx.run_rule('C05.8', 'T2', 'dead ends: recorded only after a complete search that found nothing; per root', r_dead_ends, prog)
