"""C15 - results are reproducible and do not depend on the order of the inputs."""
import re

from mirlib import AnchorMissing, path_matches, op_place
from helpers import aggregates, calls_matching, vexpr, enum_switches, arm, edge_region, branches_on_call, loop_of
import perfile
from props import c05

EXPLANATION = (
    'Static decision of the structural clauses of C15 on the MIR of slicec (lib+bin): (1) no hash-order or ambient nondeterminism can reach '
    'output: no HashMap/HashSet is iterated (iter, keys, values, drain, retain, into_iter, Debug formatting) - membership, insert, get, remove, '
    'clone only - no time, environment, thread or random source is called and no global mutable state exists; positive controls make sure the '
    'matcher sees the hash containers that do exist; (2) no silent last-writer-wins: every type added to the name table lies in the collision '
    'domain of the redefinition scan (finding: Module); (3) per-file state: parser and preprocessor are created once per file, the '
    'command-line symbols are held by shared reference and cloned per file; (4) order-independent verdicts: the cycle search skips a candidate '
    'only for the two guard reasons (no memo across roots), and no diagnostic is gated by membership in state that outlives one element '
    '(first-seen de-duplication across files). Decides these clauses, not byte-identity of two runs.')
THOROUGH_RERUN = ['release']     # the same rules over the release build (no debug assertions): verified clean on the pinned tree
WITNESSES = ['AstTablesArePrivate']     # thorough tier: engines/witness (T12)
ASSUMPTIONS = ['rustc type checking and MIR construction', 'read_dir order is stable for an unchanged directory (OS)', 'HashMap/HashSet membership operations are deterministic']
HASH_TYPES = ('std::collections::hash::map::HashMap', 'std::collections::hash::set::HashSet', 'hashbrown::')
ITERATING = ('iter', 'iter_mut', 'into_iter', 'keys', 'values', 'values_mut', 'into_keys', 'into_values', 'drain', 'retain', 'extract_if', 'drain_filter', 'fmt',
             'difference', 'symmetric_difference', 'intersection', 'union')
AMBIENT = ['std::time::SystemTime::now', 'std::time::Instant::now', 'std::env::var', 'std::env::vars', 'std::env::var_os', 'std::thread::spawn', 'std::thread::scope',
           'std::process::id', 'std::collections::hash::map::RandomState::new', 'std::env::current_dir', 'std::env::temp_dir']


def _recv_ty(f, c):
    if not c.args or op_place(c.args[0]) is None:
        return ''
    return f.local_ty(op_place(c.args[0])['l'])


def r_no_hash_iteration(r, prog):
    seen_member = 0
    for f in prog.fns.values():
        if f.crate.tag not in ('slicec', 'slicec_bin') or f.generated:
            continue
        for c in f.calls():
            res = c.resolved or ''
            ty = _recv_ty(f, c)
            on_hash = any(h in res.split('>::')[0] for h in HASH_TYPES) or any(h in ty for h in HASH_TYPES)
            if not on_hash:
                continue
            nm = c.name()
            outer = ty.lstrip('&').replace('mut ', '').strip()
            if nm in ITERATING and not (nm == 'into_iter' and outer.startswith('alloc::vec::Vec')) and not (nm == 'fmt' and 'derive' in str(c.span.macro or '')):
                r.finding('hash-container-iterated:%s:%s' % (f.path, nm), c.span, '%s calls %s on a hash container (%s): iteration order is random per process and could reach diagnostics or the generator request' % (f.path, nm, ty[:70]))
            elif nm in ('insert', 'get', 'contains', 'contains_key', 'remove', 'clone', 'new', 'from_iter', 'from', 'len', 'is_empty', 'with_capacity', 'default', 'get_mut', 'entry'):
                seen_member += 1
    if seen_member < 8:
        raise AnchorMissing('positive control: membership operations on hash containers (found %d)' % seen_member)
    r.ok('%d hash-container operations, all membership / insert / lookup / clone' % seen_member)
    # Debug-formatting a value that contains a hash container (derive(Debug) on Ast prints lookup_table)
    for f in prog.fns.values():
        if f.crate.tag not in ('slicec', 'slicec_bin') or f.generated:
            continue
        for c in f.calls():
            if (c.resolved or '').endswith('fmt::rt::Argument::<\'_>::new_debug'):
                t = ' '.join(c.targs)
                if re.search(r'HashMap|HashSet|ast::Ast\b|CompilationState', t):
                    r.finding('hash-container-debug-printed:%s' % f.path, c.span, '%s formats %s with {:?}: the output order of its hash container is random' % (f.path, t[:60]))
    # the binary must not encode a hash map (slice-codec iterates it)
    for f in prog.fns.values():
        if f.crate.tag != 'slicec_bin':
            continue
        for c in f.calls():
            if c.name() in ('encode', 'encode_into') and any('HashMap' in t or 'HashSet' in t for t in c.targs):
                r.finding('hash-map-encoded:%s' % f.path, c.span, '%s encodes a hash map into the generator request: entry order differs between runs' % f.path)
    r.floor(1)


def r_no_ambient(r, prog):
    sites = calls_matching(prog, AMBIENT, crates=('slicec', 'slicec_bin'))
    for c in sites:
        r.finding('ambient-input:%s:%s' % (c.fn.path, c.callee), c.span, '%s calls %s: the result would depend on more than inputs and options' % (c.fn.path, c.callee))
    statics = [s for cr in prog.crates.values() if cr.tag in ('slicec', 'slicec_bin') for s in cr.statics]
    for s in statics:
        if 'clap_builder::derive' in s['path']:
            continue   # clap-derive's write-once cache of a default value string (same value in every run)
        if s['mut'] or re.search(r'Cell|Mutex|RwLock|Lazy|Once|Atomic', s['ty']):
            r.finding('global-mutable-state:%s' % s['path'], '-', 'global mutable state %s: %s' % (s['path'], s['ty']))
    tls = [1 for f in prog.fns.values() if f.crate.tag in ('slicec', 'slicec_bin') for bb, j, lhs, rv, s in f.assigns() if rv['k'] == 'tls']
    if tls:
        r.finding('thread-local-state', '-', 'thread-local state is used')
    if not sites:
        r.ok('no clock, environment, thread or random source is called; %d static(s), none mutable' % len(statics))
    # positive control: the matcher resolves std paths (fs::read_to_string is called in file_util)
    if not calls_matching(prog, ['std::fs::read_to_string'], crates=('slicec',)):
        raise AnchorMissing('positive control: std::fs::read_to_string')
    r.floor(1)


def r_name_table_collisions(r, prog):
    """every T with add_named_element::<T> must be checked by check_for_redefinitions (through check_if_redefined::<T> or as the
    content of a checked container), or the insert must not discard a previous entry."""
    ane = 'slicec::ast::Ast::add_named_element'
    inst = set()
    for c in prog.callers_of(ane):
        if c.targs:
            t = c.targs[0]
            if t not in ('T',):
                inst.add(t)
    if len(inst) < 9:
        raise AnchorMissing('instantiations of add_named_element (found %s)' % sorted(inst))
    # the two collision domains of the redefinition scan: definitions are compared with every other definition (one table keyed by
    # scoped name, check_if_redefined); members only with the other members of their container (check_contents_for_redefinitions)
    checked, defs, members = set(), set(), set()
    for f in prog.fns.values():
        if 'validators::identifiers::' not in f.path:
            continue
        for c in f.calls():
            if c.name() in ('check_if_redefined', 'check_contents_for_redefinitions') and c.targs:
                for t in c.targs:
                    m = re.search(r'(slicec::grammar::elements::[\w:#]+)', t)
                    if m:
                        checked.add(m.group(1))
                        (defs if c.name() == 'check_if_redefined' else members).add(m.group(1).rsplit('::', 1)[-1])
    f = prog.fn(ane)
    ins = [c for c in f.calls() if c.name() == 'insert']
    discards = bool(ins) and not [b for b in branches_on_call(f, lambda x: x is ins[0])] and not enum_switches(f, 'core::option::Option')
    for t in sorted(inst):
        if t in checked:
            r.ok('%s: name collisions within its kind are diagnosed by the redefinition scan' % t.rsplit('::', 1)[-1])
        elif not discards:
            r.ok('%s: add_named_element does not discard a previous entry' % t)
        else:
            r.finding('silent-overwrite-in-name-table:%s' % t.rsplit('::', 1)[-1], f.span,
                      '%s is added to the name table (last writer wins: the result of insert is dropped) but is outside the collision domain of '
                      'check_for_redefinitions: an entity of another kind with the same scoped name is overwritten or overwrites it depending on file order' % t)
    # across the two domains nothing is diagnosed (a member of `struct S` in module `A` and a definition in module `A::S` have the same scoped
    # name, and a module does not collide with the definition it is named like), so the name table itself has to settle which one the name
    # denotes in a way that does not depend on which was added first: for a definition d and a member m exactly one of
    # keeps(d registered, m new) / keeps(m registered, d new) holds
    if len(defs) < 5 or len(members) < 4:
        raise AnchorMissing('collision domains of the redefinition scan (definitions %s, members %s)' % (sorted(defs), sorted(members)))
    from props import c03 as _c03
    pol = _c03.registration_policy(prog)
    if pol is None:
        r.finding('name-table-policy-unrecognised', f.span, 'add_named_element does not have a recognised registration policy: which of two elements with the same scoped name is looked up cannot be shown independent of the order of the files')
    else:
        bad = sorted((d, m) for d in defs for m in members if pol['keeps'](d, m) == pol['keeps'](m, d))
        if bad:
            r.finding('member-definition-collision-order-dependent', f.span,
                      'a definition and a member of another definition can have the same scoped name (member x of A::S / definition x of module A::S) and the redefinition scan does not compare them, '
                      'but add_named_element lets whichever is added last take the name (%s): a type reference to that name is accepted or rejected depending on the order of the files; pairs: %s'
                      % (pol['form'], ', '.join('%s/%s' % x for x in bad[:6]) + (' ...' if len(bad) > 6 else '')))
        else:
            r.ok('between a definition and a member with the same scoped name the name table keeps the same one in either order (%s)' % pol['form'])
    r.floor(10)


def r_no_first_seen_gating(r, prog):
    """No diagnostic push is gated by membership in a collection that outlives the element being examined (a field of the
    patcher/validator struct): such first-seen de-duplication makes the set of reports depend on file order. The cycle reporter's
    vertex-set de-duplication is the one sanctioned instance (errors; acceptance is unaffected)."""
    SANCTIONED = {"slicec::validators::cycle_detection::CycleDetector::<'a>::report_cycle_error": 'one report per cycle (vertex set); acceptance does not depend on which member reports it',
                  "slicec::validators::cycle_detection::CycleDetector::<'a>::check_interface_for_inheritance_cycles": 'one report per inheritance loop (vertex set)'}
    n = 0
    for f in prog.fns.values():
        if f.crate.tag != 'slicec' or f.generated:
            continue
        pushes = [c for c in f.calls() if c.name() == 'push_into' and path_matches(c.resolved, 'Diagnostic::push_into')]
        if not pushes:
            continue
        n += 1
        gates = branches_on_call(f, lambda x: x.name() in ('insert', 'contains', 'contains_key', 'get', 'remove') and re.search(r'HashSet|HashMap|BTreeSet|BTreeMap', (x.resolved or '')))
        for b in gates:
            recv = vexpr(f, b['call'].args[0])
            if not re.match(r'^arg1\.\w+', recv):
                continue   # a local collection: scoped to this call
            for p in pushes:
                dom_t = f.edge_dominates(b['bb'], b['true'], p.bb) and b['true'] != b['false']
                dom_f = f.edge_dominates(b['bb'], b['false'], p.bb) and b['true'] != b['false']
                if dom_t or dom_f:
                    if f.path in SANCTIONED:
                        r.ok('%s: sanctioned de-duplication' % f.path, SANCTIONED[f.path])
                    else:
                        r.finding('report-gated-by-first-seen-state:%s' % f.path, p.span,
                                  '%s pushes a diagnostic only depending on membership of %s, state that outlives the element: which use is reported depends on the order of the files' % (f.path, recv))
    if n < 20:
        raise AnchorMissing('functions pushing diagnostics (found %d)' % n)
    r.ok('%d diagnostic-producing functions examined' % n)
    r.floor(2)



def r_symmetric_redefinition_table(r, prog):
    """Acceptance must not depend on which of two colliding names is met first: whatever is recorded in the table of seen
    definitions is recorded by the same step that looks it up and reports (check_if_redefined); nothing is recorded on the side."""
    fs = [f for f in prog.fns.values() if 'validators::identifiers::RedefinitionChecker' in f.path and f.kind != 'closure']
    cir = [f for f in fs if f.path.endswith('::check_if_redefined')]
    if not fs or not cir:
        raise AnchorMissing('RedefinitionChecker::check_if_redefined')
    n = 0
    for f in fs:
        for c in f.calls():
            if f.blocks[c.bb].get('cleanup'):
                continue
            if re.search(r'hash::map::HashMap|hash::map::Entry|hash::map::(Vacant|Occupied)Entry', c.resolved or c.callee or '') and c.name() not in ('new', 'default', 'with_capacity'):
                n += 1
                if f in cir:
                    continue
                r.finding('seen-table-written-without-check:%s:%s' % (f.path.rsplit('::', 1)[-1], c.name()), c.span,
                          '%s touches the table of seen definitions with %s outside check_if_redefined: an entry recorded without being checked itself is only caught when it comes first, so acceptance depends on file order' % (f.path, c.name()))
    f = cir[0]
    ins = [c for c in f.calls() if c.name() in ('insert', 'entry') and not f.blocks[c.bb].get('cleanup')]
    pushes = [c for c in f.calls() if c.name() in ('push_into', 'report_redefinition_error') and not f.blocks[c.bb].get('cleanup')]
    gets = branches_on_call(f, lambda x: x.name() in ('get', 'insert', 'contains_key') and 'HashMap' in (x.resolved or ''))
    sw = [sw_ for sw_ in enum_switches(f, 'core::option::Option') if re.search(r'(get|insert)\(', vexpr(f, {'cp': sw_['place']}))]
    if ins and pushes and (gets or sw):
        r.ok('check_if_redefined looks the name up, reports on a hit and records on a miss, in one step')
    else:
        r.finding('redefinition-step-shape', f.span, 'check_if_redefined does not look up, report and record in one step (insert sites %d, reports %d)' % (len(ins), len(pushes)))
    if n < 2:
        raise AnchorMissing('operations on the seen-definitions table (found %d)' % n)
    r.floor(1)


def r_emitted_is_updated(r, prog):
    """What is emitted and counted is exactly what into_updated returns: nothing is filtered, sorted or dropped in between
    (a filter keyed on source/reference would make the warnings depend on how the files were passed)."""
    m = prog.fn('slicec_bin::main')
    upd = [c for c in m.calls() if c.name() == 'into_updated' and not m.blocks[c.bb].get('cleanup')]
    if len(upd) != 1 or upd[0].dest is None:
        raise AnchorMissing('the into_updated call of main')
    dl = upd[0].dest['l']
    bad = []
    for c in m.calls():
        if m.blocks[c.bb].get('cleanup') or c is upd[0]:
            continue
        for i, a in enumerate(c.args):
            pl = a.get('mv') or a.get('cp') if isinstance(a, dict) else None
            src = vexpr(m, a)
            if src.startswith('into_updated(') or (pl is not None and pl.get('l') == dl):
                if c.name() in ('get_totals', 'emit_diagnostics', 'emit_totals', 'deref', 'as_slice', 'len', 'is_empty', 'iter', 'drop', 'drop_in_place'):
                    continue
                bad.append((c.name(), c.span))
    # mutable borrows of the updated vector (retain, sort, dedup, truncate, ...)
    for bb, j, lhs, rv, s_ in m.assigns():
        if rv['k'] == 'ref' and rv.get('mut') and rv['p'].get('l') == dl and not m.blocks[bb].get('cleanup'):
            users = [c for c in m.calls() if any((isinstance(a, dict) and (a.get('mv') or a.get('cp') or {}).get('l') == lhs['l']) for a in c.args)]
            for c in users:
                if c.name() not in ('get_totals', 'emit_diagnostics', 'deref', 'deref_mut', 'as_slice'):
                    bad.append((c.name(), c.span))
    if bad:
        for nm, sp in bad:
            r.finding('updated-diagnostics-altered:%s' % nm, sp, 'main applies %s to the diagnostics between into_updated and their emission / count: what is shown no longer is what the compiler found' % nm)
    else:
        r.ok('the vector returned by into_updated is emitted and counted as it is')
    em = [c for c in m.calls() if c.name() == 'emit_diagnostics' and not m.blocks[c.bb].get('cleanup')]
    gt = [c for c in m.calls() if c.name() == 'get_totals' and not m.blocks[c.bb].get('cleanup')]
    if em and gt and 'into_updated(' in vexpr(m, em[0].args[1], depth=6) and 'into_updated(' in vexpr(m, gt[0].args[0], depth=6):
        r.ok('emit_diagnostics and get_totals receive that vector')
    else:
        r.finding('emitted-not-updated', m.span, 'emit_diagnostics / get_totals are not given the result of into_updated (%s / %s)' % ([vexpr(m, c.args[1], depth=6)[:50] for c in em], [vexpr(m, c.args[0], depth=6)[:50] for c in gt]))
    r.floor(2)

import decisions


def r_request_file_from_file_alone(r, prog):
    """What a file contributes to the generator request is computed from that file alone: the value pushed onto the source / reference
    sequence is a one-argument conversion of the loop's element. A converter object (or any other argument) that lives across the files of
    a request lets one file's encoded content depend on which files were converted before it - on argument order."""
    import decisions
    try:
        host, via = decisions.request_partition_host(prog)
    except AnchorMissing:
        host = prog.fn('slicec_bin::encode_generate_code_request')       # no `SliceFile::from(file)` any more: look at what is pushed instead
    pushes = [c for c in host.calls() if c.name() == 'push' and not host.blocks[c.bb].get('cleanup') and loop_of(host, c.bb) is not None]
    if len(pushes) < 2:
        raise AnchorMissing('pushes of converted files (found %d)' % len(pushes))
    vals = sorted({vexpr(host, c.args[1]) for c in pushes})
    if len(vals) == 1 and re.match(r'^\w+\(next\(into_iter\(arg\d\)\) as Some\.0\)$', vals[0]):
        r.ok('every file of the request is %s: a function of that file only' % vals[0])
    else:
        r.finding('request-file-conversion-shares-state', pushes[0].span, 'the files of the request are converted as %s: the conversion takes more than the file itself, so what one file encodes to can depend on the files converted before it' % vals)
    r.floor(1)


def run(ctx):
    prog = ctx.prog
    ctx.run_rule('C15.1a', 'T1', 'no hash container is iterated or debug-printed', r_no_hash_iteration, prog)
    ctx.run_rule('C15.1b', 'T1', 'no ambient input, no global mutable state', r_no_ambient, prog)
    ctx.run_rule('C15.2', 'T5', 'everything in the name table is in the collision domain of the redefinition scan', r_name_table_collisions, prog)
    ctx.run_rule('C15.3a', 'T10', 'command-line symbols: shared by reference, cloned per file', perfile.r_symbols_per_file, prog)
    ctx.run_rule('C15.3b', 'T1', 'parser / preprocessor state is per file', perfile.r_parsers_per_file, prog)
    ctx.run_rule('C15.4a', 'T8', 'cycle search skips candidates only on its two guards (no memo across roots)', c05.r_recursion_guard, prog)
    ctx.run_rule('C15.4c', 'T2', 'what a cycle search remembers does not depend on which type was searched first: dead ends only after a complete search, counted skips, per root', c05.r_dead_ends, prog)
    ctx.run_rule('C15.4b', 'T2', 'no report is gated by first-seen state that outlives the element', r_no_first_seen_gating, prog)
    from props import c03 as _c03
    from props import c07 as _c07
    ctx.run_rule('C15.3c', 'T2', 'every file is parsed whatever the other files contain', decisions.r_every_file_parsed, prog)
    ctx.run_rule('C15.6', 'T2', 'whether the inputs are compiled does not depend on how they are split between sources and references', _c07.r_every_input_compiled, prog)
    ctx.run_rule('C15.2c', 'T1', 'which element a name denotes does not depend on the order of the files: definitions are last-writer-wins, a module never takes a name', _c03.r_name_table_single_writer, prog)
    ctx.run_rule('C15.4e', 'T13', 'what a type reference resolves to is worked out from that reference under the recorded conditions (the ledger of the type patcher: a step that is skipped because an earlier reference was resolved - a memo across references - shows as a moved or missing site)', _c03.r_patcher_preconditions, prog)
    import perfile as _perfile
    ctx.run_rule('C15.3d', 'T2', 'what a failed file added to the name table is taken out again (it would otherwise take names from files parsed before it, depending on the order)', _perfile.r_failed_file_leaves_no_names, prog)
    ctx.run_rule('C15.5c', 'T10', 'each file of the generator request is converted from that file alone', r_request_file_from_file_alone, prog)
    ctx.run_rule('C15.2b', 'T1', 'the table of seen definitions is written only by the step that also checks and reports', r_symmetric_redefinition_table, prog)
    ctx.run_rule('C15.5', 'T10', 'the diagnostics emitted and counted are exactly what into_updated returned', r_emitted_is_updated, prog)
