"""C07 - code generation happens only after an error-free compilation (main.rs, compilation_state.rs, lib.rs)."""
import re
from mirlib import AnchorMissing, op_place, path_matches, const_int, is_bare
from helpers import (vexpr, branches_on_call, branches_on_field, ungated_reach, chain, calls_matching, field_accesses,
                     must_pass, origin_calls, origin_summary)
import gating
import levels

EXPLANATION = (
    'Static decision of the structural clauses of C07 on the MIR of slicec (bin+lib): (1) process-spawn and file-creating '
    'calls exist only in the two generator functions and every call path from main to them crosses a call site dominated '
    'by the no-errors edge of has_errors() on the compilation diagnostics and by the not-dry-run edge; (2) every field of '
    'SliceOptions is read; (3) the exit status constant SUCCESS is assigned only on the error_count==0 edge, the count comes '
    'from get_totals over the very vector that is emitted, which is into_updated() of the diagnostics every generator result '
    'was extended into on every loop path; (4) each compilation phase is invoked only through CompilationState::apply*, '
    'whose fn-pointer call sits on the no-errors edge; has_errors inspects kind, never level. Decides these clauses on all '
    'paths, not the run-time behaviour of particular inputs.')
THOROUGH_RERUN = ['release']     # the same rules over the release build (no debug assertions): verified clean on the pinned tree
WITNESSES = ['DiagnosticLevelsAreNotWritable']     # thorough tier: engines/witness (T12)
ASSUMPTIONS = ['rustc type checking and MIR construction', 'std::process / std::fs are the only ways slicec creates processes or files',
               'clap parses the command line as declared']

EFFECT_APIS = [
    'std::process::Command::spawn', 'std::process::Command::output', 'std::process::Command::status',
    'std::fs::File::create', 'std::fs::File::create_new', 'std::fs::File::options', 'std::fs::OpenOptions::open',
    'std::fs::write', 'std::fs::create_dir', 'std::fs::create_dir_all', 'std::fs::remove_file', 'std::fs::remove_dir',
    'std::fs::remove_dir_all', 'std::fs::rename', 'std::fs::copy', 'std::fs::hard_link', 'std::fs::set_permissions',
    'std::os::unix::fs::symlink', 'std::os::unix::process::CommandExt::exec', 'std::fs::File::set_len',
]
# the two functions that may perform effects, with the API each may call (frozen after reading main.rs)
EFFECT_ALLOW = {
    'slicec_bin::spawn_plugin_process': {'std::process::Command::spawn'},
    'slicec_bin::write_generated_file': {'std::fs::File::create'},
}
CRATES = ('slicec', 'slicec_bin')


def r_effect_sites(r, prog):
    sites = calls_matching(prog, EFFECT_APIS, crates=CRATES)
    for c in sites:
        fnp = c.fn.path
        api = c.callee
        allowed = EFFECT_ALLOW.get(fnp.split('::{closure')[0], set())
        if any(path_matches(api, a) for a in allowed):
            r.ok('%s calls %s' % (fnp, api), c.span)
        else:
            r.finding('effect-outside-generator-functions:%s:%s' % (fnp, api), c.span,
                      'process/file effect %s performed in %s, outside the functions that are gated on an error-free compilation' % (api, fnp))
    r.floor(2, 'effect call sites')


def main_guards(prog):
    """Guard edges in main: the no-errors edge of has_errors() on the compilation's diagnostics and the
    not-dry-run edge. Returns (main fn, [(src,dst)] for has_errors, [(src,dst)] for dry_run)."""
    main = prog.fn('slicec_bin::main')
    he = []
    for b in branches_on_call(main, 'diagnostics::diagnostic::Diagnostics::has_errors'):
        c = b['call']
        src = origin_calls(main, c.args[0], 'slicec::compile_from_options')
        if src and any('.diagnostics' in projs for _, projs in src):
            he.append((b['bb'], b['false'], b))
    dr = []
    for b in branches_on_field(main, 'slice_options::SliceOptions', 'dry_run'):
        dr.append((b['bb'], b['false'], b))
    return main, he, dr


def r_gated(r, prog):
    main, he, dr = main_guards(prog)
    # without such a branch nothing is gated: every target is then reported as ungated
    guards = {main.path: [(a, b) for a, b, _ in he]} if he else {}
    # the closures of main run where main builds them; their call sites are attributed to the building block
    seen, parent = ungated_reach(prog, [main.path], guards)
    for target in sorted(EFFECT_ALLOW):
        if target not in prog.fns:
            raise AnchorMissing('function %s' % target)
        if target in seen:
            r.finding('ungated:%s' % target, prog.fns[target].span,
                      '%s is reachable from main without crossing the no-errors edge of has_errors()' % target, chain(parent, target))
        else:
            r.ok('%s only behind !has_errors()' % target, 'guard at main bb%d' % he[0][0] if he else '')
    # the guard must be evaluated on the diagnostics of the compilation, after compilation
    r.floor(2)


def r_dry_run(r, prog):
    main, he, dr = main_guards(prog)
    if not dr:
        r.finding('dry-run-not-consulted', main.span,
                  'no branch in main depends on SliceOptions::dry_run: generators are started and files written under --dry-run')
        return
    guards = {main.path: [(a, b) for a, b, _ in dr]}
    seen, parent = ungated_reach(prog, [main.path], guards)
    for target in sorted(EFFECT_ALLOW):
        if target in seen:
            r.finding('dry-run-ungated:%s' % target, prog.fns[target].span,
                      '%s is reachable from main without crossing the not-dry-run edge' % target, chain(parent, target))
        else:
            r.ok('%s only behind !dry_run' % target)
    r.floor(2)


def r_options_read(r, prog):
    adt = prog.adt('slicec::slice_options::SliceOptions')
    fields = [f['n'] for f in adt['variants'][0]['fields']]
    roots = ['slicec_bin::main', 'slicec::compile_from_options', 'slicec::compile_from_strings']
    reach = prog.reachable_fns(roots)
    for fld in fields:
        acc = [a for a in field_accesses(prog, 'slice_options::SliceOptions', fld, crates=CRATES) if a['kind'] == 'read'
               and a['fn'].path in reach and not (a['fn'].impl_trait or '').startswith(('clap', 'std::fmt', 'std::default'))]
        if acc:
            r.ok('SliceOptions.%s read' % fld, '%d read site(s), e.g. %s' % (len(acc), acc[0]['span']))
        else:
            r.finding('option-never-read:%s' % fld, adt['_crate'].files[adt['sp'][0]],
                      'command-line option field SliceOptions::%s is declared but no code reachable from the entry points reads it' % fld)
    r.floor(9, 'option fields')


def zero_tests(fn):
    """Branches deciding whether an integer is zero: yields dict(bb, place(local of the tested value), zero, nonzero)."""
    out = []
    for i, b in enumerate(fn.blocks):
        t = b['t']
        if t['k'] != 'switch':
            continue
        p = op_place(t['d'])
        if p is None:
            continue
        if t['ty'] == 'bool' and len(t['ts']) == 1 and is_bare(p):
            val, tgt = t['ts'][0]
            f_s, t_s = (tgt, t['else']) if val == '0' else (t['else'], tgt)
            for d in fn.defs_of(p['l']):
                if d[0] == 'assign' and d[3]['k'] == 'bin' and d[3]['op'] in ('Eq', 'Ne', 'Gt', 'Lt'):
                    rv = d[3]
                    a, bb_ = rv['a'], rv['b']
                    if const_int(bb_) == 0 and op_place(a) is not None:
                        x = a
                        op = rv['op']
                    elif const_int(a) == 0 and op_place(bb_) is not None:
                        x = bb_
                        op = {'Gt': 'Lt', 'Lt': 'Gt'}.get(rv['op'], rv['op'])
                    else:
                        continue
                    if op == 'Eq':
                        out.append({'bb': i, 'value': x, 'zero': t_s, 'nonzero': f_s})
                    elif op == 'Ne' or (op == 'Gt' and rv['ty'].startswith('u')):
                        out.append({'bb': i, 'value': x, 'zero': f_s, 'nonzero': t_s})
        elif t['ty'] != 'bool' and t['ty'] != 'isize':
            zs = [tgt for v, tgt in t['ts'] if v == '0']
            if len(zs) == 1 and len(t['ts']) == 1:
                out.append({'bb': i, 'value': t['d'], 'zero': zs[0], 'nonzero': t['else']})
    return out


def r_exit_status(r, prog):
    main = prog.fn('slicec_bin::main')
    # the error count: field .1 of get_totals(...)
    zts = []
    for z in zero_tests(main):
        oc = origin_calls(main, z['value'], 'slicec::diagnostics::diagnostic::get_totals')
        if oc and any(projs == ('.1',) for _, projs in oc):
            z['totals_call'] = oc[0][0]
            zts.append(z)
    if not zts:
        raise AnchorMissing('no branch in main tests the error count returned by get_totals against zero')
    z = zts[0]
    # ... and nothing else: the tested count is the second component of get_totals(..) on every path, not a value that some path replaces
    # by a constant (an output format, an option)
    shown = vexpr(main, z['value'], depth=24)
    if re.match(r'^get_totals\(.*\)\.1$', shown) and 'phi(' not in shown.split('into_updated(')[0]:
        r.ok('the count tested for the exit status is get_totals(..).1 on every path')
    else:
        r.finding('error-count-replaced-on-some-path', main.span, 'the count that decides the exit status is %s: on some path it is not the number of error diagnostics emitted (a run that reports errors can exit 0)' % shown[:160])
    n_succ = n_fail = 0
    for d in main.defs_of(0):
        if d[0] == 'assign':
            bb = d[1]
            rv = d[3]
            a = rv.get('a') if rv['k'] == 'use' else None
            name = (a or {}).get('uneval')
            bits = (a or {}).get('bits')
            if a is None or 'c' not in a or bits is None:
                r.finding('exit-status-not-constant:bb', main.span_of(main.blocks[bb]['s'][d[2]].get('sp')),
                          'main assigns an exit status that is not a recognisable ExitCode constant')
                continue
            if bits == '0':
                n_succ += 1
                if main.edge_dominates(z['bb'], z['zero'], bb) and z['zero'] != z['nonzero']:
                    r.ok('SUCCESS only when error_count == 0', name)
                else:
                    r.finding('success-not-on-zero-errors-edge', main.span_of(main.blocks[bb]['s'][d[2]].get('sp')),
                              'ExitCode::SUCCESS is returned on a path that is not dominated by the error_count == 0 edge')
            else:
                n_fail += 1
                if main.edge_dominates(z['bb'], z['nonzero'], bb):
                    r.ok('FAILURE only when error_count != 0', name)
                else:
                    r.finding('failure-not-on-nonzero-errors-edge', main.span_of(main.blocks[bb]['s'][d[2]].get('sp')),
                              'a failure exit status is returned on a path not dominated by the error_count != 0 edge')
        elif d[0] == 'call':
            c = d[3]
            # ExitCode::from(<non-zero constant>) on the request-encoding failure path
            v = const_int(c.args[0]) if c.args else None
            if path_matches(c.callee, 'convert::From::from') and v is not None and v != 0:
                enc = [b for b in _result_branches(main, 'slicec_bin::encode_generate_code_request')]
                if enc and all(main.edge_dominates(sb, eb, c.bb) for sb, eb in enc):
                    r.ok('early exit %d only on the Err edge of encode_generate_code_request' % v, c.span)
                else:
                    r.finding('early-exit-not-on-encode-error', c.span, 'ExitCode::from(%d) is reachable other than through the encoding-failure edge' % v)
            else:
                r.finding('exit-status-from-call:%s' % c.callee, c.span, 'main takes its exit status from %s, which is not a known non-zero constant' % c.callee)
    if n_succ == 0:
        r.finding('no-success-exit', main.span, 'main has no ExitCode::SUCCESS exit')
    if n_fail == 0:
        r.finding('no-failure-exit', main.span, 'main has no failing exit for error_count != 0')
    # totals and emission see the same vector, which is the updated compilation diagnostics
    tot = z['totals_call']
    upd = origin_calls(main, tot.args[0], 'Diagnostics::into_updated')
    emits = main.calls_to('DiagnosticEmitter::<\'a, T>::emit_diagnostics') or main.calls_to(lambda c: c.name() == 'emit_diagnostics')
    if not emits:
        raise AnchorMissing('call of DiagnosticEmitter::emit_diagnostics in main')
    if not upd:
        r.finding('totals-not-from-updated-diagnostics', tot.span, 'get_totals is not applied to the result of Diagnostics::into_updated: %s' % origin_summary(main, tot.args[0]))
    else:
        r.ok('get_totals(into_updated(..))', tot.span)
        for e in emits:
            eu = origin_calls(main, e.args[1], 'Diagnostics::into_updated')
            if eu and eu[0][0] is upd[0][0]:
                r.ok('emit_diagnostics receives the vector that was counted', e.span)
            else:
                r.finding('emitted-vector-differs-from-counted', e.span,
                          'emit_diagnostics is given %s, not the vector get_totals counted' % origin_summary(main, e.args[1]))
        # ... and that vector is the compilation's diagnostics
        src = origin_calls(main, upd[0][0].args[0], 'slicec::compile_from_options')
        if src and any('.diagnostics' in p for _, p in src):
            r.ok('into_updated(self = compile_from_options(..).diagnostics)', upd[0][0].span)
        else:
            r.finding('updated-diagnostics-not-from-compilation', upd[0][0].span,
                      'into_updated is applied to %s, not to the diagnostics of the compilation' % origin_summary(main, upd[0][0].args[0]))
        # ... and no path reaches emission after a generator ran without going through into_updated of the extended container
    r.floor(6)


def _result_branches(fn, callee_pat):
    """(switch_bb, err_succ) pairs for matches on the Result returned by callee."""
    out = []
    for i, b in enumerate(fn.blocks):
        t = b['t']
        if t['k'] != 'switch' or t['ty'] != 'isize':
            continue
        p = op_place(t['d'])
        if p is None:
            continue
        for d in fn.defs_of(p['l']):
            if d[0] == 'assign' and d[3]['k'] == 'discr':
                if origin_calls(fn, d[3]['p'], callee_pat):
                    for v, tgt in t['ts']:
                        if v == '1':
                            out.append((i, tgt))
    return out


def r_generator_results_folded(r, prog):
    main = prog.fn('slicec_bin::main')
    ext = [c for c in main.calls_to('Diagnostics::extend') if origin_calls(main, c.args[0], 'slicec::compile_from_options')]
    if not ext:
        r.finding('generator-diagnostics-not-extended', main.span, 'main never extends the compilation diagnostics with a generator\'s diagnostics')
        return
    loops = main.natural_loops()
    hit = 0
    for head, body in loops:
        # loops that obtain generator results: contain a call consuming the spawn results
        inner = [c for c in main.calls() if c.bb in body and (c.name() in ('unwrap_or_else', 'and_then') or 'collect_plugin_output' in str(c.f))]
        if not inner:
            continue
        hit += 1
        ext_bbs = [c.bb for c in ext if c.bb in body]
        # every path from the loop's item edge back to the head passes an extend
        nxt = [c for c in main.calls() if c.bb in body and c.name() == 'next']
        starts = set()
        for c in inner:
            starts.add(c.bb)
        bad = [s for s in starts if not must_pass(main, s, [head], ext_bbs)]
        if bad or not ext_bbs:
            r.finding('generator-result-dropped-on-some-path', main.span_of(main.blocks[head]['t'].get('sp')),
                      'in the generator wait loop a path returns to the loop head without extending the diagnostics with that generator\'s result')
        else:
            r.ok('wait loop bb%d: every path extends the diagnostics' % head)
        # no early exit out of the loop other than through the head (a failing generator must not stop the others)
        exits = set()
        for b in body:
            for s in main.succs(b):
                if s not in body:
                    exits.add((b, s))
        non_head = [(a, b) for a, b in exits if a != head and not _is_iter_end(main, a)]
        if non_head:
            r.finding('wait-loop-early-exit', main.span_of(main.blocks[non_head[0][0]]['t'].get('sp')),
                      'the generator wait loop can be left from bb%d, before all generators were collected' % non_head[0][0])
        else:
            r.ok('wait loop bb%d: single exit at iterator exhaustion' % head)
    if hit == 0:
        raise AnchorMissing('generator wait loop in main')
    r.floor(2)


def _is_iter_end(fn, bb):
    """block that branches on the Option returned by Iterator::next (loop exit on None)"""
    t = fn.blocks[bb]['t']
    if t['k'] != 'switch':
        return False
    p = op_place(t['d'])
    if p is None:
        return False
    for d in fn.defs_of(p['l']):
        if d[0] == 'assign' and d[3]['k'] == 'discr':
            for c, _ in origin_calls(fn, d[3]['p']):
                if c.name() == 'next':
                    return True
    return False


def r_has_errors_reads_kind(r, prog):
    he = prog.fn('slicec::diagnostics::diagnostic::Diagnostics::has_errors')
    fns = prog.with_closures(he)
    reads_kind = reads_level = 0
    for f in fns:
        for i, j, s in f.stmts():
            if 'lhs' not in s:
                continue
            txt = str(s['rv'])
            if "'n': 'kind'" in txt and 'diagnostic::Diagnostic' in txt:
                reads_kind += 1
            if "'n': 'level'" in txt and 'diagnostic::Diagnostic' in txt:
                reads_level += 1
        for c in f.calls():
            if c.name() in ('level',) and 'Diagnostic' in (c.resolved or ''):
                reads_level += 1
    if reads_kind and not reads_level:
        r.ok('has_errors inspects Diagnostic.kind only', '%d read(s) of kind, 0 of level' % reads_kind)
    else:
        r.finding('has-errors-depends-on-level', he.span, 'has_errors() reads level (%d) / kind (%d): warnings or suppressed lints could gate generation' % (reads_level, reads_kind))
    # the closure must test for the Error variant: variant index of DiagnosticKind::Error
    dk = prog.adt('slicec::diagnostics::diagnostic::DiagnosticKind')
    err_idx = [i for i, v in enumerate(dk['variants']) if v['n'] == 'Error']
    ok = False
    for f in fns:
        for i, b in enumerate(f.blocks):
            t = b['t']
            if t['k'] == 'switch' and t['ty'] == 'isize':
                p = op_place(t['d'])
                for d in f.defs_of(p['l']) if p else []:
                    if d[0] == 'assign' and d[3]['k'] == 'discr' and d[3].get('adt', '').endswith('DiagnosticKind'):
                        # the arm for Error must lead to `true`
                        for v, tgt in t['ts']:
                            if int(v) == err_idx[0]:
                                tb = f.blocks[tgt]['s']
                                if any('lhs' in s and s['lhs']['l'] == 0 and const_int(s['rv'].get('a')) == 1 for s in tb):
                                    ok = True
    if ok:
        r.ok('has_errors: DiagnosticKind::Error arm yields true')
    else:
        r.finding('has-errors-error-arm', he.span, 'has_errors() does not return true exactly on the DiagnosticKind::Error arm')
    r.floor(2)


def r_every_input_compiled(r, prog):
    """"Every input file was read, parsed, resolved and validated": the entry points hand the files to the compilation phases on every path,
    except the one on which reading them already recorded an error. No other condition (what kind of files they are, how many) may decide
    whether the files are compiled: a skipped compilation is an error-free state, after which generators run."""
    import guards as _g
    cg = prog.callgraph()
    target = 'slicec::parsers::parse_files'
    if target not in prog.fns:
        raise AnchorMissing(target)

    def reaches(a):
        seen, todo = {a}, [a]
        while todo:
            x = todo.pop()
            if x == target:
                return True
            for y in cg.get(x, ()):
                if y not in seen and y.startswith('slicec::'):
                    seen.add(y)
                    todo.append(y)
        return False
    n = 0
    for ep in ('slicec::compile_from_options', 'slicec::compile_from_strings'):
        f = prog.fn(ep)
        cs = [c for c in f.calls() if not f.blocks[c.bb].get('cleanup') and (c.resolved or c.callee or '') in prog.fns and reaches(c.resolved or c.callee)]
        if not cs:
            r.finding('inputs-never-compiled:%s' % f.name, f.span, '%s never hands its files to the compilation phases' % ep)
            continue
        rets = f.return_blocks()
        # conditions deciding whether the phases run: every branch between the entry and the calls
        for c in cs:
            n += 1
            gs = [g for g in _g.guard_set(prog, f, c.bb) if not _g._LOOP_HAS_NEXT.match(g) and not re.match(r'^arg\d+ is (Some|None|not Some)$', g)]
            other = [g for g in gs if 'has_errors(' not in g]
            if other:
                r.finding('compilation-skipped-for-another-reason:%s' % f.name, c.span,
                          '%s compiles its files only under %s: when the condition does not hold nothing is parsed or validated, no error is recorded, and generation goes ahead' % (ep, other))
            else:
                r.ok('%s: the files are compiled %s' % (f.name, 'unless reading them recorded an error' if gs else 'unconditionally'))
        if not must_pass(f, 0, rets, [c.bb for c in cs]) and not any('has_errors(' in g for c in cs for g in _g.guard_set(prog, f, c.bb)):
            r.finding('compilation-can-be-skipped:%s' % f.name, f.span, '%s can return without compiling its files' % ep)
    r.floor(2)


import decisions


def run(ctx):
    prog = ctx.prog
    ctx.run_rule('C07.1a', 'T1', 'process/file effects only in the two generator functions', r_effect_sites, prog)
    ctx.run_rule('C07.1b', 'T2', 'generator functions reachable from main only behind !has_errors()', r_gated, prog)
    ctx.run_rule('C07.2a', 'T5', 'every SliceOptions field is read by reachable code', r_options_read, prog)
    ctx.run_rule('C07.2b', 'T2', 'generator functions reachable from main only behind !dry_run', r_dry_run, prog)
    ctx.run_rule('C07.3a', 'T10', 'exit status derives from the error count of the emitted vector', r_exit_status, prog)
    ctx.run_rule('C07.3b', 'T3', 'every generator result is folded into the diagnostics; wait loop has no early exit', r_generator_results_folded, prog)
    ctx.run_rule('C07.4a', 'T2', 'compilation phases run only through apply/apply_unsafe on the no-errors edge', gating.r_phase_gating, prog)
    from props import c18 as _c18
    ctx.run_rule('C07.3c', 'T2', 'a generator that exits non-zero, is killed or writes to stderr is a failure whatever it printed (it becomes an error diagnostic, hence a non-zero exit status)', _c18.r_only_decoded_reply_trusted, prog)
    ctx.run_rule('C07.4f', 'T2', 'every reported diagnostic is recorded (no cap, no filter in push_into / extend)', decisions.r_container_records_everything, prog)
    ctx.run_rule('C07.4e', 'T2', 'the entry points compile every input unless reading the inputs recorded an error', r_every_input_compiled, prog)
    from props import c18 as _c18
    ctx.run_rule('C07.4g', 'T3', 'a generator that cannot be started, fails or replies badly becomes an error diagnostic (and so a failing exit status), never just a printed line', _c18.r_converter_names_generator, prog)
    ctx.run_rule('C07.4b', 'T1', 'has_errors() inspects kind, not level', r_has_errors_reads_kind, prog)
    ctx.run_rule('C07.4c', 'T1', 'level Error is carried exactly by Error kinds (exit status and gating agree)', levels.r_level_error_only_for_error_kind, prog)
    ctx.run_rule('C07.4d', 'T1', 'the level of an error cannot be lowered: level is rewritten only inside the Lint arm of into_updated (an allowed error would exit 0)', levels.r_level_writers, prog)
