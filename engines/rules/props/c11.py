"""C11 - decoding untrusted bytes fails cleanly: no crash, no over-read."""
import json
import os
import re

import guards
import rule_scopes

from mirlib import AnchorMissing, path_matches
from helpers import aggregates, enum_switches, vexpr
import codec
from props import c18 as _c18
import entrypoints
import panics

EXPLANATION = (
    'Static decision of the structural clauses of C11 on the MIR of slice-codec (and the reply types / reply path of the slicec binary): '
    '(1) panic-site ledger over every function of the codec (todo!/panic!/unwrap/debug_assert/overflow asserts) with frozen reasons; '
    '(2) unsafe-site table: every unsafe operation (get_unchecked*, copy_nonoverlapping, set_len, write_bytes, unwrap_unchecked, '
    'unreachable_unchecked, transmute) is dominated by the success edge of the bounds/capacity check of the same function and its size '
    'operand is the same symbolic value as the checked size; an unlisted unsafe operation is a finding; (3) strictness producers: bool '
    'rejects every byte but 0/1, strings go through String::from_utf8, varints narrow through TryFrom, tags are decoded as varint32 without '
    '`as`, the reply types decode their bit-sequence as bool and reject unknown levels, every variant of the error enums has a rendering arm; '
    '(4) a length announced by the input reaches a reservation only clamped by / compared with remaining(); (5) the compiler turns codec '
    'errors of a reply into a diagnostic and never unwraps them. Decides these clauses, not time/memory figures.')
ASSUMPTIONS = ['rustc type checking and MIR construction', 'core/alloc functions behave as documented', 'InputSource::remaining() is exact for the slice source']
THOROUGH_CONFIGS = ['codec-nostd', 'codec-alloc', 'release']
VERIF = os.path.abspath(os.path.join(os.path.dirname(os.path.abspath(__file__)), '..', '..', '..'))

CODEC_LEDGER = [
    # (fn substring, kind, what substring, reason)
    ('peek_byte|', 'panic', None, 'debug_assert!(buffer.get(pos).is_some()): the success edge of does_buffer_have_at_least(1) dominates it (rule C11.2), so pos < len'),
    ('write_byte|', 'panic', None, 'debug_assert on the checked index: the success edge of the capacity check dominates it (rule C11.2)'),
    ('write_bytes_exact|', 'panic', None, 'debug_assert / debug_assert_eq on the checked range: the success edge of the capacity check dominates it (rule C11.2)'),
    ('peek_byte_slice_exact_impl|', 'panic', None, 'debug_assert!(buffer.get(pos..end).is_some()): dominated by the success edge of does_buffer_have_at_least(count) (rule C11.2)'),
    ('peek_bytes_exact_impl|', 'panic', None, 'debug_assert_eq!(bytes.len(), N): the slice came from peek_byte_slice_exact_impl(N)'),
    ('read_bytes_into_exact|', 'panic', None, 'debug_assert_eq!(src.len(), dst.len()): src came from read_byte_slice_exact(dst.len())'),
    ('reserve_space|', 'panic', None, 'debug_assert on the ensured spare capacity (rule C11.2)'),
    ('String>::decode_from|', 'panic', None, 'debug_assert_eq!(vector.len(), 0) on a freshly created vector'),
    ('>::remaining|', 'assert', 'Overflow(Sub)', 'len - pos / capacity - len: pos <= len is an invariant of the slice types (pos only advances by a checked count, rules C12.1 / C12.1c); capacity >= len for Vec'),
    ('peek_byte_slice_exact_impl|', 'assert', 'Overflow(Add)', 'pos + count after count <= len - pos was checked'),
    ('read_byte_slice_exact|', 'assert', 'Overflow(Add)', 'pos + count after the peek of count bytes succeeded'),
    ('read_bytes_exact|', 'assert', 'Overflow(Add)', 'pos + N after the peek of N bytes succeeded'),
    ('write_bytes_exact|', 'assert', 'Overflow(Add)', 'pos + count / len + count after the capacity check succeeded'),
    ('write_bytes_into_reserved_exact|', 'assert', 'Overflow(Add)', 'start + bytes.len() <= end after the length comparison'),
    ('reserve_space|', 'assert', 'Overflow(Add)', 'pos + count after the capacity check succeeded'),
    ('reserve_space|', 'assert', 'Overflow(Sub)', 'pos - count directly after pos += count'),
    ('varint_range_error|', 'assert', None, 'size_of::<T>() <= 16 for every integer type implementing TryFrom<i64>: 128 - 8*size >= 0 and the shift count is < 128'),
    ('varuint_range_error|', 'assert', None, 'size_of::<T>() <= 16 for every integer type implementing TryFrom<u64>: 128 - 8*size >= 0 and the shift count is < 128'),
    ('encode_varint|', 'assert', 'Overflow(Sub)', '64 - leading_zeros/ones(value) with leading_* <= 64'),
    ('encode_varint|', 'assert', 'Overflow(Add)', 'required_bits + 1 <= 65'),
    ('encode_varuint|', 'assert', 'Overflow(Sub)', '64 - leading_zeros(value) with leading_zeros <= 64'),
]


def r_codec_panic_ledger(r, prog, label='default'):
    roots = entrypoints.codec_roots(prog)
    if len(roots) < 40:
        raise AnchorMissing('codec entry points (found %d)' % len(roots))
    n = 0
    for p in sorted(prog.fns):
        f = prog.fns[p]
        if f.crate.tag != 'slice_codec':
            continue
        for s in panics.sites_of(f, skip_kinds={'alloc', 'unchecked'}):
            n += 1
            why = panics.auto_discharge(s, prog)
            if why:
                r.ok(s.key, why)
                continue
            hits = [e for e in CODEC_LEDGER if e[0] in (s.key.split('|')[0] + '|') and (e[1] is None or e[1] == s.kind) and (e[2] is None or e[2] in s.what)]
            if len(hits) >= 1:
                r.ok(s.key, 'ledger: ' + hits[0][3])
            else:
                r.finding('panic-site:%s' % s.key, s.span, 'panic-capable site (%s %s) in slice-codec is neither auto-discharged nor in the ledger' % (s.kind, s.what))
    r.floor(30 if label != 'release' else 5, 'panic-capable sites')


def r_error_rendering(r, prog):
    """Every variant of the codec's error enums has its own rendering arm (no wildcard that panics)."""
    for adt_path in ('slice_codec::error::ErrorKind', 'slice_codec::error::InvalidDataErrorKind'):
        fm = [f for f in prog.fns.values() if f.path == '<%s as core::fmt::Display>::fmt' % adt_path]
        if not fm:
            raise AnchorMissing('Display for %s' % adt_path)
        f = fm[0]
        sws = enum_switches(f, adt_path)
        if not sws:
            raise AnchorMissing('match in Display for %s' % adt_path)
        sw = sws[0]
        variants = prog.adts[adt_path]['variants']
        for vi, v in enumerate(variants):
            tgt = sw['arms'].get(vi)
            if tgt is None:
                r.finding('error-variant-without-rendering:%s::%s' % (adt_path.rsplit('::', 1)[-1], v['n']), f.span,
                          '%s::%s has no rendering arm of its own in Display' % (adt_path, v['n']))
                continue
            reach = f.reachable(tgt)
            pan = [c for c in f.calls() if c.bb in reach and panics.classify_callee(c.callee) == 'panic']
            if pan:
                r.finding('error-variant-rendering-panics:%s::%s' % (adt_path.rsplit('::', 1)[-1], v['n']), pan[0].span,
                          'rendering %s::%s can panic (%s)' % (adt_path, v['n'], pan[0].callee))
            else:
                r.ok('%s::%s is rendered' % (adt_path.rsplit('::', 1)[-1], v['n']))
    r.floor(7)


def r_reply_types(r, prog):
    DT = 'slicec_bin::definition_types::'
    # bit sequences are decoded as bool (strict 0/1), never as a masked byte
    decs = [f for f in prog.fns.values() if f.path.startswith('<' + DT) and f.path.endswith(' as slice_codec::decode_from::DecodeFrom>::decode_from')]
    if len(decs) < 3:
        raise AnchorMissing('DecodeFrom impls in definition_types (found %d)' % len(decs))
    for f in decs:
        adt = prog.adts.get(f.impl_adt)
        opt = [fl['n'] for fl in adt['variants'][0]['fields'] if fl['ty'].startswith('core::option::Option')] if adt and adt['kind'] == 'struct' else []
        calls = [c for c in f.calls() if c.name() == 'decode']
        if opt:
            first = calls[0] if calls else None
            if first is not None and first.targs and first.targs[-1] == 'bool' and f.dominates(first.bb, calls[-1].bb):
                r.ok('%s: bit-sequence decoded as a strict bool first' % f.impl_adt)
            else:
                r.finding('bit-sequence-not-strict:%s' % f.impl_adt, f.span, 'the decoder of %s does not start by decoding its bit-sequence with decode::<bool>() (found %s)' % (
                    f.impl_adt, first.targs if first else None))
        if adt and adt['kind'] == 'struct':
            sk = [c for c in f.calls() if c.name() == 'skip_tagged_fields']
            oks = [a for a in aggregates(prog, 'core::result::Result', 'Ok') if a['fn'] is f]
            if sk and oks and all(f.dominates(sk[0].bb, a['bb']) for a in oks):
                r.ok('%s: tagged fields skipped before success' % f.impl_adt)
            else:
                r.finding('tagged-fields-not-skipped:%s' % f.impl_adt, f.span, 'the decoder of %s does not skip tagged fields up to the end marker' % f.impl_adt)
    # DiagnosticLevel: explicit arms for the declared values, error for everything else
    lv = [f for f in decs if f.impl_adt == DT + 'DiagnosticLevel']
    if not lv:
        raise AnchorMissing('DecodeFrom for DiagnosticLevel')
    f = lv[0]
    nvar = len(prog.adts[DT + 'DiagnosticLevel']['variants'])
    good = False
    for i, blk in enumerate(f.blocks):
        t = blk['t']
        if t['k'] == 'switch' and t['ty'] == 'u8' and sorted(int(v) for v, _ in t['ts']) == list(range(nvar)):
            reach = f.reachable(t['else'])
            errs = [a for a in aggregates(prog, 'core::result::Result', 'Err') if a['fn'] is f and a['bb'] in reach]
            oks = [a for a in aggregates(prog, 'core::result::Result', 'Ok') if a['fn'] is f and a['bb'] in reach]
            good = bool(errs) and not oks
    if good:
        r.ok('DiagnosticLevel: values beyond the declared enumerators are an error')
    else:
        r.finding('level-not-strict', f.span, 'the DiagnosticLevel decoder does not reject values beyond its enumerators')
    r.floor(4)


def r_reply_errors_are_values(r, prog):
    """In the binary no codec Result of the reply path is unwrapped; decode errors flow through `?` into io::Error."""
    h = prog.fn('slicec_bin::handle_generator_response')
    dec = [c for c in h.calls() if c.name() == 'decode']
    from helpers import try_edges
    if len(dec) < 2:
        raise AnchorMissing('two decode() calls in handle_generator_response')
    for c in dec:
        if try_edges(h, c):
            r.ok('handle_generator_response: decode() result propagated with ?', c.span)
        else:
            r.finding('reply-decode-not-propagated', c.span, 'a decode() result in handle_generator_response is not tested / propagated')
    for f in prog.fns.values():
        if f.crate.tag != 'slicec_bin':
            continue
        for c in f.calls():
            if panics.classify_callee(c.callee) == 'unwrap' and c.args and 'slice_codec::error::Error' in (f.local_ty(c.args[0].get('mv', c.args[0].get('cp', {'l': 0}))['l']) if ('mv' in c.args[0] or 'cp' in c.args[0]) else ''):
                r.finding('codec-result-unwrapped:%s' % f.path, c.span, '%s unwraps a slice_codec Result' % f.path)
    conv = [i for i in prog.impls if i['_crate'].tag == 'slice_codec' and i.get('trait') == 'core::convert::From' and i['self'] == 'std::io::error::Error']
    if conv:
        r.ok('From<slice_codec::Error> for io::Error exists (used by ? in the reply path)')
    else:
        r.finding('no-io-conversion', '-', 'slice_codec::Error cannot be converted into io::Error')
    r.floor(3)



def r_decoder_preconditions(r, prog):
    guards.evaluate(r, prog, rule_scopes.guards_codec_decode, 'guards_codec_decode.json', 100)

def run(ctx):
    prog = ctx.prog
    ctx.run_rule('C11.8', 'T13', 'conditions under which the decoders read, reserve, refuse and return (precondition ledger)', r_decoder_preconditions, prog)
    ctx.run_rule('C11.1a', 'T7', 'panic-site ledger over slice-codec', r_codec_panic_ledger, prog)
    ctx.run_rule('C11.1b', 'T5', 'every error variant has a non-panicking rendering arm', r_error_rendering, prog)
    ctx.run_rule('C11.2', 'T2', 'unsafe-site table: every unsafe operation is dominated by the matching check of the same size', codec.r_unsafe_sites, prog)
    ctx.run_rule('C11.3a', 'T5', 'bool decoding rejects every byte but 0 and 1', codec.r_strict_bool, prog)
    ctx.run_rule('C11.3b', 'T5', 'strings are validated with String::from_utf8', codec.r_strict_utf8, prog)
    ctx.run_rule('C11.3c', 'T5', 'varints narrow through TryFrom; tags are range-checked varint32', codec.r_varint_narrowing, prog)
    ctx.run_rule('C11.3e', 'T3', 'a duplicate dictionary key is an error', codec.r_duplicate_keys, prog)
    ctx.run_rule('C11.3d', 'T5', 'reply types: strict bit-sequence, strict level, tagged fields skipped', r_reply_types, prog)
    from props import c08 as _c08
    ctx.run_rule('C11.3f', 'T6', 'the reply types are declared and decoded with the types of the schema (a string is a validated String, never raw bytes)', _c08.r_schema_encoders, prog, ctx.repo)
    ctx.run_rule('C11.4b', 'T10', 'a collection decoder reads exactly the announced number of elements (a truncated sequence fails, it is not shortened)', codec.r_element_count_is_announced, prog)
    from props import c18 as _c18
    ctx.run_rule('C11.10', 'T2', 'a generator reply is consumed completely or refused (left-over bytes are an error)', _c18.r_reply_consumed_completely, prog)
    ctx.run_rule('C11.4', 'T10', 'announced lengths reach reservations only bounded by remaining()', codec.r_announced_sizes, prog)
    ctx.run_rule('C11.5', 'T1', 'reply decode errors are values: propagated, converted, never unwrapped', r_reply_errors_are_values, prog)
    ctx.run_rule('C11.6', 'T2', 'a failed read leaves the source untouched; peeks never consume', codec.r_failure_leaves_no_trace, prog)
    ctx.run_rule('C11.7', 'T10', 'reads advance by exactly the checked count', codec.r_read_advances_by_checked_count, prog)
    ctx.run_rule('C11.9', 'T7', 'no panic-capable site on the path that handles the untrusted reply in the compiler (generator path of main.rs)', _c18.r_no_unwrap_in_generator_path, prog)
    for name, p in sorted(ctx.configs.items()):
        ctx.run_rule('C11.1a@' + name, 'T7', 'panic-site ledger over slice-codec [%s]' % name, r_codec_panic_ledger, p, name)
        ctx.run_rule('C11.2@' + name, 'T2', 'unsafe-site table [%s]' % name, codec.r_unsafe_sites if name != 'codec-nostd' else _unsafe_nostd, p)


def _unsafe_nostd(r, prog):
    # without alloc there is no VecOutputTarget / String: the table is evaluated on what exists, with a lower floor
    codec.r_unsafe_sites(r, prog)
    r.findings = [f for f in r.findings if 'anchor-missing:floor' not in f.key]
