"""C14 - emitted diagnostics are complete, well-formed and match the totals."""
import json
import re
from props import c15 as _c15

from mirlib import AnchorMissing, path_matches, op_place, const_str
from helpers import (try_edges, arm, aggregates, branches_on_field, calls_matching, edge_region, enum_switches, field_accesses, loop_of, must_pass,
                     origin_calls, vexpr)
from props import c07

EXPLANATION = (
    'Static decision of the structural clauses of C14 on the MIR of slicec: (1) both emitters iterate the vector once, front to back, and every '
    'write for a diagnostic is dominated by the level != Allowed edge; the container Diagnostics.0 is only pushed to / extended, never sorted, '
    'de-duplicated, truncated or reordered (positive control for the matcher included); (2) JSON shape: per diagnostic exactly one '
    'serialize_struct with the five keys message, severity, span, notes, error_code, then end(), then one newline; Span, Location and Note derive '
    'Serialize; (3) totals count Error and Warning levels of the very vector that is emitted, are printed only in human format, to stdout; '
    '(4) the writers of stderr in lib+bin are exactly the emitter, the generator stderr pass-through and the critical-error line; (5) with '
    'disable_color both colour switches are turned off before anything is written and no string constant contains an escape sequence. '
    'JSON escaping is serde_json\'s (trusted). Decides these clauses, not byte-exact output.')
THOROUGH_RERUN = ['release']     # the same rules over the release build (no debug assertions): verified clean on the pinned tree
ASSUMPTIONS = ['rustc type checking and MIR construction', 'serde_json escapes strings correctly and writes one object per serialize_struct', 'console honours set_colors_enabled']
DL = 'slicec::diagnostics::diagnostic::DiagnosticLevel'
EM = "slicec::diagnostic_emitter::DiagnosticEmitter::<'a, T>::"


def _level_switch(prog, f):
    out = []
    for sw in enum_switches(f, DL):
        if any(c.name() == 'level' for c, _ in origin_calls(f, sw['place'])):
            out.append(sw)
    return out


def r_emitters_skip_allowed_in_order(r, prog):
    variants = [v['n'] for v in prog.adts[DL]['variants']]
    ai = variants.index('Allowed')
    for nm in ('emit_diagnostics_in_human', 'emit_diagnostics_in_json'):
        f = prog.fn(EM + nm)
        sws = _level_switch(prog, f)
        if not sws:
            r.finding('no-level-test:%s' % nm, f.span, '%s does not branch on diagnostic.level(): suppressed lints would be emitted' % nm)
            continue
        sw = sws[0]
        lp = loop_of(f, sw['bb'])
        if lp is None:
            raise AnchorMissing('loop over the diagnostics in %s' % nm)
        head, body = lp
        allowed_tgt = arm(sw, ai)
        # writes: calls that take self.output (write_fmt, serialize*, emit_snippet, Serializer::new)
        writes = [c for c in f.calls() if c.bb in body and (c.name() in ('write_fmt', 'write_all', 'write', 'emit_snippet', 'serialize_struct', 'serialize_field', 'end', 'new')
                                                       and ('write' in c.name() or 'emit' in c.name() or 'serial' in c.name().lower() or 'Serializer' in (c.resolved or ''))
                                                       # any other method of the emitter may write (a helper extracted from the loop body): it is held to the same rule
                                                       or (c.resolved or c.callee or '').startswith(EM))]
        if len(writes) < 3:
            raise AnchorMissing('write calls in %s (found %d)' % (nm, len(writes)))
        bad = [c for c in writes if c.bb in f.reachable(allowed_tgt, blocked=[head]) or not f.dominates(sw['bb'], c.bb)]
        if bad:
            r.finding('write-not-behind-level-test:%s' % nm, bad[0].span, '%s writes (%s) on a path that did not pass the level != Allowed edge' % (nm, bad[0].name()))
        else:
            r.ok('%s: %d write(s) per diagnostic, all behind level != Allowed' % (nm, len(writes)))
        # the Allowed arm goes straight back to the loop head without writing
        if must_pass(f, allowed_tgt, [head], [c.bb for c in writes], within=body) and writes:
            r.finding('allowed-arm-writes:%s' % nm, f.span, 'the Allowed arm of %s writes before continuing' % nm)
        else:
            r.ok('%s: Allowed diagnostics leave no trace' % nm)
        # single pass, front to back: into_iter + next, no rev()/sort
        it = [c for c in f.calls() if c.name() == 'into_iter']
        nx = [c for c in f.calls() if c.name() == 'next' and c.bb in body]
        rev = [c for c in f.calls() if c.name() in ('rev', 'sort', 'sort_by', 'sort_by_key', 'sort_unstable', 'sort_unstable_by', 'reverse', 'dedup', 'dedup_by', 'dedup_by_key', 'retain', 'next_back', 'pop', 'swap_remove', 'skip', 'step_by', 'filter')]
        if len(it) >= 1 and nx and not rev and 'arg2' in vexpr(f, it[0].args[0]):
            r.ok('%s iterates its argument once, front to back' % nm)
        else:
            r.finding('emission-order:%s' % nm, f.span, '%s does not iterate the diagnostics vector exactly once from the front (found %s)' % (nm, [c.name() for c in rev]))
        if nm == 'emit_diagnostics_in_human':
            # every note of an emitted diagnostic is written: each pass of the loop over notes() goes through a write (no note is skipped
            # because of what was written before, no cap)
            nl = []
            for h, b in f.natural_loops():
                nxs = [c for c in f.calls() if c.name() == 'next' and c.bb in b and loop_of(f, c.bb)[0] == h and 'notes(' in vexpr(f, c.args[0])]
                if nxs:
                    nl.append((h, b, nxs[0]))
            if len(nl) != 1:
                raise AnchorMissing('the loop over diagnostic.notes() in %s' % nm)
            h, b, nx_ = nl[0]
            nwrites = [c for c in writes if c.bb in b]
            some = [arm(e, 1) for e in enum_switches(f) if e['bb'] in b and loop_of(f, e['bb'])[0] == h and 1 in e['arms'] and f.dominates(nx_.bb, e['bb'])]
            if nwrites and some and must_pass(f, some[0], [h], [c.bb for c in nwrites if c.name() == 'write_fmt'] or [c.bb for c in nwrites], within=b):
                r.ok('%s: every note of an emitted diagnostic is written (no pass of the notes loop skips the write)' % nm)
            else:
                r.finding('note-not-written:%s' % nm, f.span, '%s can go on to the next note without writing the current one: a diagnostic is shown without (some of) its notes' % nm)
    r.floor(7)


REORDER = ('sort', 'sort_by', 'sort_by_key', 'sort_unstable', 'sort_unstable_by', 'sort_unstable_by_key', 'dedup', 'dedup_by', 'dedup_by_key', 'retain', 'retain_mut', 'remove',
           'swap_remove', 'insert', 'swap', 'reverse', 'truncate', 'drain', 'clear', 'pop', 'split_off', 'rotate_left', 'rotate_right', 'append')


def r_container_append_only(r, prog):
    D = 'slicec::diagnostics::diagnostic::Diagnostics'
    n_mut = 0
    for f in prog.fns.values():
        if f.crate.tag not in ('slicec', 'slicec_bin'):
            continue
        for c in f.calls():
            if not c.args or op_place(c.args[0]) is None:
                continue
            ty = f.local_ty(op_place(c.args[0])['l'])
            if not ty.startswith('&mut') or not ('Vec<slicec::diagnostics::diagnostic::Diagnostic>' in ty or '[slicec::diagnostics::diagnostic::Diagnostic]' in ty):
                continue
            src = vexpr(f, c.args[0])
            if not re.search(r'arg\d+\.0$|\.0$', src) and 'Diagnostics' not in (f.impl_adt or ''):
                continue
            n_mut += 1
            if c.name() in ('push', 'extend', 'extend_from_slice'):
                r.ok('%s: %s on Diagnostics.0' % (f.path, c.name()))
            elif c.name() in REORDER:
                r.finding('diagnostics-reordered:%s:%s' % (f.path, c.name()), c.span, '%s calls %s on the diagnostics container: recorded order / completeness is lost' % (f.path, c.name()))
            elif c.name() in ('iter_mut', 'deref_mut', 'as_mut_slice', 'into_iter'):
                r.ok('%s: in-place iteration (%s)' % (f.path, c.name()))
            else:
                r.finding('diagnostics-container-mutated:%s:%s' % (f.path, c.name()), c.span, '%s calls %s on the diagnostics container (only push / extend are expected)' % (f.path, c.name()))
    # positive control: the matcher must see the known push and extend
    if n_mut < 2:
        raise AnchorMissing('positive control: push/extend on Diagnostics.0 (found %d mutable uses)' % n_mut)
    # the field is private: nobody outside the module can reorder it
    adt = prog.adts[D]
    if adt['variants'][0]['fields'][0]['vis'] == 'pub':
        r.finding('diagnostics-field-public', '-', 'Diagnostics.0 is public')
    else:
        r.ok('Diagnostics.0 is private')
    r.floor(3)


def r_json_shape(r, prog):
    f = prog.fn(EM + 'emit_diagnostics_in_json')
    ss = [c for c in f.calls() if c.name() == 'serialize_struct']
    sf = [c for c in f.calls() if c.name() == 'serialize_field']
    en = [c for c in f.calls() if c.name() == 'end']
    keys = [const_str(c.args[1]) for c in sf]
    want = ['message', 'severity', 'span', 'notes', 'error_code']
    if len(ss) == 1 and keys == want:
        r.ok('one JSON object per diagnostic with keys %s' % ', '.join(want))
    else:
        r.finding('json-keys', f.span, 'emit_diagnostics_in_json writes %d object(s) with keys %s, expected one with %s' % (len(ss), keys, want))
    if ss:
        n = None
        from mirlib import const_int
        n = const_int(ss[0].args[2]) if len(ss[0].args) > 2 else None
        if n == len(want):
            r.ok('serialize_struct announces %d fields' % n)
        else:
            r.finding('json-field-count', ss[0].span, 'serialize_struct announces %s fields, %d are written' % (n, len(keys)))
    # order: struct -> fields in order -> end -> newline, each dominated by the previous one succeeding
    seq = ss + sf + en
    nl = [c for c in f.calls() if c.name() == 'write_fmt']
    ok = len(en) == 1 and len(nl) == 1 and all(f.dominates(a.bb, b.bb) for a, b in zip(seq, seq[1:])) and f.dominates(en[0].bb, nl[0].bb)
    if ok:
        # ... on every path that goes on to the next diagnostic (or to the end): the newline is not conditional
        lp = loop_of(f, en[0].bb)
        oks = [okb for b_, okb, errb in try_edges(f, en[0]) if okb != errb]
        rets = [i for i, b in enumerate(f.blocks) if b['t']['k'] == 'return']
        if lp is None or not oks or not all(must_pass(f, o, [lp[0]], [nl[0].bb], within=lp[1]) for o in oks):
            ok = False
    if ok:
        r.ok('end() after the last field, then exactly one newline')
    else:
        r.finding('json-sequence', f.span, 'the JSON object is not written as struct, fields, end(), newline in that order')
    # values: message()/code()/span()/notes() of the same diagnostic
    srcs = [vexpr(f, c.args[2]) for c in sf]
    exp = ['message(', None, 'span(', 'notes(', 'code(']
    bad = [(k, s) for k, s, e in zip(keys, srcs, exp) if e and e not in s]
    if bad:
        r.finding('json-values:%s' % bad[0][0], f.span, 'JSON key %s is not filled from the diagnostic\'s %s accessor (%s)' % (bad[0][0], bad[0][0], bad[0][1][:60]))
    else:
        r.ok('JSON values come from message()/span()/notes()/code() of the diagnostic')
    # severity strings
    sev = sorted(set(re.findall(r"'(\w+)'", ' '.join(vexpr(f, c.args[2]) for c in sf if const_str(c.args[1]) == 'severity'))))
    if sev == ['error', 'warning']:
        r.ok('severity is "error" or "warning"')
    else:
        r.finding('json-severity', f.span, 'severity values are %s' % sev)
    # serde derives
    for t in ('slicec::slice_file::Span', 'slicec::slice_file::Location', 'slicec::diagnostics::Note'):
        if [i for i in prog.impls if i.get('self_adt') == t and (i.get('trait') or '').endswith('ser::Serialize')]:
            r.ok('%s implements Serialize' % t)
        else:
            r.finding('not-serializable:%s' % t, '-', '%s does not implement Serialize' % t)
    r.floor(8)


def r_totals(r, prog):
    g = prog.fn('slicec::diagnostics::diagnostic::get_totals')
    variants = [v['n'] for v in prog.adts[DL]['variants']]
    sws = _level_switch(prog, g)
    if not sws:
        r.finding('totals-not-by-level', g.span, 'get_totals does not count by diagnostic.level()')
    else:
        sw = sws[0]
        lp = loop_of(g, sw['bb'])
        head = lp[0] if lp else None
        res = {}
        for vi, v in enumerate(variants):
            tgt = arm(sw, vi)
            reg = g.reachable(tgt, blocked=[head] if head is not None else [])
            incs = []
            for bb, j, lhs, rv, s in g.assigns():
                if bb in reg and rv['k'] == 'bin' and rv['op'] in ('AddWithOverflow', 'Add', 'AddUnchecked'):
                    incs.append(g.local_name(op_place(rv['a'])['l']) if op_place(rv['a']) else '?')
            res[v] = incs
        exp_ok = len(res.get('Error', [])) == 1 and len(res.get('Warning', [])) == 1 and not res.get('Allowed') and res['Error'] != res['Warning']
        if exp_ok:
            r.ok('get_totals: Error and Warning counted separately, Allowed not counted', str(res))
        else:
            r.finding('totals-arms', g.span, 'get_totals increments %s' % res)
    # totals printed only in human format and to stdout
    for fp in ('slicec_bin::main', 'slicec::compilation_state::CompilationState::emit_diagnostics'):
        f = prog.fn(fp)
        et = [c for c in f.calls() if c.name() == 'emit_totals']
        if not et:
            r.finding('totals-not-emitted:%s' % fp, f.span, '%s does not emit totals' % fp)
            continue
        eqs = [c for c in f.calls() if c.name() == 'eq' and 'DiagnosticFormat' in (c.resolved or '')]
        from helpers import branches_on_call
        brs = branches_on_call(f, lambda c: c.name() == 'eq' and 'DiagnosticFormat' in (c.resolved or ''))
        if brs and all(any(f.edge_dominates(b['bb'], b['true'], c.bb) for b in brs) for c in et):
            r.ok('%s: totals only when diagnostic_format == Human' % fp.rsplit('::', 1)[-1])
        else:
            r.finding('totals-in-json:%s' % fp, et[0].span, '%s emits totals on a path not guarded by diagnostic_format == Human' % fp)
        # the counts passed are (warnings, errors) of get_totals in that order
        a0, a1 = vexpr(f, et[0].args[0]), vexpr(f, et[0].args[1])
        if a0.endswith('.0') and a1.endswith('.1') and 'get_totals(' in a0 and 'get_totals(' in a1:
            r.ok('%s: emit_totals(get_totals().0, get_totals().1)' % fp.rsplit('::', 1)[-1])
        else:
            r.finding('totals-arguments:%s' % fp, et[0].span, '%s passes (%s, %s) to emit_totals' % (fp, a0[:50], a1[:50]))
    t = prog.fn('slicec::diagnostic_emitter::emit_totals')
    if [c for c in t.calls() if path_matches(c.resolved, 'console::Term::stdout') or (c.resolved or '').endswith('Term::stdout')] and not [c for c in t.calls() if (c.resolved or '').endswith('Term::stderr')]:
        r.ok('emit_totals writes to stdout')
    else:
        r.finding('totals-stream', t.span, 'emit_totals does not write to stdout only')
    # the library's own emit path counts the vector it emits
    f = prog.fn('slicec::compilation_state::CompilationState::emit_diagnostics')
    gt = [c for c in f.calls() if c.name() == 'get_totals']
    ed = [c for c in f.calls() if c.name() == 'emit_diagnostics']
    if gt and ed and 'into_updated(' in vexpr(f, gt[0].args[0]) and vexpr(f, ed[0].args[1]).split('(')[0] == 'into_updated' and vexpr(f, ed[0].args[1]) in vexpr(f, gt[0].args[0]):
        r.ok('CompilationState::emit_diagnostics counts the vector it emits')
    else:
        r.finding('lib-totals-vector', f.span, 'CompilationState::emit_diagnostics does not count the very vector it emits')
    r.floor(7)


STDERR_WRITERS = {
    'slicec_bin::main': 'the emitter\'s terminal (console::Term::stderr) and the critical-error line before ExitCode::from(79)',
    'slicec_bin::collect_plugin_output': 'pass-through of a generator\'s stderr output',
    'slicec::compilation_state::CompilationState::emit_diagnostics': 'the emitter\'s terminal for library users',
}
STDOUT_WRITERS = {
    'slicec::diagnostic_emitter::emit_totals': 'summary counts (human format only)',
    'slicec_bin::handle_generator_response': 'messages of generator diagnostics (TODO in the code: not yet converted into slicec diagnostics)',
}


def r_stream_writers(r, prog):
    n = 0
    for f in prog.fns.values():
        if f.crate.tag not in ('slicec', 'slicec_bin') or f.generated:
            continue
        base = f.path.split('::{closure')[0]
        for c in f.calls():
            res = c.resolved or ''
            if res in ('std::io::stdio::_eprint', 'std::io::stdio::stderr') or res.endswith('Term::stderr') or res.endswith('io::stdio::_eprint') or res.endswith('io::stdio::stderr'):
                n += 1
                if base in STDERR_WRITERS:
                    r.ok('stderr written in %s' % base, STDERR_WRITERS[base])
                else:
                    r.finding('stray-stderr-writer:%s' % base, c.span, '%s writes to stderr (%s): nothing but the emitter may write the diagnostic stream' % (base, res))
            if res in ('std::io::stdio::_print', 'std::io::stdio::stdout') or res.endswith('Term::stdout') or res.endswith('io::stdio::_print') or res.endswith('io::stdio::stdout'):
                n += 1
                if base in STDOUT_WRITERS:
                    r.ok('stdout written in %s' % base, STDOUT_WRITERS[base])
                else:
                    r.finding('stray-stdout-writer:%s' % base, c.span, '%s writes to stdout (%s)' % (base, res))
    r.floor(5, 'stream writers')


def r_colour_switch(r, prog):
    f = prog.fn(EM + 'emit_diagnostics')
    brs = branches_on_field(f, 'DiagnosticEmitter', 'disable_color')
    a = [c for c in f.calls() if (c.resolved or '').endswith('console::utils::set_colors_enabled') or c.name() == 'set_colors_enabled']
    b = [c for c in f.calls() if c.name() == 'set_colors_enabled_stderr']
    emits = [c for c in f.calls() if c.name() in ('emit_diagnostics_in_human', 'emit_diagnostics_in_json')]
    from mirlib import const_int
    if brs and a and b and emits:
        br = brs[0]
        off = all(const_int(c.args[0]) == 0 for c in a + b)
        onedge = all(f.edge_dominates(br['bb'], br['true'], c.bb) for c in a + b)
        # every path from the disable edge to an emitter passes both switches
        before = all(must_pass(f, br['true'], [e.bb for e in emits], [c.bb]) for c in (a[0], b[0]))
        if off and onedge and before:
            r.ok('disable_color: both colour switches are turned off before anything is emitted')
        else:
            r.finding('colour-switch', f.span, 'with disable_color the two colour switches are not both turned off (false) before the first write')
    else:
        r.finding('colour-switch-missing', f.span, 'emit_diagnostics does not turn off console colours (stdout and stderr) on the disable_color edge')
    # no literal escape sequences in string constants of lib+bin
    hits = 0
    for g in prog.fns.values():
        if g.crate.tag not in ('slicec', 'slicec_bin') or g.generated:
            continue
        for bb, j, s in g.stmts():
            if 'lhs' in s:
                txt = json.dumps(s['rv'])
                if '\\\\u001b' in txt or '\\u001b' in txt:
                    hits += 1
                    r.finding('literal-escape-sequence:%s' % g.path, g.span_of(s.get('sp')), '%s contains a string constant with an ANSI escape sequence: colours could not be disabled' % g.path)
    if hits == 0:
        r.ok('no string constant contains an escape sequence')
    # styled text is only produced after the switch: by the human emitter and what it calls (and by emit_totals, which the binary calls
    # after the diagnostics were emitted). A label styled earlier - in the constructor, in a static - keeps its escape sequences whatever
    # --disable-color says.
    # (everything the human emitter calls inside the crate, to any depth - a helper extracted from it is as late as it is)
    late = set()
    todo = [EM + 'emit_diagnostics_in_human', 'slicec::diagnostic_emitter::emit_totals']
    while todo:
        p_ = todo.pop()
        g = prog.fns.get(p_)
        if g is None or p_ in late or g.crate.tag != 'slicec':
            continue
        late.add(p_)
        todo += [c.resolved for c in g.calls() if c.resolved in prog.fns and not g.blocks[c.bb].get('cleanup')]
        todo += [h.path for h in prog.fns.values() if h.path.startswith(p_ + '::{closure')]
    if EM + 'new' in late or EM + 'emit_diagnostics' in late:
        raise AnchorMissing('the human emitter calls the constructor / the dispatcher')
    LATE = tuple(sorted(late))
    early = []
    n_style = 0
    for g in prog.fns.values():
        if g.crate.tag not in ('slicec', 'slicec_bin') or g.generated:
            continue
        for c in g.calls():
            if not g.blocks[c.bb].get('cleanup') and re.search(r'^console::utils::style$|console::utils::StyledObject', c.resolved or ''):
                n_style += 1
                if not any(g.path == p_ or g.path.startswith(p_ + '::{closure') for p_ in LATE):
                    early.append((g, c))
    if n_style < 10:
        raise AnchorMissing('styling calls (found %d)' % n_style)
    if early:
        for g, c in early[:3]:
            r.finding('styled-before-colour-switch:%s' % g.path, c.span, '%s styles text (%s) outside the functions that run after the colour switch: with --disable-color that text keeps its escape sequences' % (g.path, c.name()))
    else:
        r.ok('text is styled only by the human emitter, the snippet code and emit_totals (%d calls), all of which run after the colour switch' % n_style)
    # disable_color field comes from the options
    new = prog.fn(EM + 'new')
    ag = [x for x in aggregates(prog, 'slicec::diagnostic_emitter::DiagnosticEmitter') if x['fn'] is new]
    if ag and 'disable_color' in vexpr(new, ag[0]['rv']['ops'][ag[0]['rv']['fn'].index('disable_color')]) and 'diagnostic_format' in vexpr(new, ag[0]['rv']['ops'][ag[0]['rv']['fn'].index('diagnostic_format')]):
        r.ok('emitter takes disable_color and diagnostic_format from the options')
    else:
        r.finding('emitter-options', new.span, 'DiagnosticEmitter::new does not take disable_color / diagnostic_format from SliceOptions')
    r.floor(4)


def r_snippet_from_span_file(r, prog):
    """The excerpt shown for a span is cut from the file that span names."""
    calls = prog.callers_of('slicec::slice_file::SliceFile::get_snippet')
    if not calls:
        raise AnchorMissing('callers of SliceFile::get_snippet')
    for c in calls:
        f = c.fn
        recv, start, end = [vexpr(f, a) for a in c.args[:3]]
        root = start.split('.')[0]
        others = set(re.findall(r'arg\d+', recv)) - {'arg1', root}
        m = re.search(r'find\(iter\(arg1\.files\),closure\(([^()]*)\)\)', recv)
        if start == root + '.start' and end == root + '.end' and m and root in m.group(1).split(',') and not others:
            # the closure compares relative_path with the span's file
            cl = [g for g in prog.closures_of(f)]
            cmpok = any('relative_path' in str(g.raw['blocks']) and "'n': 'file'" in str(g.raw['blocks']) for g in cl)
            if cmpok:
                r.ok('%s: snippet(span) is cut from the file found by span.file' % f.path)
                continue
        r.finding('snippet-from-other-file:%s' % f.path, c.span,
                  '%s cuts the excerpt for (%s, %s) from %s: the file is not looked up from that same span\'s file name alone, so a note in another file '
                  'shows text of the wrong file' % (f.path, start, end, recv[:90]))
    r.floor(1)


def r_format_dispatch(r, prog):
    f = prog.fn(EM + 'emit_diagnostics')
    DF = 'slicec::slice_options::DiagnosticFormat'
    sws = enum_switches(f, DF)
    variants = [v['n'] for v in prog.adts[DF]['variants']]
    if not sws:
        raise AnchorMissing('match on DiagnosticFormat in emit_diagnostics')
    sw = sws[0]
    exp = {'Human': 'emit_diagnostics_in_human', 'Json': 'emit_diagnostics_in_json'}
    for vi, v in enumerate(variants):
        tgt = arm(sw, vi)
        others = [arm(sw, k) for k in range(len(variants)) if k != vi]
        cs = [c.name() for c in f.calls() if c.bb in f.reachable(tgt, blocked=others) and c.name().startswith('emit_diagnostics_in')]
        if cs == [exp.get(v)]:
            r.ok('format %s -> %s' % (v, exp[v]))
        else:
            r.finding('format-dispatch:%s' % v, f.span, 'format %s is emitted by %s' % (v, cs))
    # the list that is written is the list that was handed in (and counted by the caller): the dispatcher passes its argument on untouched
    ems = [c for c in f.calls() if c.name().startswith('emit_diagnostics_in') and not f.blocks[c.bb].get('cleanup')]
    changed = [c for c in f.calls() if c.name() in REORDER + ('filter', 'retain', 'dedup_by', 'drain', 'into_iter', 'iter_mut', 'push', 'extend') and not f.blocks[c.bb].get('cleanup')]
    if ems and all(vexpr(f, c.args[1]) == 'arg2' for c in ems) and not changed:
        r.ok('emit_diagnostics hands its argument to the emitter of the format as it is')
    else:
        r.finding('emitted-list-altered', f.span, 'emit_diagnostics passes on %s%s: what is written is not the list that was given (and that the totals and the exit status were computed from)' % (
            sorted({vexpr(f, c.args[1])[:60] for c in ems}), (' after calling %s on it' % sorted({c.name() for c in changed})) if changed else ''))
    r.floor(3)


import decisions


def r_json_default_serializer(r, prog):
    """Each JSON line is written by serde_json's own serializer with its default (compact) formatter: a hand-written formatter is a second
    implementation of JSON string escaping (surrogate pairs, control characters) that nothing here verifies."""
    f = prog.fn(EM + 'emit_diagnostics_in_json')
    mk = [c for c in f.calls() if 'serde_json::ser::Serializer' in (c.resolved or '') and c.name() in ('new', 'with_formatter', 'pretty') and not f.blocks[c.bb].get('cleanup')]
    if len(mk) == 1 and mk[0].name() == 'new':
        r.ok('serde_json::Serializer::new (default formatter)')
    else:
        r.finding('json-custom-formatter', mk[0].span if mk else f.span, 'emit_diagnostics_in_json builds its serializer with %s' % ([c.name() for c in mk] or 'nothing recognisable'))
    r.floor(1)


def run(ctx):
    prog = ctx.prog
    ctx.run_rule('C14.1a', 'T2', 'emitters: single pass in order, every write behind level != Allowed', r_emitters_skip_allowed_in_order, prog)
    ctx.run_rule('C14.1b', 'T1', 'the diagnostics container is append-only', r_container_append_only, prog)
    ctx.run_rule('C14.2', 'T4', 'JSON shape: one object, five keys in order, end(), newline', r_json_shape, prog)
    ctx.run_rule('C14.2b', 'T6', 'format dispatch', r_format_dispatch, prog)
    from props import c09 as _c09
    ctx.run_rule('C14.2d', 'T10', 'the snippet code counts characters, never bytes (a byte offset inside a multi-byte character aborts the emission half-way)', _c09.r_snippet_units, prog)
    ctx.run_rule('C14.4b', 'T1', 'JSON lines are written by serde_json\'s own serializer and formatter', r_json_default_serializer, prog)
    ctx.run_rule('C14.1c', 'T2', 'every reported diagnostic is recorded (no cap, no filter in push_into / extend)', decisions.r_container_records_everything, prog)
    ctx.run_rule('C14.2c', 'T10', 'a snippet is cut from the file its span names', r_snippet_from_span_file, prog)
    ctx.run_rule('C14.3a', 'T10', 'totals: counted by level, human format only, stdout', r_totals, prog)
    ctx.run_rule('C14.3b', 'T10', 'exit status and totals come from the emitted vector', c07.r_exit_status, prog)
    ctx.run_rule('C14.4', 'T1', 'writers of stderr / stdout are the frozen set', r_stream_writers, prog)
    ctx.run_rule('C14.5', 'T2', 'colour switch and no literal escape sequences', r_colour_switch, prog)
    ctx.run_rule('C14.6', 'T10', 'the diagnostics emitted and counted are exactly what into_updated returned (nothing filtered in between)', _c15.r_emitted_is_updated, prog)
