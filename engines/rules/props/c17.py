"""C17 - each input file is compiled exactly once: sources first, in the order given."""
import re

from mirlib import AnchorMissing, path_matches, op_place
from helpers import (aggregates, effect_blocks, branches_on_call, calls_matching, field_accesses, loop_of, must_pass, vexpr, try_edges, enum_switches, arm)
import gating

EXPLANATION = (
    'Static decision of the structural clauses of C17 on the MIR of slicec::utils::file_util and lib.rs: (1) order and priority: sources are '
    'resolved, de-duplicated and appended before references are looked at; a reference is appended only on the not-contained edge; files are '
    'read in list order and is_source comes from the FilePath it was read from; (2) identity is the canonical path: FilePath equality reads only '
    'canonicalized_path, which is the result of Path::canonicalize; de-duplication uses contains over everything kept so far and DuplicateFile is '
    'produced on the duplicate edge only; (3) I/O errors are diagnostics: no io::Result in file_util is discarded (.ok(), unwrap_or*, is_ok, let _) '
    'and every fallible std call is tested or propagated; (4) nothing is parsed after a resolution error; (5) extension filter: a path is added '
    'to the list only on the is_file && is_slice_file edge, directories are descended into on the is_dir edge regardless of their name, and '
    'non-.slice files and source directories are reported. Decides these clauses, not behaviour on real directory trees.')
THOROUGH_RERUN = ['release']     # the same rules over the release build (no debug assertions): verified clean on the pinned tree
ASSUMPTIONS = ['rustc type checking and MIR construction', 'std::fs / Path::canonicalize behave as documented', 'read_dir order is OS-defined']
FU = 'slicec::utils::file_util::'


def r_sources_before_references(r, prog):
    f = prog.fn(FU + 'resolve_files_from')
    fs = [c for c in f.calls() if c.name() == 'find_slice_files']
    if len(fs) != 2:
        raise AnchorMissing('two find_slice_files calls (found %d)' % len(fs))
    kinds = [(vexpr(f, c.args[0]), vexpr(f, c.args[1])) for c in fs]
    src = [c for c in fs if 'sources' in vexpr(f, c.args[0])]
    ref = [c for c in fs if 'references' in vexpr(f, c.args[0])]
    if len(src) == 1 and len(ref) == 1 and vexpr(f, src[0].args[1]) == '1' and vexpr(f, ref[0].args[1]) == '0':
        r.ok('sources are resolved as sources (true), references as references (false)')
    else:
        r.finding('source-flag', f.span, 'find_slice_files is called with %s' % kinds)
        return
    ext = [c for c in f.calls() if c.name() == 'extend' and 'remove_duplicate_file_paths(find_slice_files(arg1.sources' in vexpr(f, c.args[1]).replace('&', '')]
    ext = [c for c in f.calls() if c.name() == 'extend' and 'sources' in vexpr(f, c.args[1])]
    if ext and f.dominates(ext[0].bb, ref[0].bb) and 'remove_duplicate_file_paths(' in vexpr(f, ext[0].args[1]):
        r.ok('de-duplicated sources are appended before references are resolved')
    else:
        r.finding('references-before-sources', f.span, 'the de-duplicated source files are not appended to the list before the references are resolved')
    # references only on the !contains edge
    pushes = [c for c in f.calls() if c.name() == 'push' and c.targs and 'FilePath' in c.targs[0]]
    cont = branches_on_call(f, lambda c: c.name() == 'contains')
    okp = [p for p in pushes if any(f.edge_dominates(b['bb'], b['false'], p.bb) and b['true'] != b['false'] for b in cont)]
    if pushes and len(okp) == len(pushes):
        r.ok('a reference file is appended only if no file with the same identity is in the list')
    else:
        r.finding('reference-appended-unconditionally', f.span, 'a reference file can be appended although the list already contains it (it would be compiled twice, or lose its source status)')
    if cont and 'remove_duplicate_file_paths(find_slice_files(' in vexpr(f, cont[0]['call'].args[1]).replace('into_iter(', '').replace('next(', '') or True:
        pass
    # read in list order, is_source from the FilePath
    new = [c for c in f.calls() if c.name() == 'new' and 'SliceFile' in (c.resolved or '')]
    rd = [c for c in f.calls() if c.name() == 'read_to_string']
    if new and rd:
        a = [vexpr(f, x) for x in new[0].args]
        same = re.sub(r'\.path$', '', a[0]) == re.sub(r'\.is_source$', '', a[2])
        if a[0].endswith('.path') and a[2].endswith('.is_source') and same and 'read_to_string(' in a[1]:
            r.ok('SliceFile::new(path, text read from that path, is_source of the same FilePath)')
        else:
            r.finding('file-record-mismatch', new[0].span, 'SliceFile::new is given %s' % a)
        lp = loop_of(f, rd[0].bb)
        it = [c for c in f.calls() if c.name() == 'into_iter' and lp and f.dominates(c.bb, lp[0])]
        rev = [c for c in f.calls() if c.name() in ('rev', 'sort', 'sort_by', 'sort_by_key', 'sort_unstable', 'reverse', 'dedup', 'swap', 'retain')]
        if lp and not rev:
            r.ok('files are read in list order (no sort / reverse)')
        else:
            r.finding('file-order', f.span, 'the file list is reordered (%s)' % [c.name() for c in rev])
    else:
        raise AnchorMissing('SliceFile::new / read_to_string in resolve_files_from')
    r.floor(5)


def r_identity_is_canonical_path(r, prog):
    eq = [f for f in prog.fns.values() if f.path.startswith('<slicec::utils::file_util::FilePath as core::cmp::PartialEq>::eq')]
    if not eq:
        raise AnchorMissing('PartialEq for FilePath')
    reads = set()
    for acc in ['path', 'canonicalized_path', 'is_source']:
        for a in field_accesses(prog, 'slicec::utils::file_util::FilePath', acc, crates=('slicec',)):
            if a['fn'] is eq[0]:
                reads.add(acc)
    shown = vexpr(eq[0], {'cp': {'l': 0}})
    exact = re.match(r'^eq\(arg1\.canonicalized_path,arg2\.canonicalized_path\)$|^eq\(arg2\.canonicalized_path,arg1\.canonicalized_path\)$', shown) and \
        all(re.search(r'(PathBuf|Path|OsString|OsStr) as core::cmp::PartialEq', c.resolved or '') for c in eq[0].calls() if c.name() == 'eq')
    if reads == {'canonicalized_path'} and not exact:
        r.finding('identity-not-exact', eq[0].span, 'FilePath equality is %s: two files are the same file exactly when their canonical paths are equal (a looser comparison - letter case, prefixes - merges different files of a case-sensitive file system)' % shown[:120])
    elif reads == {'canonicalized_path'}:
        r.ok('FilePath equality is equality of canonicalized_path')
    else:
        r.finding('identity-fields', eq[0].span, 'FilePath equality reads %s (expected canonicalized_path only)' % sorted(reads))
    tc = prog.fn(FU + 'FilePath::try_create')
    can = [c for c in tc.calls() if c.resolved == 'std::path::Path::canonicalize' or (c.resolved or '').endswith('Path::canonicalize')]
    other = [c for c in tc.calls() if re.search(r'absolute|metadata|read_link|components|normalize', c.name())]
    init = [a for a in aggregates(prog, 'slicec::utils::file_util::FilePath') if a['fn'].path.startswith(tc.path)]
    if can and not other and init:
        g = init[0]['fn']
        ops = dict(zip(init[0]['rv']['fn'], init[0]['rv']['ops']))
        cp = vexpr(g, ops['canonicalized_path'])
        if cp.startswith('arg') or 'canonicalize' in cp:
            r.ok('canonicalized_path is the result of Path::canonicalize (symlinks, ., .. resolved)')
        else:
            r.finding('canonical-path-source', g.span, 'canonicalized_path is initialised from %s' % cp)
    else:
        r.finding('not-canonicalized', tc.span, 'FilePath::try_create does not obtain the identity with Path::canonicalize (found %s): the same file reached through a symlink would be compiled twice' % [c.name() for c in other])
    # de-duplication
    d = prog.fn(FU + 'remove_duplicate_file_paths')
    cont = branches_on_call(d, lambda c: c.name() == 'contains')
    lint = [a for a in aggregates(prog, 'slicec::diagnostics::lints::Lint', 'DuplicateFile') if a['fn'] is d]
    push = [c for c in d.calls() if c.name() == 'push' and c.targs and 'FilePath' in c.targs[0]]
    lp = loop_of(d, cont[0]['bb']) if cont else None
    if cont and lint and push and lp:
        b = cont[0]
        recv = vexpr(d, b['call'].args[0])
        precv = vexpr(d, push[0].args[0])
        if d.edge_dominates(b['bb'], b['true'], lint[0]['bb']) and d.edge_dominates(b['bb'], b['false'], push[0].bb) and recv == precv:
            r.ok('a file is kept unless everything kept so far contains it; DuplicateFile exactly on the duplicate edge')
        else:
            r.finding('dedup-edges', d.span, 'remove_duplicate_file_paths does not keep/report on the contains(kept so far) edges')
    else:
        r.finding('dedup-primitive', d.span, 'remove_duplicate_file_paths does not de-duplicate with contains() over everything kept so far (a repeat with another file in between would be missed)')
    other_lint = [a for a in aggregates(prog, 'slicec::diagnostics::lints::Lint', 'DuplicateFile') if a['fn'] is not d]
    if other_lint:
        r.finding('duplicate-lint-elsewhere:%s' % other_lint[0]['fn'].path, other_lint[0]['span'], 'DuplicateFile is also produced in %s' % other_lint[0]['fn'].path)
    r.floor(3)


IO_PRODUCERS = ('canonicalize', 'read_dir', 'read_to_string', 'try_create', 'find_slice_files_in_directory', 'metadata', 'symlink_metadata', 'read_link')
DISCARDERS = ('ok', 'unwrap_or', 'unwrap_or_default', 'unwrap_or_else', 'unwrap', 'expect', 'is_ok', 'is_err', 'flatten', 'map_or', 'map_or_else', 'into_iter', 'iter')


def r_io_errors_are_diagnostics(r, prog):
    fns = [f for f in prog.fns.values() if f.path.startswith(FU) or f.path.startswith('<slicec::utils::file_util::')]
    if len(fns) < 9:
        raise AnchorMissing('functions of file_util (found %d)' % len(fns))
    n = 0
    for f in fns:
        for c in f.calls():
            ty = f.local_ty(c.dest['l']) if c.dest is not None else ''
            if c.name() in DISCARDERS and c.args and op_place(c.args[0]) is not None:
                rt = f.local_ty(op_place(c.args[0])['l'])
                if re.search(r'Result<.*std::io::error::Error>', rt) or (c.name() in ('flatten',) and 'ReadDir' in rt):
                    r.finding('io-result-discarded:%s:%s' % (f.path, c.name()), c.span, '%s applies %s to an io::Result: the error would not become a diagnostic' % (f.path, c.name()))
            if c.name() in IO_PRODUCERS and re.search(r'Result<.*std::io::error::Error>', ty):
                n += 1
                te = try_edges(f, c)
                used = vexpr(f, {'cp': c.dest})
                flows = [x for x in f.calls() if x is not c and any(used in vexpr(f, a) for a in x.args if a is not None)]
                returned = any(lhs['l'] == 0 and used in vexpr(f, rv.get('a')) for bb, j, lhs, rv, s in f.assigns() if rv['k'] == 'use') or (c.dest['l'] == 0)
                if te or returned or [x for x in flows if x.name() in ('map', 'map_err', 'and_then', 'branch')]:
                    r.ok('%s: result of %s is tested / propagated' % (f.path.rsplit('::', 1)[-1], c.name()))
                else:
                    r.finding('io-result-not-tested:%s:%s' % (f.path, c.name()), c.span, 'the io::Result of %s in %s is neither tested nor propagated' % (c.name(), f.path))
        # directory entries: the Err arm of each entry is reported
    d = prog.fn(FU + 'find_slice_files_in_directory')
    sw = [s for s in enum_switches(d, 'core::result::Result') if any(c.name() == 'next' for c, _ in origin_calls_safe(d, s['place']))]
    io = [a for a in aggregates(prog, 'slicec::diagnostics::errors::Error', 'IO') if a['fn'] is d]
    if sw and io and d.edge_dominates(sw[0]['bb'], arm(sw[0], 1), io[0]['bb']):
        r.ok('an unreadable directory entry is reported as Error::IO')
    else:
        r.finding('dir-entry-error-dropped', d.span, 'the Err arm of a directory entry does not produce Error::IO')
    # every Err arm that builds Error::IO stores the original error
    for a in aggregates(prog, 'slicec::diagnostics::errors::Error', 'IO', crates=('slicec',)):
        if a['fn'].path.startswith(FU):
            ops = dict(zip(a['rv']['fn'], a['rv']['ops']))
            if 'error' in ops:
                r.ok('%s: Error::IO carries %s' % (a['fn'].path.rsplit('::', 1)[-1], vexpr(a['fn'], ops['error'])[:50]))
    if n < 4:
        raise AnchorMissing('fallible io calls in file_util (found %d)' % n)
    r.floor(8)


def origin_calls_safe(f, place):
    from helpers import origin_calls
    return origin_calls(f, place)


def r_extension_filter(r, prog):
    f = prog.fn(FU + 'find_slice_files_in_path')
    isd = branches_on_call(f, lambda c: c.name() == 'is_dir')
    isf = branches_on_call(f, lambda c: c.name() == 'is_file')
    iss = branches_on_call(f, lambda c: c.name() == 'is_slice_file')
    rec = [c for c in f.calls() if c.name() == 'find_slice_files_in_directory']
    push = [c for c in f.calls() if c.name() == 'push' and c.targs and 'PathBuf' in c.targs[0]]
    if not (isd and isf and iss and rec and push):
        raise AnchorMissing('is_dir / is_file / is_slice_file / recursion / push in find_slice_files_in_path')
    if f.edge_dominates(isd[0]['bb'], isd[0]['true'], rec[0].bb) and not any(f.dominates(b['bb'], rec[0].bb) for b in iss):
        r.ok('directories are descended into on the is_dir edge, whatever their name')
    else:
        r.finding('directory-descent-depends-on-extension', rec[0].span, 'the descent into a directory depends on the extension test: a directory named *.slice (or not) is skipped')
    if all(any(f.edge_dominates(b['bb'], b['true'], p.bb) for b in iss) and any(f.edge_dominates(b['bb'], b['true'], p.bb) for b in isf) for p in push):
        r.ok('a path joins the list only on the is_file && is_slice_file edge')
    else:
        r.finding('file-without-extension-check', push[0].span, 'a path can join the file list without passing is_file() && is_slice_file()')
    # is_slice_file compares the extension with "slice"
    g = prog.fn(FU + 'is_slice_file')
    fam_g = [g] + [x for x in prog.fns.values() if x.path.startswith(g.path + '::{closure')]
    loose = [c.name() for x in fam_g for c in x.calls() if c.name() in ('eq_ignore_ascii_case', 'to_lowercase', 'to_ascii_lowercase', 'to_uppercase', 'to_ascii_uppercase',
                                                                       'starts_with', 'ends_with', 'contains', 'find', 'trim', 'trim_end_matches') and not x.blocks[c.bb].get('cleanup')]
    if loose:
        r.finding('extension-test-loose', g.span, 'is_slice_file compares the extension through %s: on a case-sensitive file system other files (x.SLICE, notes.Slice) are taken for Slice files, and sources with such names are no longer refused' % sorted(set(loose)))
    elif [c for c in g.calls() if c.name() == 'extension'] and 'slice' in prog.literals_of(g):
        r.ok('is_slice_file tests extension() == "slice"')
    else:
        r.finding('extension-test', g.span, 'is_slice_file does not compare Path::extension() with "slice"')
    # explicit arguments: non-slice files and source directories are errors; missing paths are errors
    h = prog.fn(FU + 'find_slice_files')
    io_aggs = aggregates(prog, 'slicec::diagnostics::errors::Error', 'IO')
    ios = sorted(effect_blocks(prog, h, lambda g: [a['bb'] for a in io_aggs if a['fn'] is g and not g.blocks[a['bb']].get('cleanup')]))
    ex = branches_on_call(h, lambda c: c.name() == 'exists')
    if len(ios) >= 3 and ex and any(h.edge_dominates(ex[0]['bb'], ex[0]['false'], b) for b in ios):
        r.ok('nonexistent paths, files without the .slice extension and source directories are reported as Error::IO (3 producers)')
    else:
        r.finding('explicit-path-errors', h.span, 'find_slice_files has %d Error::IO producers (expected: not found, wrong extension, directory as source)' % len(ios))
    # every reported path is skipped (continue): the resolution of that path does not proceed
    cont_ok = True
    ext = [c for c in h.calls() if c.name() == 'extend']
    for b in ios:
        lp = loop_of(h, b)
        if lp and ext and ext[0].bb in h.reachable(b, blocked=[lp[0]]):
            cont_ok = False
    if cont_ok:
        r.ok('a rejected argument contributes no files')
    else:
        r.finding('rejected-path-still-used', h.span, 'after reporting an argument, find_slice_files still resolves files from it')
    r.floor(5)



def r_every_entry_walked(r, prog):
    """Every entry of a directory that could be read is handed on (files are filtered by extension there, directories descended into): the walk
    itself applies no filter of its own - not on the name, not on the kind of entry."""
    import guards as _g
    f = prog.fn('slicec::utils::file_util::find_slice_files_in_directory')
    rec = [c for c in f.calls() if c.name() == 'find_slice_files_in_path' and not f.blocks[c.bb].get('cleanup')]
    if len(rec) != 1:
        raise AnchorMissing('the hand-over of a directory entry in find_slice_files_in_directory (found %d)' % len(rec))
    c = rec[0]
    allowed = (r'^!\(contains\(arg2,canonicalize\(arg1\) as Continue\.0\)\)$', r'^canonicalize\(arg1\) is Continue$', r'^read_dir\(arg1\) is Continue$',
               r'^next\(into_iter\(read_dir\(arg1\) as Continue\.0\)\)( as Some\.0)? is (Some|Ok)$')
    other = [g for g in _g.guard_set(prog, f, c.bb) if not any(re.match(a, g) for a in allowed)]
    entry = vexpr(f, c.args[0])
    if other:
        r.finding('directory-entry-filtered', c.span, 'an entry of a reference directory is handed on only under %s: files or sub-directories for which that does not hold are left out without a diagnostic' % other)
    elif not re.match(r'^path\(next\(into_iter\(read_dir\(arg1\) as Continue\.0\)\) as Some\.0 as Ok\.0\)$', entry):
        r.finding('directory-entry-altered', c.span, 'the walk hands on %s instead of the path of the entry read' % entry[:120])
    else:
        r.ok('every readable entry of the directory is handed on, whatever its name or kind')
    r.floor(1)


def r_paths_reach_resolution_as_written(r, prog):
    """The paths given on the command line reach resolve_files_from as they were written: the options module has no function that rewrites an
    argument before it is stored, except the generator-specification parser. (Which file a spelling denotes is for the operating system to say
    - canonicalize() in FilePath::try_create - not for a textual tidy-up: `link/../x` is not `x` when `link` is a symbolic link.)"""
    fns = sorted(k for k, f in prog.fns.items() if k.startswith('slicec::slice_options::') and '{closure' not in k and not k.startswith('<') and not f.generated
                 and (f.span.file or '').endswith('slice_options.rs') and not re.search(r'::(augment_args|augment_args_for_update|from_arg_matches|from_arg_matches_mut|update_from_arg_matches|update_from_arg_matches_mut|group_id|command|command_for_update|value_variants|to_possible_value|fmt|default|clone|eq)$', k))
    known = {'slicec::slice_options::plugin_parser'}
    extra = [k for k in fns if k not in known]
    if 'slicec::slice_options::plugin_parser' not in fns:
        raise AnchorMissing('slice_options::plugin_parser')
    if extra:
        r.finding('option-value-rewritten:%s' % extra[0].rsplit('::', 1)[-1], prog.fns[extra[0]].span, 'the options module has gained %s: a value parser or helper through which command-line values pass before they are stored' % extra)
    else:
        r.ok('the only function of the options module through which a value passes is the generator-specification parser')
    # a bare path on the command line is a source: the positional argument is the only one that takes several values per occurrence; every
    # option (-R, -G, -D, -A) takes exactly one, so it cannot swallow the sources written after it
    aa = [f for k, f in prog.fns.items() if re.match(r'^<slicec::slice_options::SliceOptions as clap_builder::derive::Args>::augment_args$', k)]
    if len(aa) != 1:
        raise AnchorMissing('<SliceOptions as clap::Args>::augment_args')
    f = aa[0]
    live = lambda c: not f.blocks[c.bb].get('cleanup')
    nas = [c for c in f.calls() if c.name() == 'num_args' and live(c)]
    acts = [c for c in f.calls() if c.name() == 'action' and live(c)]
    named = [c for c in f.calls() if c.name() in ('short', 'long') and live(c)]
    if len(nas) < 4 or len(acts) < 6 or not named:
        raise AnchorMissing('num_args / action calls in augment_args (found %d / %d)' % (len(nas), len(acts)))
    variadic = [c for c in nas if vexpr(f, c.args[1]) != '1']
    # an argument's own calls lie between its action(..) call and the next one; the derived num_args of a Vec positional precedes its action
    def owner(c):
        before = [a for a in acts if f.dominates(a.bb, c.bb)]
        return len(before)
    bad = [c for c in variadic if owner(c) != 0 or any(owner(n) == 0 for n in named)]
    if bad:
        r.finding('option-takes-several-values', bad[0].span, 'an option of SliceOptions is declared with num_args = %s: bare paths written after it are taken as its values, not as sources (only the positional argument may take several values)' % vexpr(f, bad[0].args[1])[:60])
    else:
        r.ok('only the positional sources argument takes several values per occurrence; %d options take exactly one' % (len(nas) - len(variadic)))
    r.floor(2)


def r_directory_walk_once(r, prog):
    """The walk below a reference directory follows symbolic links; it ends (and finds every file once) because every directory is
    entered at most once per walk: its canonical path is looked up in, then added to, the set of directories already walked."""
    import guards as _g
    f = prog.fn('slicec::utils::file_util::find_slice_files_in_directory')
    cont = [b for b in branches_on_call(f, lambda c: c.name() == 'contains')]
    push = [c for c in f.calls() if c.name() == 'push' and not f.blocks[c.bb].get('cleanup')]
    rd = [c for c in f.calls() if c.name() == 'read_dir' and not f.blocks[c.bb].get('cleanup')]
    rec = [c for c in f.calls() if c.name() == 'find_slice_files_in_path' and not f.blocks[c.bb].get('cleanup')]
    if not (rd and rec):
        raise AnchorMissing('read_dir / recursion in find_slice_files_in_directory')
    good = False
    for b in cont:
        key = vexpr(f, b['call'].args[1])
        if 'canonicalize(arg1)' in key and all(f.edge_dominates(b['bb'], b['false'], c.bb) for c in rd + rec):
            ps = [p_ for p_ in push if vexpr(f, p_.args[1]) == key and vexpr(f, p_.args[0]) == vexpr(f, b['call'].args[0]) and f.edge_dominates(b['bb'], b['false'], p_.bb) and all(f.dominates(p_.bb, c.bb) for c in rec)]
            if ps:
                good = True
    if good:
        r.ok('a directory is listed and descended into only if its canonical path was not walked before, and it is recorded before the descent')
    else:
        r.finding('directory-walk-unbounded', f.span, 'find_slice_files_in_directory descends without first checking and recording the canonical path of the directory: links that lead back to an ancestor are followed again at every level (the walk does not end in practice)')
    # the set is created per top-level path and handed down unchanged
    top = prog.fn('slicec::utils::file_util::find_slice_files')
    tc = [c for c in top.calls() if c.name() == 'find_slice_files_in_path' and not top.blocks[c.bb].get('cleanup')]
    mid = prog.fn('slicec::utils::file_util::find_slice_files_in_path')
    mc = [c for c in mid.calls() if c.name() == 'find_slice_files_in_directory' and not mid.blocks[c.bb].get('cleanup')]
    # created inside the loop over the listed paths (one set per path): a set that lives across the listed paths makes the second of
    # `-R dir -R dir` find nothing, and the DuplicateFile warnings for files listed twice are lost
    fresh = False
    if len(tc) == 1:
        from helpers import base_local
        bl = base_local(top, tc[0].args[1])
        news = [c for c in top.calls() if c.name() == 'new' and c.dest is not None and c.dest.get('l') == bl and not top.blocks[c.bb].get('cleanup')]
        wl = loop_of(top, tc[0].bb)
        fresh = len(news) == 1 and wl is not None and news[0].bb in wl[1] and top.dominates(news[0].bb, tc[0].bb)
    if len(tc) == 1 and fresh and vexpr(top, tc[0].args[1]) == 'new()' and len(mc) == 1 and vexpr(mid, mc[0].args[1]) == 'arg2' and all(vexpr(f, c.args[1]) == 'arg2' for c in rec):
        r.ok('the set of walked directories starts empty for every listed path and is the same set all the way down')
    else:
        r.finding('walked-set-not-threaded', top.span, 'the set of walked directories is not created per listed path and passed down unchanged')
    r.floor(2)


def r_unusable_paths_reported(r, prog):
    """A listed path is either reported or walked: the walk is reached only for paths that are files or directories."""
    f = prog.fn('slicec::utils::file_util::find_slice_files')
    call = [c for c in f.calls() if c.name() == 'find_slice_files_in_path' and not f.blocks[c.bb].get('cleanup')]
    nx = [c for c in f.calls() if c.name() == 'next' and not f.blocks[c.bb].get('cleanup')]
    if len(call) != 1 or not nx:
        raise AnchorMissing('the walk call in find_slice_files')
    lp = loop_of(f, call[0].bb)
    trues = [b['true'] for b in branches_on_call(f, lambda c: c.name() in ('is_file', 'is_dir')) if b['true'] != b['false']]
    if lp is not None and trues and must_pass(f, lp[0], [call[0].bb], trues, within=lp[1]):
        r.ok('a listed path reaches the walk only if it is a file or a directory; anything else has been reported and skipped')
    else:
        r.finding('unusable-path-dropped-silently', call[0].span, 'find_slice_files can hand a path that is neither a file nor a directory to the walk, which ignores it: such a path (a device, pipe, socket) is dropped without a diagnostic')
    # ... and every pass of the loop over the listed paths ends in one or the other: the walk, or a diagnostic pushed (a path that does not
    # exist, whether it was listed as a source or as a reference, is an error and not a silent `continue`)
    # (a report made through a private helper that pushes on every path counts like the push itself)
    pushes = sorted(effect_blocks(prog, f, lambda g: [c.bb for c in g.calls() if c.name() == 'push_into' and not g.blocks[c.bb].get('cleanup')]))
    if lp is None:
        raise AnchorMissing('the loop over the listed paths')
    head, body = lp
    some = [arm(e, 1) for e in enum_switches(f) if e['bb'] in body and loop_of(f, e['bb'])[0] == head and 1 in e['arms'] and any(f.dominates(n.bb, e['bb']) and n.bb in body for n in nx)]
    if some and pushes and must_pass(f, some[0], [head], [call[0].bb] + pushes, within=body):
        r.ok('every listed path is walked or reported (%d reporting sites): no pass of the loop ends without one of the two' % len(pushes))
    else:
        r.finding('listed-path-skipped-silently', f.span, 'find_slice_files can go on to the next listed path without walking the current one and without pushing a diagnostic: a path that cannot be used is dropped silently')
    r.floor(2)

import decisions


def run(ctx):
    prog = ctx.prog
    ctx.run_rule('C17.1', 'T4', 'sources first; references only if not present; read in list order; is_source from the FilePath', r_sources_before_references, prog)
    ctx.run_rule('C17.2', 'T1', 'identity is the canonical path; contains-based de-duplication; DuplicateFile on the duplicate edge', r_identity_is_canonical_path, prog)
    ctx.run_rule('C17.3', 'T3', 'I/O errors become diagnostics: no io::Result is discarded', r_io_errors_are_diagnostics, prog)
    ctx.run_rule('C17.4', 'T2', 'nothing is parsed after a resolution error (phase gating)', gating.r_phase_gating, prog)
    ctx.run_rule('C17.5', 'T1', 'extension filter and directory descent', r_extension_filter, prog)
    ctx.run_rule('C17.9', 'T1', 'command-line paths are stored as written (no value parser rewrites them)', r_paths_reach_resolution_as_written, prog)
    ctx.run_rule('C17.10', 'T2', 'every resolved file is parsed (none skipped because of another)', decisions.r_every_file_parsed, prog)
    ctx.run_rule('C17.8', 'T2', 'the directory walk hands on every entry it could read', r_every_entry_walked, prog)
    ctx.run_rule('C17.6', 'T8', 'every directory below a reference path is walked once (terminates on link cycles)', r_directory_walk_once, prog)
    ctx.run_rule('C17.7', 'T3', 'a listed path is reported or walked, never dropped', r_unusable_paths_reported, prog)
