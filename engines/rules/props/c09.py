"""C09 - reported locations point at the right source text (structural clauses)."""
import re

from mirlib import AnchorMissing, op_place, is_bare
from helpers import aggregates, vexpr, field_accesses, _vexpr_def, edge_region, base_local, bool_branches
import grammarflow
import guards
import pathsim
import rule_scopes

EXPLANATION = (
    'Columns for particular texts (tabs, CRLF, multi-byte) are value-level and not decided as such. Decided: (1) span provenance: for every '
    'expanded production of the generated Slice and doc-comment parsers the grammar action is evaluated path-sensitively (the presence of each '
    'optional symbol is known per production, so `if x.is_some() { l1 } else { l2 }` is resolved) and the two locations given to Span::new are '
    'expressed in the production\'s own symbols, exactly as the generated wrapper computes @L/@R around absent symbols: a span must start at the start '
    'of a non-empty symbol that is not the prelude and end at the end of a non-empty symbol; identifiers, type references, attributes, literals, '
    'links and message blocks span exactly their production; declarations start at the first symbol after the prelude and include the name; the '
    'span built is the one stored in the element; (2) cursor discipline in the three lexers: the character iterator is advanced only by '
    'advance_buffer, which adds one column per character and starts a new row at column 1 on a newline; row/col are otherwise only set as a '
    'whole from a recorded start (block / line switch); locations start at (1,1); (3) token locations: every token and lexer error takes both '
    'ends from the cursor (or a start captured from it), and never reads the cursor after the lexer has been repositioned onto other text; (4) '
    'snippets count characters, not bytes: byte lengths in get_snippet/get_highlight are taken only of constants and digit strings; the '
    'conditions of the highlight arithmetic are frozen (ledger); (5) doc comments: span starts three columns before its text and is extended to '
    'the end of every appended tag.')
THOROUGH_RERUN = ['release']     # the same rules over the release build (no debug assertions): verified clean on the pinned tree
ASSUMPTIONS = ['rustc type checking and MIR construction', 'LALRPOP generated parser: wrapper template and @L = lookahead start / @R = lookbehind end']

GRAMMARS = (('slice', 'slicec::parsers::slice::grammar::lalrpop', 'parser'), ('comments', 'slicec::parsers::comments::grammar::lalrpop', 'comment_parser'))
# nonterminals whose span is exactly their production
TIGHT = {'slice': ('Identifier', 'RelativeIdentifier', 'GlobalIdentifier', 'Integer', 'TypeRef', 'Attribute'),
         'comments': ('Identifier', 'ScopedIdentifier', 'MessageLines', 'Section', 'InlineLink')}
# declarations: (nonterminal, name symbol)
DECLS = {'slice': {'Module': 'RelativeIdentifier', 'Struct': 'ContainerIdentifier', 'Field': 'Identifier', 'Interface': 'ContainerIdentifier', 'Operation': 'ContainerIdentifier',
                   'Parameter': 'Identifier', 'Enum': 'ContainerIdentifier', 'Enumerator': 'ContainerIdentifier', 'CustomType': 'Identifier', 'TypeAlias': 'Identifier'},
         'comments': {}}


def _nullable(gen):
    nts = {p['nt'] for p in gen.productions}
    nul = set()
    changed = True
    while changed:
        changed = False
        for p in gen.productions:
            if p['nt'] not in nul and all(s in nul for s in p['syms']):
                nul.add(p['nt'])
                changed = True
    return nul, nts


def _spans_of(flow, p):
    v, names = flow.top(p)
    if v[0] != 'U':
        return None, names, []
    f = flow.action_fn(v[1])
    presence = {i + 2: (a[0] == 'some') for i, a in enumerate(v[2]) if a[0] in ('some', 'none')}
    calls, aggs, ret = pathsim.run(f, presence)
    out = []
    for n, args, t in calls:
        if n == 'new' and (t['f'].get('res') or '').endswith('Span::new'):
            out.append((flow.compose(f, args[0], v, names), flow.compose(f, args[1], v, names), 'Span::new'))
    for adt, var, fl in aggs:
        if adt.endswith('slice_file::Span'):
            out.append((flow.compose(f, fl['start'], v, names), flow.compose(f, fl['end'], v, names), 'Span{..}'))
    return f, names, out


def r_span_provenance(r, prog, facts_dir):
    total = 0
    for gname, mod, first in GRAMMARS:
        flow = grammarflow.Flow(prog, facts_dir, gname, mod, first)
        nul, nts = _nullable(flow.gen)
        for p in flow.gen.productions:
            label = '%s = %s' % (p['nt'], ' '.join(p['syms']))
            try:
                f, names, spans = _spans_of(flow, p)
            except pathsim.Undecided as e:
                r.finding('span-undecided:%s:%s' % (gname, label), '-', 'the grammar action of %s branches on something other than the presence of its optional symbols (%s): its spans cannot be decided' % (label, e))
                continue
            if f is None:
                continue
            for start, end, how in spans:
                total += 1
                ok = True
                ms = re.match(r'^start\((.+)#(\d+)\)$', start)
                if ms:
                    sym = ms.group(1)
                    if sym in nul or sym == 'Prelude':
                        ok = False
                        r.finding('span-start:%s:%s' % (gname, label), f.span, 'in %s the span starts at the start of `%s`, which can be empty (it then sits at the edge of a neighbouring token)' % (label, sym))
                elif re.match(r'^[\w<>"(), :+?*-]+#\d+\.span\.start$', start):
                    pass
                else:
                    ok = False
                    r.finding('span-start:%s:%s' % (gname, label), f.span,
                              'in %s the span starts at %s: not the start of one of the element\'s own tokens (an absent optional symbol leaves the neighbouring token\'s edge there)' % (label, start))
                me = re.match(r'^end\((.+)#(\d+)\)$', end)
                if me:
                    sym = me.group(1)
                    if sym in nul:
                        ok = False
                        r.finding('span-end:%s:%s' % (gname, label), f.span, 'in %s the span ends at the end of `%s`, which can be empty' % (label, sym))
                elif re.match(r'^[\w<>"(), :+?*-]+#\d+\.span\.end$', end):
                    pass
                else:
                    ok = False
                    r.finding('span-end:%s:%s' % (gname, label), f.span,
                              'in %s the span ends at %s: not the end of one of the element\'s own tokens (without the optional symbol it reaches the next token)' % (label, end))
                if ok and ms and me:
                    i, j = names.index('%s#%s' % ms.groups()), names.index('%s#%s' % me.groups())
                    if i > j:
                        ok = False
                        r.finding('span-inverted:%s:%s' % (gname, label), f.span, 'in %s the span starts at %s and ends at %s' % (label, start, end))
                    if p['nt'] in TIGHT[gname] and (i != 0 or j != len(names) - 1):
                        ok = False
                        r.finding('span-not-tight:%s:%s' % (gname, label), f.span, 'the span of %s is [%s .. %s], not exactly its production' % (label, start, end))
                    if p['nt'] in DECLS[gname]:
                        name_i = names.index(DECLS[gname][p['nt']] + '#1')
                        if names[0] != 'Prelude#1' or i != 1 or j < name_i:
                            ok = False
                            r.finding('span-declaration:%s:%s' % (gname, label), f.span, 'the span of the declaration %s is [%s .. %s]: it must start at the first symbol after the prelude and include the name' % (label, start, end))
                if ok:
                    r.ok('%s: [%s .. %s]' % (label, start, end))
            # tight / declared nonterminals must build a span of their own
            if (p['nt'] in TIGHT[gname] or p['nt'] in DECLS[gname]) and len([s for s in spans if s[2] == 'Span::new']) != 1:
                r.finding('span-not-built:%s:%s' % (gname, label), f.span, '%s builds %d spans of its own (expected one covering its symbols)' % (label, len(spans)))
        # the span built is the span stored: helpers pass their `span` parameter to the element literal
    G = 'slicec::parsers::slice::grammar::'
    n = 0
    for f in prog.fns.values():
        if not f.path.startswith(G + 'construct_') or f.kind == 'closure':
            continue
        argn = {f.local_name(i): i for i in range(1, f.argc + 1)}
        if 'span' not in argn:
            continue
        for a in aggregates(prog, 'slicec::grammar::*', crates=('slicec',)) if False else []:
            pass
        ags = [(bb, rv) for bb, j, lhs, rv, s in f.assigns() if rv['k'] == 'agg' and rv.get('adt', '').startswith('slicec::grammar::elements::') and 'span' in (rv.get('fn') or []) and not f.blocks[bb].get('cleanup')]
        uses = [c for c in f.calls() if c.name() == 'new' and 'Attribute' in (c.callee or '') and not f.blocks[c.bb].get('cleanup')]
        for bb, rv in ags:
            n += 1
            got = vexpr(f, dict(zip(rv['fn'], rv['ops']))['span'])
            if got in ('arg%d' % argn['span'], 'clone(arg%d)' % argn['span']):
                r.ok('%s stores the span it is given' % f.path.rsplit('::', 1)[-1])
            else:
                r.finding('span-not-stored:%s' % f.path.rsplit('::', 1)[-1], f.span, '%s stores %s as the element\'s span, not its `span` parameter' % (f.path, got))
        for c in uses:
            n += 1
            if vexpr(f, c.args[2]) == 'arg%d' % argn['span']:
                r.ok('%s stores the span it is given' % f.path.rsplit('::', 1)[-1])
            else:
                r.finding('span-not-stored:%s' % f.path.rsplit('::', 1)[-1], f.span, '%s builds the attribute with span %s' % (f.path, vexpr(f, c.args[2])))
    if n < 12:
        raise AnchorMissing('construct_* helpers storing a span (found %d)' % n)
    r.floor(75)


LEXERS = {
    'slice': ("slicec::parsers::slice::lexer::Lexer::<'input, T>::", "<slicec::parsers::slice::lexer::Lexer<'input, T> as core::iter::traits::iterator::Iterator>::next", 'slicec::parsers::slice::lexer::Lexer', True),
    'comments': ("slicec::parsers::comments::lexer::Lexer::<'input>::", "<slicec::parsers::comments::lexer::Lexer<'input> as core::iter::traits::iterator::Iterator>::next", 'slicec::parsers::comments::lexer::Lexer', False),
    'preprocessor': ("slicec::parsers::preprocessor::lexer::Lexer::<'input>::", "<slicec::parsers::preprocessor::lexer::Lexer<'input> as core::iter::traits::iterator::Iterator>::next", 'slicec::parsers::preprocessor::lexer::Lexer', True),
}
# whole-cursor assignments: function -> value
REPOSITION = {
    'slice': {"<slicec::parsers::slice::lexer::Lexer<'input, T> as core::iter::traits::iterator::Iterator>::next": 'arg1.current_block.start'},
    'comments': {"slicec::parsers::comments::lexer::Lexer::<'input>::switch_to_next_line": 'arg3.start'},
    'preprocessor': {},
}


def _lexer_fns(prog, name):
    pre, nxt, adt, rows = LEXERS[name]
    return [f for f in prog.fns.values() if (f.path.startswith(pre) or f.path == nxt or f.path.startswith(nxt + '::{closure')) and f.crate.tag == 'slicec']


def _cursor_writes(f):
    out = []
    for bb, j, lhs, rv, s in f.assigns():
        names = [x.get('n') for x in lhs.get('p', []) if isinstance(x, dict) and 'f' in x]
        if 'cursor' in names and not f.blocks[bb].get('cleanup'):
            out.append((bb, '.'.join(names[names.index('cursor'):]), _vexpr_def(f, ('assign', bb, j, rv), 14, set())))
    return out


def r_cursor_discipline(r, prog):
    for name, (pre, nxt, adt, rows) in LEXERS.items():
        fns = _lexer_fns(prog, name)
        ab = prog.fn(pre + 'advance_buffer')
        # the character iterator is advanced only by advance_buffer
        for f in fns:
            for c in f.calls():
                if c.name() in ('next', 'next_if', 'next_if_eq', 'nth', 'advance_by', 'last', 'count', 'skip', 'skip_while', 'take_while', 'find', 'position', 'for_each', 'fold', 'collect', 'by_ref') \
                        and c.args and re.search(r'arg1\.buffer$|arg1\.buffer\)', vexpr(f, c.args[0])) and not f.blocks[c.bb].get('cleanup'):
                    if f is ab and c.name() == 'next':
                        continue
                    r.finding('buffer-advanced-outside-advance_buffer:%s:%s' % (name, f.path.rsplit('::', 1)[-1]), c.span, '%s calls %s on the character buffer: characters consumed there are not counted in the cursor' % (f.path, c.name()))
        nx = [c for c in ab.calls() if c.name() == 'next']
        if len(nx) == 1 and not ab.natural_loops():
            r.ok('%s lexer: advance_buffer consumes one character' % name)
        else:
            r.finding('advance-buffer-shape:%s' % name, ab.span, 'advance_buffer of the %s lexer calls next %d times' % (name, len(nx)))
        ws = sorted((w, v) for bb, w, v in _cursor_writes(ab))
        want = [('cursor.col', '1'), ('cursor.col', 'Add(1,arg1.cursor.col)'), ('cursor.row', 'Add(1,arg1.cursor.row)')] if rows else [('cursor.col', 'Add(1,arg1.cursor.col)')]
        if ws == want:
            r.ok('%s lexer: one column per character%s' % (name, '; a newline starts the next row at column 1' if rows else ''))
        else:
            r.finding('cursor-arithmetic:%s' % name, ab.span, 'advance_buffer of the %s lexer updates the cursor as %s' % (name, ws))
        if rows:
            # the row is advanced on '\n' exactly
            rw = [bb for bb, w, v in _cursor_writes(ab) if w == 'cursor.row']
            gs = guards.guard_set(prog, ab, rw[0]) if rw else []
            if any(re.search(r'== 10$|^Eq\(10,next\(arg1\.buffer\) as Some\.0(\.1)?\)$', g) for g in gs):
                r.ok('%s lexer: the row advances on "\\n"' % name)
            else:
                r.finding('row-advance-condition:%s' % name, ab.span, 'the row advances under %s' % gs)
        # other writers
        for f in fns:
            if f is ab:
                continue
            for bb, w, v in _cursor_writes(f):
                allowed = REPOSITION[name].get(f.path)
                if w == 'cursor' and allowed is not None and v == allowed:
                    r.ok('%s lexer: %s repositions the cursor to a recorded start (%s)' % (name, f.path.rsplit('::', 1)[-1], v))
                elif f.path.endswith('::new'):
                    continue
                else:
                    r.finding('cursor-written:%s:%s' % (name, f.path.rsplit('::', 1)[-1]), f.span, '%s writes %s = %s' % (f.path, w, v))
        for a in field_accesses(prog, adt, 'cursor', crates=('slicec',)):
            if a['kind'] in ('write', 'refmut') and a['fn'] not in fns:
                r.finding('cursor-written-outside-lexer:%s:%s' % (name, a['fn'].path), a['span'], '%s writes the %s lexer\'s cursor' % (a['fn'].path, name))
    d = prog.fn('<slicec::slice_file::Location as core::default::Default>::default')
    ag = [rv for bb, j, lhs, rv, s in d.assigns() if rv['k'] == 'agg' and rv.get('adt', '').endswith('Location')]
    if ag and [vexpr(d, o) for o in ag[0]['ops']] == ['1', '1']:
        r.ok('locations start at row 1, column 1')
    else:
        r.finding('location-origin', d.span, 'Location::default is %s' % [[vexpr(d, o) for o in x['ops']] for x in ag])
    r.floor(11)


def r_token_locations(r, prog):
    n = 0
    for name, (pre, nxt, adt, rows) in LEXERS.items():
        for f in _lexer_fns(prog, name):
            # token / error tuples: (Location, kind, Location)
            tuples = []
            for bb, j, lhs, rv, s in f.assigns():
                if rv['k'] == 'agg' and rv.get('ak') == 'tuple' and len(rv['ops']) == 3 and not f.blocks[bb].get('cleanup'):
                    tys = [f.local_ty(op_place(o)['l']) if op_place(o) is not None else (o.get('c') if isinstance(o, dict) else None) for o in rv['ops']]
                    if tys[0] == 'slicec::slice_file::Location' and tys[2] == 'slicec::slice_file::Location':
                        tuples.append((bb, rv))
            for bb, rv in tuples:
                n += 1
                s_, e_ = vexpr(f, rv['ops'][0]), vexpr(f, rv['ops'][2])
                okv = lambda x: all(re.match(r'^(arg1\.cursor|arg\d+|arg1\.cursor\.\w+|unwrap\(take\(.*\)\))$', y) for y in re.sub(r'^phi\((.*)\)$', r'\1', x).split('|'))
                argn = {i: f.local_name(i) for i in range(1, f.argc + 1)}
                for which, x in (('start', s_), ('end', e_)):
                    parts = re.sub(r'^phi\((.*)\)$', r'\1', x).split('|')
                    for y in parts:
                        m = re.match(r'^arg(\d+)$', y)
                        if 'cursor' in y or (m and (argn.get(int(m.group(1))) or '').startswith('start')) or re.match(r'^unwrap\(take\(', y) or re.search(r' as Ok\.0\.[02]$', y):
                            continue
                        r.finding('token-location-source:%s:%s:%s' % (name, f.path.rsplit('::', 1)[-1], which), f.span, 'a token built by %s takes its %s from %s, not from the cursor' % (f.path, which, y))
            # the end of a token is read after everything the token consumed
            CONSUME = re.compile(r'^(advance_buffer|advance_to_end_of_line|read_\w+|skip_\w+|consume_\w+)$')
            cons = [c for c in f.calls() if CONSUME.match(c.name()) and not f.blocks[c.bb].get('cleanup') and c.target is not None]
            for bb, rv in tuples:
                p_end = op_place(rv['ops'][2])
                if p_end is None or p_end.get('p'):
                    continue
                # follow plain copies back to the statement that reads the cursor
                cur, reads, hops = p_end['l'], [], 0
                while hops < 6:
                    hops += 1
                    ds = [d for d in f.defs_of(cur) if not f.blocks[d[1]].get('cleanup')]
                    if len(ds) != 1 or ds[0][0] != 'assign' or ds[0][3]['k'] != 'use':
                        break
                    src = op_place(ds[0][3]['a'])
                    if src is None:
                        break
                    if [x for x in src.get('p', []) if isinstance(x, dict) and x.get('n') == 'cursor']:
                        reads = [ds[0]]
                        break
                    if src.get('p'):
                        break
                    cur = src['l']
                if len(reads) != 1:
                    continue
                rb, rj = reads[0][1], reads[0][2]
                for c in cons:
                    reach_c = f.reachable(c.target)
                    if bb in reach_c and rb not in reach_c and f.dominates(rb, bb):
                        # the read happened before the consuming call and was not repeated afterwards
                        r.finding('token-end-read-early:%s:%s' % (name, f.path.rsplit('::', 1)[-1]), f.span,
                                  '%s reads the end of a token from the cursor before %s has consumed the rest of it' % (f.path, c.name()))
                        break
            # no cursor read after a repositioning in the same invocation
            repos = [c for c in f.calls() if c.name() == 'switch_to_next_line' and not f.blocks[c.bb].get('cleanup')]
            repos_bbs = [c.target for c in repos if c.target is not None] + [bb for bb, w, v in _cursor_writes(f) if w == 'cursor']
            if repos_bbs and tuples:
                reads = []
                for bb, j, lhs, rv, s in f.assigns():
                    if rv['k'] == 'use' and not f.blocks[bb].get('cleanup'):
                        p = op_place(rv['a'])
                        if p is not None and p['l'] == 1 and [x for x in p.get('p', []) if isinstance(x, dict) and x.get('n') == 'cursor']:
                            reads.append(bb)
                late = [bb for bb in reads if any(bb in f.reachable(rb) for rb in repos_bbs)]
                if late:
                    r.finding('cursor-read-after-reposition:%s:%s' % (name, f.path.rsplit('::', 1)[-1]), f.span,
                              '%s reads the cursor after the lexer has been moved to the next line/block: the token built from it is located in text it does not belong to' % f.path)
                else:
                    r.ok('%s: token locations are read before the lexer is repositioned' % f.path.rsplit('::', 1)[-1])
    if n < 40:
        raise AnchorMissing('token tuples in the lexers (found %d)' % n)
    r.ok('every token and lexer error takes its locations from the cursor (%d tuples)' % n)
    r.floor(2)


def r_snippet_units(r, prog):
    fns = [prog.fn('slicec::slice_file::SliceFile::get_snippet'), prog.fn('slicec::slice_file::get_highlight')]
    fns += [f for f in prog.fns.values() if any(f.path.startswith(x.path + '::{closure') for x in fns)]
    n = 0
    for f in fns:
        for c in f.calls():
            if f.blocks[c.bb].get('cleanup'):
                continue
            if c.name() == 'len' and ('str' in (c.callee or '') or 'String' in (c.callee or '')):
                n += 1
                a = vexpr(f, c.args[0])
                if re.match(r"^'.*'$", a) or re.match(r'^(deref\()?to_string\((arg\d+|_\w*)\.row\)\)?$', a) or 'EXPANDED_TAB' in a or re.match(r'^const<', a):
                    r.ok('%s: byte length of %s (a constant or a number\'s digits)' % (f.path.rsplit('::', 1)[-1], a[:40]))
                else:
                    r.finding('byte-length-of-source-text:%s' % f.path.rsplit('::', 1)[-1], c.span, '%s takes the byte length of %s: columns are counted in characters, so the underline is misplaced on lines with multi-byte characters' % (f.path, a))
        for c in f.calls():
            if c.name() in ('find', 'rfind', 'char_indices', 'bytes', 'as_bytes', 'split_at', 'get', 'index') and 'str' in (c.callee or '') and not f.blocks[c.bb].get('cleanup'):
                r.finding('byte-offset-in-snippet:%s:%s' % (f.path.rsplit('::', 1)[-1], c.name()), c.span, '%s uses the byte-oriented %s on source text' % (f.path, c.name()))
    gs = prog.fn('slicec::slice_file::SliceFile::get_snippet')
    cc = [c for c in gs.calls() if c.name() == 'count' and 'chars(' in vexpr(gs, c.args[0])]
    if cc:
        r.ok('the width of a line is its number of characters')
    else:
        r.finding('line-width', gs.span, 'get_snippet does not measure lines with chars().count()')
    # tabs: the displayed line shows a tab as EXPANDED_TAB, the span counts it as one character: the underline must add the difference
    gh = prog.fn('slicec::slice_file::get_highlight')
    ghs = [gh] + [f for f in prog.fns.values() if f.path.startswith(gh.path + '::{closure')]
    tab_tests = 0
    for f in ghs:
        for i, blk in enumerate(f.blocks):
            t = blk['t']
            if t['k'] == 'switch' and not blk.get('cleanup') and any(str(v) == '9' for v, _ in t['ts']):
                tab_tests += 1
        for bb, j, lhs, rv, s_ in f.assigns():
            if rv['k'] == 'bin' and rv['op'] in ('Eq', 'Ne') and ('9' in (vexpr(f, rv['a']), vexpr(f, rv['b']))):
                tab_tests += 1
    tab_len = [c for f in ghs for c in f.calls() if c.name() == 'len' and 'EXPANDED_TAB' in vexpr(f, c.args[0]) and not f.blocks[c.bb].get('cleanup')]
    # the displayed line expands every tab to the same constant the underline arithmetic uses (a tab stop model in one and a fixed width in the
    # other drift apart after the first tab that is not at the start of the line)
    rp = [c for c in gs.calls() if c.name() == 'replace' and not gs.blocks[c.bb].get('cleanup') and len(c.args) == 3]
    shown_ok = len(rp) == 1 and vexpr(gs, rp[0].args[1]) == '9' and 'EXPANDED_TAB' in vexpr(gs, rp[0].args[2])
    if not shown_ok:
        r.finding('tab-expansion-of-shown-line', rp[0].span if rp else gs.span, 'get_snippet shows the line as %s: the underline counts EXPANDED_TAB per tab, so the line must be shown with every tab replaced by EXPANDED_TAB' % ([vexpr(gs, a)[:40] for c in rp for a in c.args[1:]] or 'something other than line.replace(tab, EXPANDED_TAB)'))
    elif tab_tests >= 2 and len(tab_len) >= 2:
        r.ok('get_highlight widens the gap before and the underline itself by the expansion of every tab (%d tab tests, %d uses of the expansion width)' % (tab_tests, len(tab_len)))
    else:
        r.finding('tabs-not-accounted', gh.span, 'get_highlight tests for a tab %d time(s) and uses the width of its expansion %d time(s): with tabs before or inside the span the underline no longer sits under the spanned text' % (tab_tests, len(tab_len)))
    r.floor(3)


def r_highlight_bounds(r, prog):
    """The two bounds handed to get_highlight, per line of the snippet: on the span's first line the underline starts at (start column - 1),
    on every other line at 0; on the span's last line it ends at (end column - 1), on every other line at the line's width in characters.
    Lines are numbered from 1 (enumerate index + 1). Decided from the values and the conditions of their assignments."""
    f = prog.fn('slicec::slice_file::SliceFile::get_snippet')
    cs = [c for c in f.calls() if c.name() == 'get_highlight' and not f.blocks[c.bb].get('cleanup')]
    if len(cs) != 1:
        raise AnchorMissing('one call of get_highlight in get_snippet (found %d)' % len(cs))
    c = cs[0]
    for idx, (pos, what) in enumerate((('arg2', 'start'), ('arg3', 'end'))):
        l = op_place(c.args[1 + idx])['l']
        while True:
            ds = [x for x in f.defs_of(l) if x[0] == 'assign']
            if len(ds) == 1 and ds[0][3]['k'] == 'use' and op_place(ds[0][3]['a']) is not None and is_bare(op_place(ds[0][3]['a'])):
                l = op_place(ds[0][3]['a'])['l']
                continue
            break
        table = {}
        for dd in ds:
            val = guards._norm_elem(_vexpr_def(f, dd, 10, set()), f.path)
            conds = [guards.canon(guards._norm_elem(g, f.path)) for g in guards.guard_set(prog, f, dd[1]) if not guards._LOOP_HAS_NEXT.match(g)]
            table[val] = conds
        on_row = [r'^Eq\(Add\(1,elem\.0\),%s\.row\)$' % pos, r'^Eq\(%s\.row,Add\(1,elem\.0\)\)$' % pos, r'^Eq\(elem\.0,Sub\(%s\.row,1\)\)$' % pos]
        off_row = [x.replace('^Eq', '^Ne') for x in on_row]
        edge = 'Sub(%s.col,1)' % pos
        other = '0' if what == 'start' else None
        probs = []
        if edge not in table or not any(re.match(p_, g) for p_ in on_row for g in table[edge]):
            probs.append('on the %s line of the span the bound is not %s.col - 1 (values %s)' % (('first', 'last')[idx], what, sorted(table)))
        rest = [v for v in table if v != edge]
        if len(rest) != 1 or (other is not None and rest[0] != other) or (other is None and not re.match(r'^count\(chars\(.*elem\.1\)\)$|^count\(chars\(next\(.*\) as Some\.0\.1\)\)$', rest[0])):
            probs.append('on the other lines the bound is %s (expected %s)' % (rest, other if other is not None else 'the number of characters of the line'))
        elif not any(re.match(p_, g) for p_ in off_row for g in table[rest[0]]):
            probs.append('the other-lines value %s is not selected by the line number differing from %s.row (%s)' % (rest[0], pos, table[rest[0]]))
        if probs:
            r.finding('highlight-bound:%s' % what, c.span, '; '.join(probs))
        else:
            r.ok('underline %s: %s.col - 1 on the span\'s %s line, %s elsewhere; lines numbered from 1' % (what, what, ('first', 'last')[idx], rest[0][:40]))
    r.floor(2)


def r_snippet_arithmetic(r, prog):
    guards.evaluate(r, prog, rule_scopes.guards_snippet, 'guards_snippet.json', 4)


def r_doc_comment_span(r, prog, facts_dir):
    f = prog.fn('slicec::parsers::comments::grammar::create_doc_comment')
    ws = {}
    for bb, j, lhs, rv, s in f.assigns():
        names = [x.get('n') for x in lhs.get('p', []) if isinstance(x, dict) and 'f' in x]
        if names and not f.blocks[bb].get('cleanup'):
            ws['.'.join(names)] = (_vexpr_def(f, ('assign', bb, j, rv), 14, set()), guards.guard_set(prog, f, bb))
    sn = [c for c in f.calls() if c.name() == 'new' and (c.f.get('res') or '').endswith('Span::new')]
    if sn and [vexpr(f, a) for a in sn[0].args[:2]] == ['arg2', 'arg2'] and ws.get('start.col', ('',))[0] == 'Sub(new(arg2,arg2,arg3).start.col,3)':
        r.ok('a doc comment starts three columns before its first text (the "///")')
    else:
        r.finding('doc-comment-start', f.span, 'create_doc_comment: %s' % ws)
    e = ws.get('end')
    if e and e[0] == 'arg1 as Some.0.span.end' and 'arg1 is Some' in e[1]:
        r.ok('... and ends where its overview ends')
    else:
        r.finding('doc-comment-end', f.span, 'create_doc_comment sets end to %s' % (e,))
    flow = grammarflow.Flow(prog, facts_dir, 'comments', GRAMMARS[1][1], 'comment_parser')
    for p in flow.gen.prods_of('DocComment'):
        if len(p['syms']) != 2:
            v, names = flow.top(p)
            cs = [(n, a) for n, callee, a, c in flow.calls(p) if n == 'create_doc_comment']
            want = 'start(MessageLines#1)' if p['syms'] else '@behind'
            if cs and cs[0][1][1] == want:
                r.ok('DocComment = %s starts at %s' % (' '.join(p['syms']), want))
            else:
                r.finding('doc-comment-start-symbol:%s' % ' '.join(p['syms']), '-', 'DocComment = %s starts at %s' % (' '.join(p['syms']), cs))
            continue
        v, names = flow.top(p)
        fa = flow.action_fn(v[1])
        sets = []
        for bb, j, lhs, rv, s in fa.assigns():
            nm = [x.get('n') for x in lhs.get('p', []) if isinstance(x, dict) and 'f' in x]
            if nm[-2:] == ['span', 'end'] and not fa.blocks[bb].get('cleanup'):
                sets.append(flow.compose(fa, vexpr(fa, rv['a']), v, names))
        if sets == ['%s.span.end' % names[1]]:
            r.ok('appending %s extends the comment to the end of that tag' % p['syms'][1])
        else:
            r.finding('doc-comment-extent:%s' % p['syms'][1], fa.span, 'appending %s sets the comment\'s end to %s' % (p['syms'][1], sets))
    r.floor(6)


def r_locations_written_by_parsers_only(r, prog):
    """A location, once a parser has produced it, reaches the reports unchanged: the row/col of a Location and the start/end/file of a Span
    are assigned only inside slicec::parsers (the cursors of the lexers, the doc-comment extent), and a diagnostic or note stores the very
    span it is handed. A later adjustment (widening an empty span by a column, clamping) makes reports point at text that is not there."""
    n = 0
    for adt, flds in (('slicec::slice_file::Location', ('row', 'col')), ('slicec::slice_file::Span', ('start', 'end', 'file'))):
        for fld in flds:
            for a in field_accesses(prog, adt, fld, crates=('slicec', 'slicec_bin')):
                if a['kind'] not in ('write', 'refmut'):
                    continue
                n += 1
                if a['fn'].path.startswith('slicec::parsers::'):
                    r.ok('%s.%s written in %s' % (adt.rsplit('::', 1)[-1], fld, a['fn'].path))
                else:
                    r.finding('location-adjusted-outside-parsers:%s:%s.%s' % (a['fn'].path, adt.rsplit('::', 1)[-1], fld), a['span'],
                              '%s assigns %s.%s: locations come from the parsers and are reported as they are' % (a['fn'].path, adt.rsplit('::', 1)[-1], fld))
    if n < 10:
        raise AnchorMissing('writes of Location / Span fields (found %d)' % n)
    D = 'slicec::diagnostics::diagnostic::Diagnostic::'
    ss = prog.fn(D + 'set_span')
    stores = [(bb, rv) for bb, j, lhs, rv, st in ss.assigns() if [x.get('n') for x in lhs.get('p', []) if isinstance(x, dict) and 'f' in x] == ['span'] and lhs['l'] == 1 and not ss.blocks[bb].get('cleanup')]
    vals = [vexpr(ss, rv['a']) if rv['k'] == 'use' else rv['k'] for bb, rv in stores]
    if vals and all(re.match(r'^(Option::)?Some(\(|\{0:)(to_owned|clone)\(arg2\)[)}]$', v) for v in vals):
        r.ok('Diagnostic::set_span stores a copy of the span it is given')
    else:
        r.finding('set-span-stores-other-span', ss.span, 'Diagnostic::set_span stores %s, not a plain copy of its argument' % vals)
    an = prog.fn(D + 'add_note')
    notes = [a for a in aggregates(prog, 'slicec::diagnostics::Note', None, crates=('slicec',)) if a['fn'] is an]
    got = [vexpr(an, a['rv']['ops'][1]) for a in notes]
    if got and all(v in ('cloned(arg3)', 'map(arg3,closure())') for v in got) and all(v == 'cloned(arg3)' for v in got):
        r.ok('Diagnostic::add_note stores a copy of the span it is given')
    else:
        r.finding('note-stores-other-span', an.span, 'Diagnostic::add_note stores %s as the span of the note, not a plain copy of its argument' % got)
    r.floor(12)


def r_file_text_kept_as_read(r, prog):
    """Rows and columns count the characters of the file as it is on disk: the text the preprocessor and the lexers run over (raw_text) is
    the text SliceFile::new was given, stored as it is and written nowhere else. A normalisation on the way in (tabs expanded, line ends
    unified, a BOM stripped) shifts every location after the first changed character."""
    SF = 'slicec::slice_file::SliceFile'
    mk = [a for a in aggregates(prog, SF, None, crates=('slicec', 'slicec_bin')) if not a['fn'].blocks[a['bb']].get('cleanup')]
    if not mk:
        raise AnchorMissing('construction of SliceFile')
    for a in mk:
        f = a['fn']
        v = vexpr(f, a['rv']['ops'][a['rv']['fn'].index('raw_text')])
        if re.match(r'^arg\d$', v):
            r.ok('%s stores the text it is given as raw_text' % f.path)
        else:
            r.finding('file-text-normalised:%s' % f.path, a['span'], '%s stores %s as raw_text, not the text it was given: locations are counted in a text that is not the file' % (f.path, v[:120]))
    for a in field_accesses(prog, SF, 'raw_text', crates=('slicec', 'slicec_bin')):
        if a['kind'] in ('write', 'refmut'):
            r.finding('file-text-rewritten:%s' % a['fn'].path, a['span'], '%s writes SliceFile::raw_text after construction' % a['fn'].path)
    r.floor(1)


def r_point_marker_offset(r, prog):
    """The two-character marker of an empty span straddles the reported position: it is drawn one column further left than the underline of a
    non-empty span starting there would be. So the padding in front of the highlight has to depend on whether the span is empty - a local that
    feeds `repeat` is assigned inside the start == end arm, or the count mentions the comparison. Padding that is the same in both cases puts
    one of the two a column off. (Which of the two, and by how much, is arithmetic over a loop-carried count: decided by the ledger C09.4b in
    the thorough tier only.)"""
    f = prog.fns.get('slicec::slice_file::get_highlight')
    if f is None:
        raise AnchorMissing('slice_file::get_highlight')
    reps = [c for c in f.calls() if c.name() == 'repeat' and not f.blocks[c.bb].get('cleanup')]
    eqs = [(b, ts, fs) for b, p_, ts, fs in bool_branches(f) if p_ is not None and re.match(r'^(Eq|Ne)\((arg2,arg3|arg3,arg2)\)$', vexpr(f, {'cp': p_}))]
    if not reps or not eqs:
        raise AnchorMissing('the padding (repeat) / the start == end test in get_highlight')
    count = vexpr(f, reps[0].args[-1], depth=20)
    bl = base_local(f, reps[0].args[-1])
    inside = False
    for b, ts, fs in eqs:
        for tgt in (ts, fs):
            region = edge_region(f, b, tgt)
            if any(lhs['l'] == bl and is_bare(lhs) and bb in region and not f.blocks[bb].get('cleanup') for bb, j, lhs, rv, st in f.assigns()):
                inside = True
    if inside or re.search(r'(Eq|Ne)\((arg2,arg3|arg3,arg2)\)', count):
        r.ok('the padding in front of the highlight differs between an empty and a non-empty span')
    else:
        r.finding('point-marker-padding', f.span, 'get_highlight pads the highlight with %s in both cases: the marker of an empty span and the underline of a non-empty one cannot both sit at the reported column' % count[:120])
    r.floor(1)


def run(ctx):
    prog = ctx.prog
    ctx.run_rule('C09.1', 'T11', 'span provenance in every expanded production (path-sensitive over optional symbols)', r_span_provenance, prog, ctx.cache_dir)
    ctx.run_rule('C09.2', 'T1', 'cursor discipline in the three lexers', r_cursor_discipline, prog)
    ctx.run_rule('C09.3', 'T4', 'token locations come from the cursor, read before any repositioning', r_token_locations, prog)
    ctx.run_rule('C09.4a', 'T10', 'snippets count characters, not bytes', r_snippet_units, prog)
    from props import c14 as _c14
    ctx.run_rule('C09.4d', 'T10', 'the source text shown under a location (of a diagnostic or of a note) is cut from the file that location names', _c14.r_snippet_from_span_file, prog)
    ctx.run_rule('C09.4c', 'T10', 'the underline starts at start.col - 1 on the first line (0 on the others) and ends at end.col - 1 on the last (the line width on the others)', r_highlight_bounds, prog)
    ctx.run_rule('C09.4e', 'T3', 'the marker of an empty span is offset against the underline of a non-empty one', r_point_marker_offset, prog)
    ctx.run_rule('C09.4b', 'T13', 'highlight arithmetic conditions (precondition ledger)', r_snippet_arithmetic, prog)
    ctx.run_rule('C09.6', 'T1', 'locations are written by the parsers only; diagnostics and notes store the span they are given', r_locations_written_by_parsers_only, prog)
    ctx.run_rule('C09.7', 'T1', 'the text that locations are counted in is the file as read (raw_text stored as given, never rewritten)', r_file_text_kept_as_read, prog)
    ctx.run_rule('C09.5', 'T10', 'doc comment extent', r_doc_comment_span, prog, ctx.cache_dir)
