"""C12 - output targets act as an append-only byte log with safe reservations."""
import codec
import guards
import rule_scopes
from props import c11

EXPLANATION = (
    'Static decision of the structural clauses of C12 on the MIR of slice-codec\'s buffer module: (1) failure leaves no trace: in every '
    'fallible method of SliceOutputTarget, VecOutputTarget and SliceInputSource no write to self (pos, set_len, raw copy, reservation) lies on '
    'a path that can still return an error; peeks and remaining() never write; reads/writes advance pos by exactly the checked count on the '
    'success edge; (2) reservations: constructed only by the two reserve_space impls from the old position and the reserved count, narrowed '
    'only from the front by exactly the bytes copied, after the copy, which is dominated by the get_mut(range) Some edge and the length '
    'comparison; the range is private and Reservation is neither Clone nor Copy; (3) the growable target zeroes exactly the reserved bytes '
    'before set_len; (4) every unsafe operation is dominated by the matching capacity check with the same symbolic size (shared with C11.2). '
    'Decides these clauses on all paths, not the equivalence with an append-only log over operation histories.')
WITNESSES = ['ReservationCannotBeForgedOrCopied']     # thorough tier: engines/witness (T12)
ASSUMPTIONS = ['rustc type checking and MIR construction', 'core/alloc functions (get_mut, try_reserve, spare_capacity_mut, set_len) behave as documented',
               'a reservation is only used with the target that issued it']
THOROUGH_CONFIGS = ['codec-alloc', 'release']



def r_buffer_preconditions(r, prog):
    guards.evaluate(r, prog, rule_scopes.guards_codec_buffer, 'guards_codec_buffer.json', 75)

def run(ctx):
    prog = ctx.prog
    ctx.run_rule('C12.6', 'T13', 'conditions under which targets and sources write, advance, reserve, refuse and return (precondition ledger)', r_buffer_preconditions, prog)
    ctx.run_rule('C12.1a', 'T2', 'no write to the target/source precedes an error return', codec.r_failure_leaves_no_trace, prog)
    ctx.run_rule('C12.1b', 'T1', 'peek_* / remaining never modify', codec.r_peek_never_consumes, prog)
    ctx.run_rule('C12.1c', 'T10', 'position advances by exactly the checked count on the success edge', codec.r_read_advances_by_checked_count, prog)
    ctx.run_rule('C12.2', 'T1', 'reservations: created only by reserve_space, shrunk from the front after the copy, unforgeable', codec.r_reservations, prog)
    ctx.run_rule('C12.3', 'T4', 'growable reservations are zeroed before set_len with the same count', codec.r_zeroed_growable_reservation, prog)
    ctx.run_rule('C12.4', 'T2', 'unsafe-site table: every unchecked write is dominated by the matching capacity check', codec.r_unsafe_sites, prog)
    ctx.run_rule('C12.7', 'T3', 'the end-of-buffer error is built exactly when the request does not fit', codec.r_capacity_refusals_exact, prog)
    ctx.run_rule('C12.5', 'T7', 'panic/overflow sites of the buffer module (ledger, invariant pos <= len)', c11.r_codec_panic_ledger, prog)
    for name, p in sorted(ctx.configs.items()):
        ctx.run_rule('C12.1a@' + name, 'T2', 'no write precedes an error return [%s]' % name, codec.r_failure_leaves_no_trace, p)
        ctx.run_rule('C12.4@' + name, 'T2', 'unsafe-site table [%s]' % name, codec.r_unsafe_sites, p)
