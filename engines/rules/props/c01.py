"""C01 - every input yields a verdict: no crash, abort or hang (necessary structural conditions for totality)."""
import json
import os
import re

from mirlib import AnchorMissing, op_place, path_matches, is_bare, place_projs, strip_closure
from helpers import (closure_of_arg, vexpr, arm, branches_on_call, enum_switches, edge_region, must_pass, origin_calls, aggregates, calls_matching,
                     field_accesses, ungated_reach, chain)
import entrypoints
import gating
import panics
from props import c05
from props import c17 as _c17

EXPLANATION = (
    'Static decision of the structural conditions for totality of slicec (lib+bin) on its MIR: (1) panic-site ledger: every '
    'panic-capable site (unwrap/expect/panic!/assert!/unreachable!, Index on str/Vec/slice, String/Vec operations with '
    'preconditions, and every Assert terminator: overflow, bounds, division, pointer checks) in a function reachable from the entry '
    'points is discharged by an automatic rule (A2 counter+constant, A3 unwrap dominated by is_some on the same place, A4 generated '
    'parser machinery, A7-A10) or by a frozen ledger line naming the invariant; a new site is an unproven obligation; (2) recursion '
    'ledger: every SCC of the reachable call graph is listed with its termination argument; (3) loop progress: every natural loop '
    'consumes from the iterator it tests on every path round the loop or is listed with its variant; lexers yield no token at end '
    'of buffer without a state change and yield "nothing" only after consuming input; (4) phase gating: phases run only through '
    'apply/apply_unsafe on the no-errors edge and TypeRef::definition is not reachable from the pre-patch phases; (5) parse errors '
    'are turned into diagnostics on every path; (6) no process exit/abort; (7) the generator-request conversion only sees files with '
    'a module. Decides these clauses, not time bounds or stack depth of structural recursion.')
ASSUMPTIONS = ['rustc type checking and MIR construction', 'LALRPOP runtime and generated tables, clap, serde_json, console',
               'writing to the process\'s own stderr/stdout does not fail', 'the ledger invariants, each stated in ledgers/panic_sites.json']
VERIF = os.path.abspath(os.path.join(os.path.dirname(os.path.abspath(__file__)), '..', '..', '..'))
CRATES = ('slicec', 'slicec_bin')
CONSUMERS = {'next', 'next_back', 'pop', 'pop_front', 'pop_back', 'advance_buffer', 'next_if', 'next_if_eq'}


def r_panic_ledger(r, prog):
    ledger = panics.load_ledger('panic_sites.json')
    roots = entrypoints.slicec_roots(prog)
    if len(roots) < 50:
        raise AnchorMissing('entry points (found %d)' % len(roots))
    reach, used = panics.evaluate(r, prog, roots, ledger, CRATES, 'C01')
    r.floor(300, 'panic-capable sites')


def r_recursion_ledger(r, prog):
    led = json.load(open(os.path.join(VERIF, 'ledgers', 'recursion.json')))['sccs']
    reach = prog.reachable_fns(entrypoints.slicec_roots(prog))
    nodes = [p for p in reach if prog.fns[p].crate.tag in CRATES and not prog.fns[p].generated]
    sccs = prog.sccs(nodes)
    for comp in sccs:
        hit = [e for e in led if set(comp) <= set(e['members'])]
        key = min(comp)
        if hit:
            r.ok('SCC %s (%d fns)' % (hit[0]['id'], len(comp)), hit[0]['argument'])
        else:
            known = [e for e in led if set(comp) & set(e['members'])]
            extra = sorted(set(comp) - set(known[0]['members'])) if known else comp
            r.finding('recursive-scc:%s' % (known[0]['id'] + '+' + extra[0] if known else key), prog.fns[key].span,
                      'recursion without a recorded termination argument: %s%s' % (', '.join(comp[:6]),
                                                                                 ('; new member(s) of SCC "%s": %s' % (known[0]['id'], extra)) if known else ''))
    r.floor(10, 'SCCs')


def r_base_closure_memoised(r, prog):
    """The transitive bases of an interface are computed by a recursion over the base lists. On a dense hierarchy (every interface listing all
    earlier ones) a plain recursion expands an interface once per inheritance *path* - exponentially many. The recursion must be memoised:
    in every function of the recursive component, the recursive call is reachable only off the hit edge of a lookup in a table, the result is
    stored in that table afterwards, and the table does not outlive one top-level request (it is created by the non-recursive entry)."""
    IF = 'slicec::grammar::elements::interface::Interface::'
    cg = prog.callgraph()
    mod = [f for f in prog.fns.values() if f.path.startswith(IF) and '{closure' not in f.path]
    # functions of Interface that (transitively, inside Interface) call themselves and walk the base list
    def reach_self(f):
        seen, todo = set(), [f.path]
        while todo:
            x = todo.pop()
            for y in cg.get(x, ()):
                if y.startswith(IF) and y not in seen:
                    seen.add(y)
                    todo.append(y)
        return f.path in seen
    rec = [f for f in mod if reach_self(f) and any(c.name() == 'base_interfaces' for g in [f] + [x for x in prog.fns.values() if x.path.startswith(f.path + '::{closure')] for c in g.calls())]
    if not rec:
        raise AnchorMissing('the recursive computation of the base closure in Interface')
    for f in rec:
        if _recursion_memoised(prog, f, {x.path for x in rec}):
            r.ok('%s: the recursion is reached only when the table has no entry for this interface, and the result is stored in it' % f.name)
        else:
            r.finding('base-closure-not-memoised:%s' % f.name, f.span,
                      '%s recurses into the bases of every base without consulting a table of interfaces already expanded: an interface reachable through k inheritance paths is expanded k times (exponential on dense hierarchies)' % f.name)
    r.floor(1)


def _recursion_memoised(prog, f, rec_paths):
    """In f, every call back into the recursive component (directly, or through a closure f hands to an adapter) is reachable only off the hit
    edge of a lookup in a table that comes in through a parameter, and the miss path stores into that table."""
    fam = [f] + [x for x in prog.fns.values() if x.path.startswith(f.path + '::{closure')]
    selfcalls = [(g, c) for g in fam for c in g.calls() if (c.resolved or c.callee or '') in rec_paths and not g.blocks[c.bb].get('cleanup')]
    looks = branches_on_call(f, lambda c: c.name() in ('get', 'contains_key', 'contains', 'get_mut', 'entry'))
    looks += [dict(b, true=b['some'], false=b['none']) for b in _option_branches(f, ('get', 'get_mut'))]
    stores = [c for c in f.calls() if c.name() in ('insert',) and not f.blocks[c.bb].get('cleanup')]
    for b in looks:
        tbl = vexpr(f, b['call'].args[0])
        if not re.match(r'^arg\d', tbl):
            continue
        hit = b['true']
        in_closure = any(g is not f for g, c in selfcalls)
        rec_blocks = {c.bb for g, c in selfcalls if g is f} | ({c.bb for c in f.calls() if any(vexpr(f, a).startswith('closure(') for a in c.args)
                                                                  and any(closure_of_arg(prog, f, a) in [g for g, _ in selfcalls] for a in c.args)} if in_closure else set())
        miss = f.reachable(b['false'], blocked=[b['bb']])
        if rec_blocks and not (f.reachable(hit, blocked=[b['bb']]) & rec_blocks) and rec_blocks <= miss \
                and any(vexpr(f, s.args[0]) == tbl and s.bb in miss and s.bb not in f.reachable(hit, blocked=[b['bb']]) for s in stores):
            return True
    return False


def r_key_check_memoised(r, prog):
    """The key-type check of a dictionary recurses through the fields of compact structs. A struct used by two fields of another struct is
    reached along two paths; without a table of structs already checked the work doubles per level (a 26-level chain of two-field structs is
    under 1 KB and takes minutes)."""
    f = prog.fn('slicec::validators::dictionary::check_dictionary_key_type')
    if _recursion_memoised(prog, f, {f.path}):
        r.ok('check_dictionary_key_type checks the fields of a struct only when the table of checked structs has no entry for it, and stores the outcome')
    else:
        r.finding('key-check-not-memoised', f.span, 'check_dictionary_key_type recurses into the fields of a key struct without consulting a table of structs already checked: exponential on struct DAGs')
    # the table does not outlive one dictionary
    callers = [c for c in prog.callers_of(f.path) if c.fn.path != f.path and not c.fn.path.startswith(f.path + '::{closure')]
    if callers and all(len(c.args) > 1 and re.match(r'^(new|default)\(\)$', vexpr(c.fn, c.args[1])) for c in callers):
        r.ok('every outside caller starts with an empty table')
    else:
        r.finding('key-check-table-shared', f.span, 'the table of checked structs is not created afresh by the callers of check_dictionary_key_type (%s)' % [vexpr(c.fn, c.args[1])[:40] if len(c.args) > 1 else 'no table' for c in callers])
    r.floor(2)


def r_generator_output_drained(r, prog):
    """The compiler waits for a generator with wait_with_output(), which drains the generator's stdout and stderr while waiting. Waiting for the
    exit first (wait / try_wait) and reading the pipes afterwards deadlocks as soon as a reply exceeds the pipe buffer: the generator blocks
    writing, the compiler blocks waiting."""
    n = 0
    for f in prog.fns.values():
        if f.crate.tag != 'slicec_bin' or f.generated:
            continue
        for c in f.calls():
            res = (c.resolved or c.callee or '')
            if f.blocks[c.bb].get('cleanup') or 'process::Child' not in res:
                continue
            n += 1
            if c.name() in ('wait', 'try_wait', 'kill'):
                r.finding('generator-waited-for-without-draining:%s' % f.name, c.span, '%s calls Child::%s: with piped stdout/stderr the generator must be waited for with wait_with_output()' % (f.path, c.name()))
            else:
                r.ok('%s: Child::%s' % (f.name, c.name()))
    if n < 1:
        raise AnchorMissing('uses of std::process::Child in the binary')
    r.floor(1)


def _option_branches(f, names):
    """branches on the Option returned by a lookup (`if let Some(x) = table.get(k)`): dict(bb, call, some, none)"""
    out = []
    for c in f.calls():
        if c.name() in names and not f.blocks[c.bb].get('cleanup') and c.dest is not None:
            for sw in enum_switches(f, 'core::option::Option'):
                pl = sw['place']
                if pl is not None and pl['l'] == c.dest['l']:
                    out.append({'bb': sw['bb'], 'call': c, 'some': arm(sw, 1), 'none': arm(sw, 0)})
    return out


def _field_write_blocks(f, fields):
    """blocks of f that assign (or take a mutable borrow of) self.<field> for field in fields"""
    out = set()
    for bb, j, s in f.stmts():
        if 'lhs' not in s:
            continue
        for pl in (s['lhs'], s['rv'].get('p') if s['rv']['k'] == 'ref' and s['rv'].get('mut') else None):
            if pl is None or pl['l'] != 1:
                continue
            names = [x.get('n') for x in place_projs(pl) if isinstance(x, dict) and 'f' in x]
            if names and names[0] in fields:
                out.add(bb)
    for b, blk in enumerate(f.blocks):
        t = blk['t']
        if t['k'] in ('call', 'drop'):
            pl = t.get('d') if t['k'] == 'call' else None
            if pl is not None and pl['l'] == 1:
                names = [x.get('n') for x in place_projs(pl) if isinstance(x, dict) and 'f' in x]
                if names and names[0] in fields:
                    out.add(b)
    return out


def r_loops(r, prog):
    led = json.load(open(os.path.join(VERIF, 'ledgers', 'loops.json')))
    reach = prog.reachable_fns(entrypoints.slicec_roots(prog))
    by_fn = {}
    for e in led['loops']:
        by_fn.setdefault(e['fn'], []).append(e)
    for p in sorted(reach):
        f = prog.fns[p]
        if f.crate.tag not in CRATES or f.generated:
            continue
        undriven = 0
        for head, body in f.natural_loops():
            cons = [c.bb for c in f.calls() if c.bb in body and c.name() in CONSUMERS]
            driven = (head in cons) or (bool(cons) and all(must_pass(f, s, [head], cons, within=body) for s in f.succs(head) if s in body))
            where = f.span_of(f.blocks[head]['t'].get('sp'))
            if driven:
                r.ok('%s loop@bb%d driven by a consuming call' % (p, head))
                continue
            es = [e for e in by_fn.get(p, []) if e['ordinal'] == undriven]
            undriven += 1
            if not es:
                r.finding('loop-without-progress:%s#%d' % (p, undriven - 1), where,
                          'loop does not call a consuming function (Iterator::next, pop, advance_buffer, ...) on every path back to its head and is not in the loop ledger')
                continue
            e = es[0]
            prog_bbs = [c.bb for c in f.calls() if c.bb in body and c.name() in e['progress']]
            if prog_bbs and ((head in prog_bbs) or all(must_pass(f, s, [head], prog_bbs, within=body) for s in f.succs(head) if s in body)):
                r.ok('%s loop#%d: progress via %s on every path' % (p, e['ordinal'], '/'.join(e['progress'])), e['reason'])
            else:
                r.finding('loop-path-without-progress:%s#%d' % (p, e['ordinal']), where,
                          'a path round this loop calls none of %s: it can iterate without consuming input' % e['progress'])
    r.floor(80, 'loops')


def _consumers(prog, f, names):
    """The listed consumer helpers plus every function f calls that itself passes through a consumer on every path to its return (found by
    fixpoint): extracting part of an arm into a helper that consumes first does not change what the arm does."""
    names = set(names)
    for _ in range(4):
        grew = False
        for c in f.calls():
            g = prog.fns.get(c.resolved or '') or prog.fns.get(c.callee or '')
            if g is None or g.name in names or g is f or not g.blocks:
                continue
            through = {x.bb for x in g.calls() if x.name() in names}
            if through and must_pass(g, 0, g.return_blocks(), through):
                names.add(g.name)
                grew = True
        if not grew:
            break
    return names


def r_lexer_none_paths(r, prog):
    led = json.load(open(os.path.join(VERIF, 'ledgers', 'loops.json')))
    for e in led['none_returns']:
        f = prog.fn(e['fn'])
        cons = [c.bb for c in f.calls() if c.name() in _consumers(prog, f, e['consumers'])]
        nones = [a for a in aggregates(prog, 'core::option::Option', 'None') if a['fn'] is f and a['lhs']['l'] == 0 and is_bare(a['lhs'])]
        if not nones:
            raise AnchorMissing('None results in %s' % e['fn'])
        for a in nones:
            if must_pass(f, 0, [a['bb']], cons) and a['bb'] not in cons or (a['bb'] in cons):
                r.ok('%s: "nothing to report" only after consuming input' % f.name, a['span'])
            else:
                r.finding('token-fn-yields-nothing-without-consuming:%s' % f.path, a['span'],
                          '%s can return None on a path that consumed nothing: its caller loops on the same character forever' % f.path)
    r.floor(4)


def r_every_return_progresses(r, prog):
    led = json.load(open(os.path.join(VERIF, 'ledgers', 'loops.json')))
    for e in led['every_return_progresses']:
        f = prog.fn(e['fn'])
        through = {c.bb for c in f.calls() if c.name() in _consumers(prog, f, e['consumers'])} | _field_write_blocks(f, set(e['state_fields']))
        rets = f.return_blocks()
        # every definition of the return place must be preceded by progress (results computed before consuming are fine
        # as long as the function cannot return without progress)
        if must_pass(f, 0, rets, through):
            r.ok('%s: no result without consumed input or a state change' % f.path, e['reason'])
        else:
            # name an offending assignment of the return place for the report
            bad = None
            open_blocks = f.reachable(0, blocked=through)
            for d in f.defs_of(0):
                if d[1] in open_blocks:
                    bad = d
                    break
            where = f.span_of(f.blocks[bad[1]]['s'][bad[2]].get('sp')) if bad and bad[0] == 'assign' else f.span
            r.finding('result-without-progress:%s' % f.path, where,
                      '%s can return a token or error on a path that neither consumed input (%s) nor changed the lexer mode: '
                      'a parser that keeps pulling tokens (error recovery) receives it forever' % (f.path, '/'.join(e['consumers'])))
    r.floor(3)


def r_lexer_eof_state(r, prog):
    led = json.load(open(os.path.join(VERIF, 'ledgers', 'loops.json')))
    for e in led['eof_state_change']:
        f = prog.fn(e['fn'])
        # edges taken when the character buffer is exhausted: None edge of a peek() on self.buffer
        regions = set()
        for sw in enum_switches(f, 'core::option::Option'):
            oc = [c for c, _ in origin_calls(f, sw['place']) if c.name() in ('peek', 'cloned')]
            src = False
            for c in oc:
                for t in f.origin(c.args[0], wide=True):
                    if t[0] == 'arg' and '.buffer' in t[2]:
                        src = True
            if src:
                regions |= edge_region(f, sw['bb'], arm(sw, 0))
        # is_some()-style loop conditions
        for b in branches_on_call(f, lambda c: c.name() in ('is_some', 'is_none')):
            c = b['call']
            if any(x.name() == 'peek' for x, _ in origin_calls(f, c.args[0])):
                edge = b['false'] if c.name() == 'is_some' else b['true']
                regions |= edge_region(f, b['bb'], edge)
        if not regions:
            raise AnchorMissing('end-of-buffer edge in %s' % e['fn'])
        entry = min(regions, key=lambda b: len(f.dominators().get(b, ())))
        writes = _field_write_blocks(f, set(e['state_fields']))
        writes |= {c.bb for c in f.calls() if c.name() in e['other_iterators']}
        somes = [a for a in aggregates(prog, 'core::option::Option', 'Some') if a['fn'] is f and a['lhs']['l'] == 0 and is_bare(a['lhs']) and a['bb'] in regions]
        n = 0
        for a in somes:
            n += 1
            if must_pass(f, entry, [a['bb']], writes):
                r.ok('%s: token at end of buffer only after a state change' % f.path, a['span'])
            else:
                r.finding('eof-token-without-state-change:%s' % f.path, a['span'],
                          'at end of buffer %s yields a token without changing %s: the next call is in the same state and yields it again, forever' % (f.path, '/'.join(e['state_fields'])))
        if n == 0:
            r.ok('%s yields no token at end of buffer' % f.path)
    r.floor(3)


def r_prepatch_definition(r, prog):
    """TypeRef::definition() (panics on Unpatched) must not be reachable from the phases that run before type patching."""
    targets = [p for p in prog.fns if re.search(r'type_ref::TypeRef::<T>::definition$', p)]
    if not targets:
        raise AnchorMissing('TypeRef::definition')
    pre = ['slicec::parsers::parse_files', 'slicec::patchers::patch_ast::_patch_attributes_impl']
    for pr in pre:
        if pr not in prog.fns:
            raise AnchorMissing(pr)
    # the generated parsers call back into local impls of lalrpop_util's traits (reduce -> grammar actions) and the lexers' Iterator impls
    cb = [m for m in panics.roots_foreign_impls(prog, ('slicec',)) if m.startswith('<slicec::parsers::')]
    if len(cb) < 10:
        raise AnchorMissing('parser callback impls (found %d)' % len(cb))
    pre = pre + cb
    reach = prog.reachable_fns(pre)
    parent = dict(prog.last_parent)
    for t in targets:
        if t in reach:
            ch = prog.path_to(t, parent)
            r.finding('definition-reachable-before-patching:%s' % ch[-2], prog.fns[ch[-2]].span,
                      'TypeRef::definition (panics on an unpatched reference) is reachable from the parsing / attribute phase', ch[-7:])
        else:
            r.ok('TypeRef::definition not reachable from parse_files / attribute patching')
    # the type patcher itself: compute phase may only touch definition through the Patched arm of resolve_type_alias
    tp = prog.reachable_fns(["slicec::patchers::type_ref_patcher::TypeRefPatcher::<'_>::compute_patches"])
    parent = dict(prog.last_parent)
    for t in targets:
        if t in tp:
            ch = prog.path_to(t, parent)
            r.finding('definition-reachable-from-compute-patches:%s' % ch[-2], prog.fns[ch[-2]].span,
                      'TypeRef::definition is reachable while type references are still being resolved', ch[-7:])
        else:
            r.ok('TypeRef::definition not reachable from compute_patches')
    r.floor(2)


def r_parse_errors(r, prog):
    fns = [f for f in prog.fns.values() if f.crate.tag == 'slicec' and re.search(r'parser::(Parser|Preprocessor|CommentParser)::<\'a>::parse_\w+$', f.path)]
    if len(fns) != 3:
        raise AnchorMissing('three parse functions (found %s)' % [f.path for f in fns])
    for f in fns:
        parse = [c for c in f.calls() if c.name() == 'parse' and 'lalrpop' in (c.resolved or '')]
        if not parse:
            raise AnchorMissing('call of the generated parser in %s' % f.path)
        # Err arm of the parse result
        errs = []
        for sw in enum_switches(f, 'core::result::Result'):
            if origin_calls(f, sw['place'], None) and any(c is parse[0] for c, _ in origin_calls(f, sw['place'])):
                errs.append((sw['bb'], arm(sw, 1)))
        if not errs:
            raise AnchorMissing('match on the parse result in %s' % f.path)
        for sb, tgt in errs:
            conv = [c.bb for c in f.calls() if re.search(r'construct_(error|lint)_from$', c.resolved or '')]
            push = [c.bb for c in f.calls() if path_matches(c.resolved, 'Diagnostic::push_into')]
            rets = f.return_blocks()
            if conv and push and must_pass(f, tgt, rets, conv) and must_pass(f, tgt, rets, push):
                r.ok('%s: a parse error is converted and pushed on every path' % f.name, f.path)
            else:
                r.finding('parse-error-dropped:%s' % f.path, f.span, 'the Err arm of %s can return without pushing a diagnostic built from the parse error' % f.path)
    # error recovery in the preprocessor grammar reports on every path
    rec = prog.fn('slicec::parsers::preprocessor::grammar::recover_from_error')
    push = [c.bb for c in rec.calls() if path_matches(c.resolved, 'Diagnostic::push_into')]
    if push and must_pass(rec, 0, rec.return_blocks(), push):
        r.ok('recover_from_error reports the recovered error on every path')
    else:
        r.finding('recovery-silent', rec.span, 'recover_from_error can return without reporting the syntax error it recovered from')
    r.floor(4)


def r_no_abort(r, prog):
    sites = calls_matching(prog, ['std::process::exit', 'std::process::abort', 'core::intrinsics::abort', 'std::process::ExitCode::exit_process'], crates=CRATES)
    for c in sites:
        r.finding('process-exit:%s' % c.fn.path, c.span, '%s calls %s: the compiler must leave through main\'s ExitCode only' % (c.fn.path, c.callee))
    if not sites:
        r.ok('no process::exit / abort in slicec lib+bin')
    # positive control: the matcher sees the calls that do exist (ExitCode::from in main)
    ctl = calls_matching(prog, ['core::convert::From::from'], crates=('slicec_bin',))
    if not [c for c in ctl if c.fn.path == 'slicec_bin::main']:
        raise AnchorMissing('positive control for the call matcher')
    r.floor(1)


def r_converter_needs_module(r, prog):
    conv = [p for p in prog.fns if 'impl core::convert::From<&slicec::slice_file::SliceFile> for slicec_bin::definition_types::SliceFile>::from' in p and not p.endswith('}')]
    if len(conv) != 1:
        raise AnchorMissing('From<&SliceFile> for definition_types::SliceFile')
    callers = prog.callers_of(conv[0])
    if not callers:
        raise AnchorMissing('callers of the SliceFile conversion')
    for c in callers:
        f = c.fn
        ok = False
        for b in branches_on_call(f, lambda x: x.name() in ('is_none', 'is_some')):
            chk = b['call']
            src = f.origin(chk.args[0], wide=True)
            if not any('.module' in t[2] for t in src if t[0] in ('arg', 'call', 'rv')):
                continue
            same = {str(t[:2]) for t in f.origin(c.args[0], wide=True)} & {str(t[:2]) for t in src}
            edge = b['true'] if chk.name() == 'is_some' else b['false']
            if same and f.edge_dominates(b['bb'], edge, c.bb) and b['true'] != b['false']:
                ok = True
        if ok:
            r.ok('conversion of a file is dominated by its module.is_some() edge', c.span)
        else:
            r.finding('file-without-module-converted:%s' % f.path, c.span,
                      'a SliceFile is converted for the generator request on a path where its module may be absent (module.unwrap() panics for e.g. an empty file)')
    r.floor(1)



def r_whitespace_agreement(r, prog):
    """The directive lexer panics on white space "that should have been skipped": safe only while the skipper and the classifier use the same predicate."""
    import guards
    PL = "slicec::parsers::preprocessor::lexer::Lexer::<'input>::"
    sk = prog.fn(PL + 'skip_inline_whitespace')
    adv = [c for c in sk.calls() if c.name() == 'advance_buffer' and not sk.blocks[c.bb].get('cleanup')]
    lx = prog.fn(PL + 'lex_next_preprocessor_token')
    pn = [c for c in lx.calls() if 'panic' in c.name() and not lx.blocks[c.bb].get('cleanup')]
    if len(adv) != 1 or not pn:
        raise AnchorMissing('skip loop / panic arm of the preprocessor lexer')
    gs = guards.guard_set(prog, sk, adv[0].bb)
    skip_pred = sorted(re.sub(r'peek\(arg1\.buffer\) as Some\.0', 'c', g) for g in gs if 'is Some' not in g)
    for c in pn:
        gp = guards.guard_set(prog, lx, c.bb)
        ws = [g for g in gp if 'whitespace' in g]
        # the panic arm is taken for: is_whitespace(c) and c != '\n' ; the skipper consumes: is_whitespace(c) and c != '\n'
        if skip_pred == ['Ne(10,c)', 'is_whitespace(c)'] and ws == ['is_whitespace(arg2)'] and 'arg2 not in {10}' in gp:
            r.ok('the characters the directive lexer refuses to see (white space other than a line feed) are exactly those skip_inline_whitespace consumes')
        else:
            r.finding('whitespace-skipper-classifier-disagree', c.span,
                      'skip_inline_whitespace consumes characters with %s, while lex_next_preprocessor_token panics for characters with %s: a character in the second set but not the first reaches the panic' % (skip_pred, [g for g in gp if 'arg2' in g]))
    callers = [c for c in prog.callers_of(PL + 'lex_next_preprocessor_token')]
    nx = prog.fn("<slicec::parsers::preprocessor::lexer::Lexer<'input> as core::iter::traits::iterator::Iterator>::next")
    sks = [c for c in nx.calls() if c.name() == 'skip_inline_whitespace' and not nx.blocks[c.bb].get('cleanup')]
    peeks = [c for c in callers if c.fn is nx]
    if sks and peeks and all(any(nx.dominates(s_.bb, c.bb) for s_ in sks) for c in peeks):
        r.ok('every character given to the directive lexer was peeked after skipping inline white space')
    else:
        r.finding('directive-lexer-without-skip', nx.span, 'lex_next_preprocessor_token can be given a character that was not preceded by skip_inline_whitespace')
    r.floor(2)


def r_failed_parse_scopes(r, prog):
    """Members are published in the AST before their container is complete; when the file fails to parse the container is dropped and the
    members dangle. Nothing may find its way to them: the only consumer of the AST after a failed parse is into_updated (through the scopes
    recorded by lints), so the lints of a file that failed to parse must lose their scopes before they are merged."""
    pf = prog.fn('slicec::parsers::parse_files')
    cs = [c for c in pf.calls() if c.name() == 'clear_scopes' and not pf.blocks[c.bb].get('cleanup')]
    ex = [c for c in pf.calls() if c.name() == 'extend' and 'diagnostics' in vexpr(pf, c.args[0]) and not pf.blocks[c.bb].get('cleanup')]
    call = [c for c in pf.calls() if c.name() == 'parse_file' and not pf.blocks[c.bb].get('cleanup')]
    he = [b for b in branches_on_call(pf, lambda c: c.name() == 'has_errors')]
    if cs and ex and call and he and all(pf.dominates(call[0].bb, b['bb']) for b in he) and any(pf.edge_dominates(b['bb'], b['true'], cs[0].bb) for b in he) \
            and must_pass(pf, he[0]['true'], [ex[0].bb], [cs[0].bb]) and vexpr(pf, cs[0].args[0]) == vexpr(pf, he[0]['call'].args[0]):
        r.ok('the diagnostics of a file that reported an error lose their scopes before they are merged into the compilation diagnostics')
    else:
        r.finding('scopes-survive-a-failed-parse', pf.span, 'parse_files merges the lints of a file that failed to parse with their scopes: into_updated would look the named elements up, and members of containers that were never completed have a dangling parent (read of freed memory)')
    d = prog.fn('slicec::diagnostics::diagnostic::Diagnostics::clear_scopes')
    ws = [(vexpr(d, rv['a']) if rv['k'] == 'use' else (rv.get('v') or rv['k'])) for bb, j, lhs, rv, s in d.assigns() if [x for x in lhs.get('p', []) if isinstance(x, dict) and x.get('n') == 'scope'] and not d.blocks[bb].get('cleanup')]
    if ws and all(w in ('None', 'Option::None{}') for w in ws) and d.natural_loops():
        r.ok('clear_scopes sets the scope of every diagnostic to None')
    else:
        r.finding('clear-scopes-incomplete', d.span, 'clear_scopes writes %s' % ws)
    # into_updated looks elements up only through a recorded scope
    iu = prog.fn('slicec::diagnostics::diagnostic::Diagnostics::into_updated')
    fe = [c for c in iu.calls() if c.name() in ('find_element', 'find_node', 'find_node_with_scope', 'find_element_with_scope') and not iu.blocks[c.bb].get('cleanup')]
    if fe and all('scope(' in vexpr(iu, c.args[1], depth=8) for c in fe):
        r.ok('into_updated reaches the AST only through the scope recorded by a diagnostic (%d lookup)' % len(fe))
    else:
        r.finding('ast-lookup-without-scope', iu.span, 'into_updated looks elements up with %s' % [vexpr(iu, c.args[1], depth=8)[:60] for c in fe])
    r.floor(3)

def run(ctx):
    prog = ctx.prog
    ctx.run_rule('C01.1', 'T7', 'panic-site ledger over everything reachable in slicec lib+bin', r_panic_ledger, prog)
    ctx.run_rule('C01.2', 'T8', 'recursion ledger: every reachable SCC has a termination argument', r_recursion_ledger, prog)
    # the termination arguments of the recursion ledger that are themselves structural are armed here as well
    ctx.run_rule('C01.2b', 'T2', 'recursive validators run only after cycles were rejected (argument of SCCs dictionary_key, all_base_interfaces)', c05.r_cycles_first, prog)
    ctx.run_rule('C01.2c', 'T8', 'cycle detector recursion guard (argument of SCC cycle_detector)', c05.r_recursion_guard, prog)
    ctx.run_rule('C01.2d', 'T8', 'inheritance loops rejected before the base closure is computed; guarded search (SCCs all_base_interfaces, inheritance_search)', c05.r_inheritance, prog)
    ctx.run_rule('C01.2e', 'T2', 'self-containing aliases rejected before any recursive walk over type expressions (argument of SCCs type_string, typeref_visit, cycle_detector, dictionary_key)', c05.r_alias_through_anonymous, prog)
    ctx.run_rule('C01.1b', 'T6', 'white space skipper and classifier of the directive lexer agree (argument of the "should have been skipped" panic)', r_whitespace_agreement, prog)
    ctx.run_rule('C01.2h', 'T8', 'the base closure of an interface is memoised: one expansion per interface, not one per inheritance path', r_base_closure_memoised, prog)
    from props import c03 as _c03
    ctx.run_rule('C01.1c', 'T1', 'the entry of a primitive type in the name table is never replaced (the parser unwraps its lookup of a primitive: argument of that panic-ledger entry)', _c03.r_name_table_single_writer, prog)
    ctx.run_rule('C01.8', 'T1', 'a generator is waited for while its output is drained (no wait-then-read deadlock on large replies)', r_generator_output_drained, prog)
    ctx.run_rule('C01.2j', 'T5', 'the containment-cycle search scans every field of every container (a field it skips can close a cycle the recursive validators then walk for ever)', c05.r_container_coverage, prog)
    ctx.run_rule('C01.2i', 'T8', 'the dictionary key check looks at each struct once per dictionary, not once per path to it', r_key_check_memoised, prog)
    ctx.run_rule('C01.2f', 'T10', 'fresh search state per root; candidates scan on every path (argument of SCCs all_base_interfaces, cycle_detector)', c05.r_search_state_and_identity, prog)
    ctx.run_rule('C01.2g', 'T8', 'the reference directory walk enters every directory once (argument of SCC directory_walk)', _c17.r_directory_walk_once, prog)
    import perfile as _perfile
    ctx.run_rule('C01.5c', 'T2', 'a file that failed to parse leaves no names behind: scopes cleared and the name table put back, on every path to the next file', _perfile.r_failed_file_leaves_no_names, prog)
    ctx.run_rule('C01.5b', 'T4', 'lints of a file that failed to parse cannot lead to dangling members (argument of the WeakPtr::borrow ledger entry)', r_failed_parse_scopes, prog)
    ctx.run_rule('C01.3d', 'T9', 'alias chain loop: membership exit and growing chain (loop ledger variant)', c05.r_alias_loop, prog)
    ctx.run_rule('C01.3a', 'T9', 'every loop consumes on every path round it, or is in the loop ledger with its progress calls', r_loops, prog)
    ctx.run_rule('C01.3b', 'T9', 'lexers: no token at end of buffer without a state change', r_lexer_eof_state, prog)
    ctx.run_rule('C01.3c', 'T9', 'token functions yield "nothing" only after consuming input', r_lexer_none_paths, prog)
    ctx.run_rule('C01.3e', 'T9', 'token functions never produce a result without consumed input or a mode change', r_every_return_progresses, prog)
    ctx.run_rule('C01.4a', 'T2', 'phases run only through apply/apply_unsafe on the no-errors edge', gating.r_phase_gating, prog)
    ctx.run_rule('C01.4b', 'T1', 'TypeRef::definition is not reachable before type patching', r_prepatch_definition, prog)
    ctx.run_rule('C01.5', 'T3', 'parse errors become diagnostics on every path', r_parse_errors, prog)
    ctx.run_rule('C01.6', 'T1', 'no process exit / abort', r_no_abort, prog)
    ctx.run_rule('C01.7', 'T2', 'generator-request conversion only for files with a module', r_converter_needs_module, prog)
