"""C02 - source-to-AST fidelity (structural clauses)."""
import re
import decisions

from mirlib import AnchorMissing, op_place
from helpers import (aggregates, arm, enum_switches, loop_of, must_pass, vexpr, variant_str_table, field_accesses)
import genparser
import grammarflow
import guards
import layout
import perfile
import rule_scopes

EXPLANATION = (
    'C02 quantifies over all programs x layouts; the outcome for a particular program is not decided. Decided is the data path every program '
    'takes: (1) the token alphabet: keyword text -> TokenKind (check_if_keyword), punctuation characters -> TokenKind (lex_next_slice_token), '
    'TokenKind -> text (Display), TokenKind <-> grammar terminal (generated __token_to_integer/__TERMINAL), primitive keyword -> production -> '
    'Primitive variant -> kind() text -> Ast::create slot agree all the way round; (2) for every one of the expanded productions of the generated '
    'Slice parser, the symbol that reaches each field of the element built (through the generated wrapper actions, the grammar author\'s action and '
    'the construct_* helper) is the symbol the grammar names: identifiers, tags, types, underlying types, base lists, key/value, success/failure in '
    'source order, and each modifier flag is true exactly in the productions that contain its keyword; (3) member lists: every list production '
    'appends its new element at the end and keeps the rest, the optional comma never changes the value, and every child handed to a construct_* '
    'helper is iterated in order, gets its parent before it is published and lands in the list of its own kind; (4) every named symbol of every '
    'grammar action is used; (5) enumerator numbering: explicit value when written, otherwise previous+1 / 0, state updated from the enumerator just '
    'built on every path and reset at the end of every enum; negative literals negate; (6) the scope stamped on elements: written only by module / '
    'ContainerIdentifier / ContainerEnd, which are paired in every production; (7) integer literals: prefix test, digits and base all come from the '
    'underscore-free text, bases 2/16/10 go with 0b/0x/none; tags are the same integer; (8) lexer modes: attribute mode is entered on "[" and left '
    'on "]" only and is the only thing that turns keywords into identifiers; escaped identifiers are never keywords; token text is always sliced '
    'between two buffer positions of the same block and input is consumed one peeked character at a time; (9) parse results are stored into the '
    'file they came from on every path; (10) the conditions under which grammar helpers report or return (precondition ledger).')
THOROUGH_RERUN = ['release']     # the same rules over the release build (no debug assertions): verified clean on the pinned tree
ASSUMPTIONS = ['rustc type checking and MIR construction',
               'LALRPOP: the generated LR machinery recognises the grammar it was given and calls the reduce action of the production it recognised',
               'the wrapper actions LALRPOP generates follow its fixed template (checked: anything else fails closed)']

GM = 'slicec::parsers::slice::grammar::lalrpop'
G = 'slicec::parsers::slice::grammar::'
SL = "slicec::parsers::slice::lexer::Lexer::<'input, T>::"
TK = 'slicec::parsers::slice::tokens::TokenKind'
PAYLOAD = ('Identifier', 'StringLiteral', 'IntegerLiteral', 'DocComment')


def _flow(ctx):
    if not hasattr(ctx, '_c02flow'):
        ctx._c02flow = grammarflow.Flow(ctx.prog, ctx.cache_dir, 'slice', GM)
    return ctx._c02flow


def _production_guards(prog, lx, a):
    """Guard sets under which the token aggregate `a` (built in lx) is produced. Built and returned in lx itself: its own guard set. Handed to a
    helper as an argument: lx's guard set at the construction joined with the helper's guard set at each place the parameter is put into the
    result, the helper's other parameters replaced by the actual arguments of the call."""
    own = guards.guard_set(prog, lx, a['bb'])
    tok = vexpr(lx, {'cp': a['lhs']})
    out = []
    for c in lx.calls():
        if lx.blocks[c.bb].get('cleanup') or not c.args:
            continue
        g = prog.fns.get(c.resolved or '')
        if g is None or g is lx or not g.path.startswith(SL):
            continue
        for k, o in enumerate(c.args):
            pl = op_place(o)
            # the argument is this very token: the local it was built in, or a copy of it that went through a tuple / a named local
            if pl is None or not lx.dominates(a['bb'], c.bb) or not (pl['l'] == a['lhs']['l'] or guards._norm_elem(vexpr(lx, o), lx.path) == tok):
                continue
            actual = {'arg%d' % (i + 1): vexpr(lx, x) for i, x in enumerate(c.args)}
            for bb, j, st in g.stmts():
                rv = st.get('rv') or {}
                if rv.get('k') == 'agg' and rv.get('ak') == 'tuple' and any(vexpr(g, x) == 'arg%d' % (k + 1) for x in rv['ops']) and not g.blocks[bb].get('cleanup'):
                    gs = []
                    for cond in guards.guard_set(prog, g, bb):
                        cond = re.sub(r'\barg([2-9])\b', lambda m: actual.get('arg' + m.group(1), m.group(0)), cond)
                        m = re.match(r'^Eq\((\d+),(.*)\)$', cond)
                        gs.append('%s == %s' % (m.group(2), m.group(1)) if m else cond)
                    out.append(sorted(set(own) | set(gs)))
    return out or [own]


# ----------------------------------------------------------------------------------------------------------- (1) token alphabet
def r_token_tables(r, prog, flow):
    g = flow.gen
    disp = variant_str_table(prog, prog.fn("<slicec::parsers::slice::tokens::TokenKind<'_> as core::fmt::Display>::fmt"), 'TokenKind')
    variants = [v['n'] for v in prog.adts[TK]['variants']]
    kws = [v for v in variants if v.endswith('Keyword')]
    # keyword text -> TokenKind
    ck = prog.fn(SL + 'check_if_keyword')
    text2tok = {}
    fallthrough = None
    for a in aggregates(prog, TK, crates=('slicec',)):
        if a['fn'] is not ck or ck.blocks[a['bb']].get('cleanup'):
            continue
        pos = [m.group(1) for m in (re.match(r"^eq\(arg1,'(\w+)'\)$", x) for x in guards.guard_set(prog, ck, a['bb'])) if m]
        if len(pos) == 1:
            text2tok.setdefault(pos[0], []).append(a['rv']['v'])
        elif not pos:
            fallthrough = (a['rv']['v'], [vexpr(ck, o) for o in a['rv']['ops']])
    for v in kws:
        texts = [t for t, vs in text2tok.items() if v in vs]
        if len(texts) == 1 and text2tok[texts[0]] == [v] and disp.get(v) == texts[0]:
            r.ok('"%s" <-> TokenKind::%s (lexer and Display agree)' % (texts[0], v))
        else:
            r.finding('keyword-table:%s' % v, ck.span, 'TokenKind::%s is produced for the text(s) %s and displayed as %r' % (v, texts, disp.get(v)))
    extra = sorted(set(sum(text2tok.values(), [])) - set(kws))
    if extra:
        r.finding('keyword-table-extra', ck.span, 'check_if_keyword produces non-keyword tokens %s for fixed texts' % extra)
    if fallthrough == ('Identifier', ['arg1']):
        r.ok('any other word is TokenKind::Identifier(the word itself)')
    else:
        r.finding('keyword-fallthrough', ck.span, 'a word that is not a keyword becomes %s' % (fallthrough,))
    # punctuation characters -> TokenKind
    lx = prog.fn(SL + 'lex_next_slice_token')
    seen = {}
    for a in aggregates(prog, TK, crates=('slicec',)):
        if a['fn'] is lx and not lx.blocks[a['bb']].get('cleanup') and a['rv']['v'] not in PAYLOAD:
            seen.setdefault(a['rv']['v'], []).extend(_production_guards(prog, lx, a))
    puncts = [v for v in variants if v not in kws and v not in PAYLOAD]
    for v in puncts:
        gss = seen.get(v, [])
        text = disp.get(v) or ''
        good = len(gss) == 1 and len(text) in (1, 2) and ('arg2 == %d' % ord(text[0])) in gss[0]
        if good and len(text) == 2:
            good = any(re.match(r'^peek\(arg1\.buffer\) as Some\.0\.1 == %d$' % ord(text[1]), x) for x in gss[0])
        if good and len(text) == 1:
            good = not any(re.match(r'^peek\(arg1\.buffer\) as Some\.0\.1 == \d+$', x) for x in gss[0])
        if good:
            r.ok('%r <-> TokenKind::%s (lexer and Display agree)' % (text, v))
        else:
            r.finding('punctuation-table:%s' % v, lx.span, 'TokenKind::%s is displayed as %r but produced under %s' % (v, text, gss))
    if set(seen) - set(puncts):
        r.finding('punctuation-table-extra', lx.span, 'lex_next_slice_token builds %s directly' % sorted(set(seen) - set(puncts)))
    # TokenKind <-> grammar terminal
    for v in variants:
        term = g.terminal_of_token(v)
        if term is None:
            r.finding('token-without-terminal:%s' % v, '-', 'TokenKind::%s is not a terminal of the grammar' % v)
            continue
        if term.startswith('"'):
            good = disp.get(v) == term.strip('"')
        else:
            good = term.replace('_', '').lower() == v.lower()
        if good:
            r.ok('TokenKind::%s is the terminal %s' % (v, term))
        else:
            r.finding('token-terminal:%s' % v, '-', 'TokenKind::%s (text %r) is mapped to the grammar terminal %s' % (v, disp.get(v), term))
    if len(g.token_index) != len(variants):
        r.finding('terminal-count', '-', 'the grammar has %d token terminals, TokenKind has %d variants' % (len(g.token_index), len(variants)))
    # primitive keyword -> production -> Primitive variant -> kind() -> Ast::create slot
    P = 'slicec::grammar::elements::primitive::Primitive'
    kind = variant_str_table(prog, prog.fn('<slicec::grammar::elements::primitive::Primitive as slicec::grammar::traits::Element>::kind'), 'Primitive')
    term2tok = {g.terminal_of_token(v): v for v in variants}
    prods = g.prods_of('Primitive')
    done = set()
    for p in prods:
        if len(p['syms']) != 1 or p['syms'][0] not in term2tok:
            r.finding('primitive-production:%s' % ' '.join(p['syms']), '-', 'unexpected Primitive production %s' % p['syms'])
            continue
        f = genparser.action_fn(prog, GM, p['action'])
        built = sorted({a['rv']['v'] for a in aggregates(prog, P, crates=('slicec',)) if a['fn'] is f})
        tok = term2tok[p['syms'][0]]
        if len(built) == 1 and kind.get(built[0]) == disp.get(tok):
            r.ok('"%s" -> %s -> Primitive::%s -> kind() "%s"' % (disp[tok], p['syms'][0], built[0], kind[built[0]]))
            done.add(built[0])
        else:
            r.finding('primitive-chain:%s' % p['syms'][0], f.span, 'the keyword "%s" builds %s whose kind() is %s' % (disp.get(tok), built, [kind.get(b) for b in built]))
    if set(kind) - done:
        r.finding('primitive-chain-missing', '-', 'no production builds Primitive::%s' % sorted(set(kind) - done))
    cr = prog.fn('slicec::ast::Ast::create')
    arrs = [rv for bb, j, lhs, rv, s in cr.assigns() if rv['k'] == 'agg' and rv.get('ak') == 'array']
    nodes = keys = None
    for rv in arrs:
        ex = [vexpr(cr, o, depth=8) for o in rv['ops']]
        if all(e.startswith('Node::Primitive{') for e in ex):
            nodes = [re.search(r'Primitive::(\w+)\{\}', e).group(1) for e in ex]
        elif all(e.startswith('tuple(to_owned(') for e in ex):
            keys = [re.match(r"^tuple\(to_owned\('(\w+)'\),(\d+)\)$", e).groups() for e in ex]
    if nodes is None or keys is None:
        raise AnchorMissing('the element and lookup tables of Ast::create')
    bad = [(k, i) for k, i in keys if int(i) >= len(nodes) or kind.get(nodes[int(i)]) != k]
    if not bad and sorted(nodes) == sorted(kind) and len(keys) == len(nodes):
        r.ok('Ast::create registers every primitive under its kind() text (%d slots)' % len(nodes))
    else:
        r.finding('ast-primitive-table', cr.span, 'Ast::create: name/slot pairs %s do not hold the primitive of that name' % bad)
    p2 = prog.fn(G + 'primitive_to_type_ref_definition')
    fn_calls = [c for c in p2.calls() if c.name() == 'find_node']
    if fn_calls and re.match(r'^kind\(arg2\)$', vexpr(p2, fn_calls[0].args[1])):
        r.ok('a primitive type reference is bound to the AST node found under primitive.kind()')
    else:
        r.finding('primitive-lookup', p2.span, 'primitive_to_type_ref_definition looks up %s' % [vexpr(p2, c.args[1]) for c in fn_calls])
    r.floor(117)


# ----------------------------------------------------------------------------------------------------------- (2) element fields
def V(name, k=1):
    return lambda names: '%s#%d' % (name, k)


def FLAG(name):
    return lambda names: 'is_some(Some(%s#1))' % name if (name + '#1') in names else 'is_some(None)'


def OPT(name):
    return lambda names: 'Some(%s#1)' % name if (name + '#1') in names else 'None'


def LIST(name):
    return lambda names: '%s#1' % name if (name + '#1') in names else '[]'


def K(text):
    return lambda names: text


def DOC(ident):
    return lambda names: 'parse_doc_comment(parser,%s#1.value,Prelude#1.0)' % ident


SCOPE = K('clone(parser.current_scope)')
ATTRS = K('Prelude#1.1')
E = 'slicec::grammar::elements::'
# nonterminal -> (ADT, {field: expected source}, {helper parameter name: expected source} for children handed to the helper)
ELEMENTS = {
    'Module': (E + 'module::Module', {'identifier': V('RelativeIdentifier'), 'attributes': ATTRS}, {}),
    'Struct': (E + 'r#struct::Struct', {'identifier': V('ContainerIdentifier'), 'is_compact': FLAG('compact_keyword'), 'attributes': ATTRS, 'scope': SCOPE,
                                        'comment': DOC('ContainerIdentifier')}, {'fields': V('UndelimitedList<Field>')}),
    'Field': (E + 'field::Field', {'identifier': V('Identifier'), 'data_type': V('TypeRef'), 'tag': OPT('Tag'), 'attributes': ATTRS, 'scope': SCOPE,
                                   'comment': DOC('Identifier')}, {}),
    'Interface': (E + 'interface::Interface', {'identifier': V('ContainerIdentifier'), 'attributes': ATTRS, 'scope': SCOPE, 'comment': DOC('ContainerIdentifier')},
                  {'operations': LIST('Operation+'), 'bases': OPT('NonEmptyCommaList<TypeRef>')}),
    'Operation': (E + 'operation::Operation', {'identifier': V('ContainerIdentifier'), 'is_idempotent': FLAG('idempotent_keyword'), 'attributes': ATTRS, 'scope': SCOPE,
                                               'comment': DOC('ContainerIdentifier')}, {'parameters': V('UndelimitedList<Parameter>'), 'return_type': OPT('ReturnType')}),
    'Parameter': (E + 'parameter::Parameter', {'identifier': V('Identifier'), 'data_type': V('TypeRef'), 'tag': OPT('Tag'), 'is_streamed': FLAG('stream_keyword'),
                                               'attributes': ATTRS, 'scope': SCOPE}, {}),
    'Enum': (E + 'r#enum::Enum', {'identifier': V('ContainerIdentifier'), 'is_compact': FLAG('compact_keyword'), 'is_unchecked': FLAG('unchecked_keyword'),
                                  'attributes': ATTRS, 'scope': SCOPE, 'comment': DOC('ContainerIdentifier')},
             {'enumerators': V('UndelimitedList<Enumerator>'), 'underlying_type': OPT('TypeRef')}),
    'Enumerator': (E + 'enumerator::Enumerator', {'identifier': V('ContainerIdentifier'), 'attributes': ATTRS, 'scope': SCOPE, 'comment': DOC('ContainerIdentifier')},
                   {'fields': OPT('UndelimitedList<Field>'), 'enumerator_value': OPT('SignedInteger')}),
    'CustomType': (E + 'custom_type::CustomType', {'identifier': V('Identifier'), 'attributes': ATTRS, 'scope': SCOPE, 'comment': DOC('Identifier')}, {}),
    'TypeAlias': (E + 'type_alias::TypeAlias', {'identifier': V('Identifier'), 'underlying': V('TypeRef'), 'attributes': ATTRS, 'scope': SCOPE, 'comment': DOC('Identifier')}, {}),
    'Result': (E + 'result::ResultType', {'success_type': V('TypeRef', 1), 'failure_type': V('TypeRef', 2)}, {}),
    'Sequence': (E + 'sequence::Sequence', {'element_type': V('TypeRef')}, {}),
    'Dictionary': (E + 'dictionary::Dictionary', {'key_type': V('TypeRef', 1), 'value_type': V('TypeRef', 2)}, {}),
    'TypeRef': (E + 'type_ref::TypeRef', {'definition': V('TypeRefDefinition'), 'is_optional': FLAG('"?"'), 'attributes': LIST('LocalAttribute+'), 'scope': SCOPE}, {}),
}
# single return type: a Parameter built by another helper
RETURN_SINGLE = (E + 'parameter::Parameter', {'data_type': V('TypeRef'), 'tag': OPT('Tag'), 'is_streamed': FLAG('stream_keyword'), 'scope': SCOPE, 'attributes': K('new()')})


def _check_fields(r, flow, p, adt, spec, names, label):
    built = flow.built(p, adt)
    built = [b for b in built if b[0] is not None]
    if len(built) != 1:
        r.finding('element-not-built:%s:%s' % (label, ' '.join(p['syms'])), '-', 'the production %s = %s builds %d %s values (expected exactly one)' % (p['nt'], ', '.join(p['syms']), len(built), adt.rsplit('::', 1)[-1]))
        return
    v, flds, fn, span = built[0]
    for fld, want in spec.items():
        w = want(names)
        got = flds.get(fld)
        if got == w:
            r.ok('%s.%s <- %s   [%s = %s]' % (adt.rsplit('::', 1)[-1], fld, w, p['nt'], ' '.join(p['syms'])))
        else:
            r.finding('field-source:%s.%s:%s' % (adt.rsplit('::', 1)[-1], fld, ' '.join(p['syms'])), span,
                      'in the production %s = %s the field %s.%s is filled from %s; the grammar says %s' % (p['nt'], ', '.join(p['syms']), adt.rsplit('::', 1)[-1], fld, got, w))


def r_element_fields(r, prog, flow):
    g = flow.gen
    for nt, (adt, spec, children) in ELEMENTS.items():
        prods = g.prods_of(nt)
        if not prods:
            raise AnchorMissing('productions of %s' % nt)
        for p in prods:
            v, names = flow.top(p)
            _check_fields(r, flow, p, adt, spec, names, nt)
            # children / optional parts handed to the helper by parameter name
            if children:
                calls = [(n, callee, args) for n, callee, args, c in flow.calls(p) if callee is not None and callee.path.startswith(G + 'construct_')]
                if len(calls) != 1:
                    r.finding('helper-call:%s:%s' % (nt, ' '.join(p['syms'])), '-', 'the production %s = %s calls %d construct_* helpers' % (nt, ', '.join(p['syms']), len(calls)))
                    continue
                n, callee, args = calls[0]
                pn = {callee.local_name(i + 1): a for i, a in enumerate(args)}
                for param, want in children.items():
                    w = want(names)
                    if pn.get(param) == w:
                        r.ok('%s(%s: %s)   [%s = %s]' % (n, param, w, nt, ' '.join(p['syms'])))
                    else:
                        r.finding('helper-argument:%s.%s:%s' % (n, param, ' '.join(p['syms'])), '-',
                                  'in the production %s = %s the helper %s receives %s as `%s`; the grammar says %s' % (nt, ', '.join(p['syms']), n, pn.get(param), param, w))
    # return types
    for p in g.prods_of('ReturnType'):
        v, names = flow.top(p)
        if 'TypeRef#1' in names:
            _check_fields(r, flow, p, RETURN_SINGLE[0], RETURN_SINGLE[1], names, 'ReturnType')
        else:
            m = flow.meaning(p)
            if m == 'UndelimitedList<Parameter>#1':
                r.ok('a return tuple is its parameter list   [ReturnType = %s]' % ' '.join(p['syms']))
            else:
                r.finding('return-tuple', '-', 'ReturnType = %s yields %s' % (', '.join(p['syms']), m))
    # the file: (attributes, module, definitions)
    for p in g.prods_of('SliceFile'):
        v, names = flow.top(p)
        want = 'tuple(SliceFilePrelude#1,%s,%s)' % (OPT('Module')(names), LIST('Definition+')(names))
        m = flow.meaning(p)
        if m == want:
            r.ok('SliceFile = %s -> %s' % (' '.join(p['syms']), want))
        else:
            r.finding('slice-file:%s' % ' '.join(p['syms']), '-', 'SliceFile = %s yields %s, expected %s' % (', '.join(p['syms']), m, want))
    for p in g.prods_of('SliceFilePrelude'):
        m = flow.meaning(p)
        if m == LIST('FileAttribute+')(grammarflow.sym_names(p['syms'])):
            r.ok('SliceFilePrelude = %s -> %s' % (' '.join(p['syms']), m))
        else:
            r.finding('file-prelude:%s' % ' '.join(p['syms']), '-', 'SliceFilePrelude = %s yields %s' % (', '.join(p['syms']), m))
    # definitions: the variant is the kind of the definition, and the element is published under its name
    for p in g.prods_of('Definition'):
        kind = p['syms'][0]
        want = 'Definition::%s{0:add_named_element(parser.ast,%s#1)}' % (kind, kind)
        m = flow.meaning(p)
        if m == want:
            r.ok('Definition = %s -> %s' % (kind, want))
        else:
            r.finding('definition:%s' % kind, '-', 'Definition = %s yields %s' % (kind, m))
    # type reference definitions, attributes, identifiers, literals
    simple = {
        ('TypeRefDefinition', 'Primitive'): 'primitive_to_type_ref_definition(parser,Primitive#1)',
        ('TypeRefDefinition', 'Result'): 'anonymous_type_to_type_ref_definition(parser,Result#1)',
        ('TypeRefDefinition', 'Sequence'): 'anonymous_type_to_type_ref_definition(parser,Sequence#1)',
        ('TypeRefDefinition', 'Dictionary'): 'anonymous_type_to_type_ref_definition(parser,Dictionary#1)',
        ('TypeRefDefinition', 'RelativeIdentifier'): 'construct_unpatched_type_ref_definition(RelativeIdentifier#1)',
        ('TypeRefDefinition', 'GlobalIdentifier'): 'construct_unpatched_type_ref_definition(GlobalIdentifier#1)',
        ('AttributeArgument', 'string_literal'): 'unescape_string_literal(string_literal#1)',
        ('AttributeArgument', 'identifier'): 'to_owned(identifier#1)',
        ('FileAttribute', '"[["'): 'Attribute#1',
        ('LocalAttribute', '"["'): 'Attribute#1',
        ('Tag', 'tag_keyword'): 'parse_tag_value(parser,SignedInteger#1)',
        ('SignedInteger', 'Integer'): 'Integer#1',
        ('ContainerIdentifier', 'Identifier'): 'Identifier#1',
        ('CommaList<AttributeArgument>', 'NonEmptyCommaList<AttributeArgument>'): 'NonEmptyCommaList<AttributeArgument>#1',
    }
    for (nt, first), want in simple.items():
        ps = [p for p in g.prods_of(nt) if p['syms'] and p['syms'][0] == first]
        if len(ps) != 1:
            r.finding('production-missing:%s=%s' % (nt, first), '-', '%d productions %s = %s ...' % (len(ps), nt, first))
            continue
        m = flow.meaning(ps[0])
        if m == want:
            r.ok('%s = %s -> %s' % (nt, ' '.join(ps[0]['syms']), want))
        else:
            r.finding('production-meaning:%s=%s' % (nt, first), '-', '%s = %s yields %s, the grammar says %s' % (nt, ', '.join(ps[0]['syms']), m, want))
    for p in g.prods_of('Attribute'):
        v, names = flow.top(p)
        m = flow.meaning(p)
        want = 'construct_attribute(parser,RelativeIdentifier#1,%s,' % OPT('CommaList<AttributeArgument>')(names)
        if m.startswith(want):
            r.ok('Attribute = %s -> %s..)' % (' '.join(p['syms']), want))
        else:
            r.finding('attribute:%s' % ' '.join(p['syms']), '-', 'Attribute = %s yields %s' % (', '.join(p['syms']), m))
    ca = prog.fn(G + 'construct_attribute')
    cn = [c for c in ca.calls() if c.name() == 'new' and 'Attribute' in (c.callee or '')]
    if cn and [vexpr(ca, a) for a in cn[0].args][:2] == ['arg2.value', 'unwrap_or_default(arg3)']:
        r.ok('Attribute::new(directive text, all arguments or none, span)')
    else:
        r.finding('attribute-new', ca.span, 'construct_attribute builds the attribute from %s' % [[vexpr(ca, a) for a in c.args] for c in cn])
    for nt, want in (('Identifier', r"^Identifier::Identifier\{value:to_owned\(identifier#1\),span:"), ('Integer', r"^try_parse_integer\(parser,integer_literal#1,"),
                     ('Module', r"^construct_module\(parser,Prelude#1,RelativeIdentifier#1,")):
        for p in g.prods_of(nt):
            m = flow.meaning(p)
            if re.match(want, m):
                r.ok('%s = %s -> %s' % (nt, ' '.join(p['syms']), m[:60]))
            else:
                r.finding('production-meaning:%s' % nt, '-', '%s = %s yields %s' % (nt, ', '.join(p['syms']), m))
    # scoped identifiers: first segment then the rest, joined by "::" (a leading "" for global ones)
    for nt, first_arg in (('RelativeIdentifier', True), ('GlobalIdentifier', False)):
        for p in g.prods_of(nt):
            v, names = flow.top(p)
            cs = {n: args for n, callee, args, c in flow.calls(p)}
            ins, jn = cs.get('insert'), cs.get('join')
            rest = '("::" <identifier>)+#1' if '("::" <identifier>)+#1' in names else '[]'
            ok = ins is not None and jn is not None and ins[0] == rest and ins[1] == '0' and jn[0] == rest and jn[1] == "'::'"
            ok = ok and (ins[2] == 'identifier#1' if first_arg else ins[2] == "''")
            built = flow.built(p, 'slicec::grammar::util::Identifier') or flow.built(p, 'Identifier')
            ok = ok and len(built) == 1 and built[0][1].get('value') == "join(%s,'::')" % rest
            if ok:
                r.ok('%s = %s -> segments joined by "::" in order' % (nt, ' '.join(p['syms'])))
            else:
                r.finding('scoped-identifier:%s:%s' % (nt, ' '.join(p['syms'])), '-', '%s = %s: insert%s join%s value %s' % (nt, ', '.join(p['syms']), ins, jn, [b[1].get('value') for b in built]))
    # negative literals
    for p in g.prods_of('SignedInteger'):
        if p['syms'][0] == '"-"':
            built = flow.built(p, 'slicec::grammar::util::Integer') or flow.built(p, 'Integer')
            if len(built) == 1 and built[0][1].get('value') == 'Neg(Integer#1.value)':
                r.ok('SignedInteger = "-" Integer -> value negated')
            else:
                r.finding('negative-literal', '-', 'SignedInteger = "-", Integer builds %s' % [b[1] for b in built])
    # prelude: comments and attributes accumulate in order
    for p in g.prods_of('Prelude'):
        v, names = flow.top(p)
        m = flow.meaning(p)
        cs = [(n, args) for n, callee, args, c in flow.calls(p) if n == 'push']
        if not p['syms']:
            ok = m == 'tuple(new(),new())'
        elif p['syms'][1] == 'doc_comment':
            ok = m == 'Prelude#1' and len(cs) == 1 and cs[0][1][0] == 'Prelude#1.0' and cs[0][1][1].startswith('tuple(doc_comment#1,')
        else:
            ok = m == 'Prelude#1' and len(cs) == 1 and cs[0][1] == ['Prelude#1.1', 'LocalAttribute#1']
        if ok:
            r.ok('Prelude = %s keeps what came before and appends the new item' % ' '.join(p['syms']))
        else:
            r.finding('prelude:%s' % ' '.join(p['syms']), '-', 'Prelude = %s yields %s with pushes %s' % (', '.join(p['syms']), m, cs))
    r.floor(250)


# ----------------------------------------------------------------------------------------------------------- (3) lists and children
def r_lists(r, prog, flow):
    g = flow.gen
    A = flow.acts
    n = 0
    for p in g.productions:
        nt = p['nt']
        v, names = flow.top(p)
        txt = grammarflow.render(v, names)
        if nt.endswith('+') and not nt.endswith('?+'):
            base = nt[:-1]
            if p['syms'] and p['syms'][0] == nt:
                # X+ = X+ item...   -> push(X+, item) where item uses exactly the new symbols
                ok = v[0] == 'push' and v[1] == ('S', 0)
                item = v[2] if ok else None
            else:
                ok = v[0] == 'list' and len(v[1]) == 1
                item = v[1][0] if ok else None
            if ok:
                r.ok('%s = %s -> %s' % (nt, ' '.join(p['syms']), txt))
            else:
                r.finding('list-production:%s=%s' % (nt, ' '.join(p['syms'])), '-', 'the list production %s = %s yields %s: elements are dropped or reordered' % (nt, ', '.join(p['syms']), txt))
            n += 1
        elif nt.endswith('*'):
            ok = (not p['syms'] and v == ('list', [])) or (p['syms'] == [nt[:-1] + '+'] and v == ('S', 0))
            if ok:
                r.ok('%s = %s -> %s' % (nt, ' '.join(p['syms']), txt))
            else:
                r.finding('list-production:%s=%s' % (nt, ' '.join(p['syms'])), '-', 'the list production %s = %s yields %s' % (nt, ', '.join(p['syms']), txt))
            n += 1
        elif nt.startswith('UndelimitedList<'):
            inner = '(<%s> ","?)+' % nt[len('UndelimitedList<'):-1]
            ok = (not p['syms'] and v == ('list', [])) or (p['syms'] == [inner] and v == ('S', 0))
            if ok:
                r.ok('%s = %s -> %s' % (nt, ' '.join(p['syms']), txt))
            else:
                r.finding('list-production:%s=%s' % (nt, ' '.join(p['syms'])), '-', '%s = %s yields %s' % (nt, ', '.join(p['syms']), txt))
            n += 1
    # the optional comma never changes the value: (<T> ","?)+ items are the T symbol itself
    for p in g.productions:
        m = re.match(r'^\(<(\w+)> ","\?\)\+$', p['nt'])
        if not m:
            continue
        v, names = flow.top(p)
        item = v[2] if v[0] == 'push' else (v[1][0] if v[0] == 'list' and v[1] else None)
        if item is not None and item[0] == 'S' and p['syms'][item[1]] == m.group(1):
            r.ok('%s = %s: the element is the %s itself, with or without the comma' % (p['nt'], ' '.join(p['syms']), m.group(1)))
        else:
            r.finding('optional-comma:%s=%s' % (p['nt'], ' '.join(p['syms'])), '-', '%s = %s: the element is %s' % (p['nt'], ', '.join(p['syms']), grammarflow.render(item, names) if item else None))
    # comma lists: first element put in front of the rest; the trailing comma is not looked at
    for p in g.productions:
        if not p['nt'].startswith('NonEmptyCommaList<'):
            continue
        T = p['nt'][len('NonEmptyCommaList<'):-1]
        v, names = flow.top(p)
        rest = '("," <%s>)+#1' % T
        rest = rest if rest in names else '[]'
        cs = {nm: args for nm, callee, args, c in flow.calls(p)}
        m = flow.meaning(p)
        if v[0] == 'U' and cs.get('insert') == [rest, '0', T + '#1'] and m == rest:
            r.ok('%s = %s -> [first] ++ rest, in order' % (p['nt'], ' '.join(p['syms'])))
        else:
            r.finding('comma-list:%s=%s' % (p['nt'], ' '.join(p['syms'])), '-', '%s = %s yields %s after insert%s' % (p['nt'], ', '.join(p['syms']), m, cs.get('insert')))
        n += 1
    for p in g.productions:
        m = re.match(r'^\("," <(\w+)>\)\+$', p['nt'])
        if not m:
            continue
        v, names = flow.top(p)
        item = v[2] if v[0] == 'push' else (v[1][0] if v[0] == 'list' and v[1] else None)
        if item is not None and item[0] == 'S' and p['syms'][item[1]] == m.group(1):
            r.ok('%s = %s: the element is the %s' % (p['nt'], ' '.join(p['syms']), m.group(1)))
        else:
            r.finding('comma-list-item:%s=%s' % (p['nt'], ' '.join(p['syms'])), '-', '%s = %s: the element is %s' % (p['nt'], ', '.join(p['syms']), item))
    r.floor(60)


def _recv_field(f, op):
    """field name through which a &mut receiver was borrowed, e.g. `&mut (*x).fields` -> 'fields'"""
    p = op_place(op)
    seen = 0
    while p is not None and seen < 6:
        seen += 1
        names = [x.get('n') for x in p.get('p', []) if isinstance(x, dict) and 'f' in x]
        if names:
            return names[-1]
        ds = [d for d in f.defs_of(p['l'])]
        if len(ds) != 1 or ds[0][0] != 'assign':
            return None
        rv = ds[0][3]
        if rv['k'] == 'ref':
            p = rv['p']
        elif rv['k'] == 'use':
            p = op_place(rv['a'])
        else:
            return None
    return None


CHILDREN = {   # helper -> {element list field: (parameter the children come from, rendered iterator source)}
    'construct_struct': {'fields': 'fields'},
    'construct_interface': {'operations': 'operations'},
    'construct_operation': {'parameters': 'parameters', 'return_type': 'return_type'},
    'construct_enum': {'enumerators': 'enumerators'},
}


def r_children(r, prog):
    for helper, spec in CHILDREN.items():
        f = prog.fn(G + helper)
        argn = {f.local_name(i): i for i in range(1, f.argc + 1)}
        pushes = [c for c in f.calls() if c.name() == 'push' and not f.blocks[c.bb].get('cleanup')]
        got = {}
        for c in pushes:
            fld = _recv_field(f, c.args[0])
            got.setdefault(fld, []).append(c)
        for fld, param in spec.items():
            cs = got.get(fld, [])
            if len(cs) != 1:
                r.finding('children-push:%s.%s' % (helper, fld), f.span, '%s pushes %d times into .%s' % (helper, len(cs), fld))
                continue
            c = cs[0]
            val = vexpr(f, c.args[1])
            src = 'arg%d' % argn[param]
            want = [r'^add_named_element\(arg1\.ast,next\(into_iter\(%s\)\) as Some\.0\)$' % src, r'^add_named_element\(arg1\.ast,next\(into_iter\(unwrap_or_default\(%s\)\)\) as Some\.0\)$' % src]
            lp = loop_of(f, c.bb)
            if any(re.match(w, val) for w in want) and lp is not None:
                r.ok('%s: every element of `%s`, in order, is published and appended to .%s' % (helper, param, fld))
            else:
                r.finding('children-flow:%s.%s' % (helper, fld), c.span, '%s appends %s to .%s (expected each element of `%s`, published by add_named_element, inside a loop)' % (helper, val, fld, param))
                continue
            # parent before publication, inside the same iteration
            adds = [a for a in f.calls() if a.name() == 'add_named_element' and a.bb in lp[1] and not f.blocks[a.bb].get('cleanup')]
            sets = [(bb, lhs) for bb, j, lhs, rv, s in f.assigns() if bb in lp[1] and [x for x in lhs.get('p', []) if isinstance(x, dict) and x.get('n') == 'parent']]
            if len(adds) == 1 and sets and all(f.dominates(bb, adds[0].bb) for bb, _ in sets):
                r.ok('%s: child.parent is set before the child is published (.%s)' % (helper, fld))
            else:
                r.finding('parent-after-publication:%s.%s' % (helper, fld), f.span, '%s publishes a child of .%s before (or without) setting its parent' % (helper, fld))
    # enumerator fields: Some(each field, parent set, published) exactly when a field list was written
    ce = prog.fn(G + 'construct_enumerator')
    sets = [(bb, vexpr(ce, rv['a'], depth=10) if rv['k'] == 'use' else rv['k']) for bb, j, lhs, rv, s in ce.assigns()
            if [x for x in lhs.get('p', []) if isinstance(x, dict) and x.get('n') == 'fields'] and not ce.blocks[bb].get('cleanup')]
    cl = [f for f in prog.fns.values() if f.path.startswith(G + 'construct_enumerator::{closure')]
    okc = False
    for c in cl:
        adds = [a for a in c.calls() if a.name() == 'add_named_element']
        ps = [bb for bb, j, lhs, rv, s in c.assigns() if [x for x in lhs.get('p', []) if isinstance(x, dict) and x.get('n') == 'parent']]
        if len(adds) == 1 and ps and all(c.dominates(bb, adds[0].bb) for bb in ps) and vexpr(c, adds[0].args[1]) == 'arg2' and vexpr(c, {'cp': {'l': 0}}).startswith('add_named_element('):
            okc = True
    gs = guards.guard_set(prog, ce, sets[0][0]) if sets else []
    if len(sets) == 1 and re.match(r'^Option::Some\{0:collect\(map\(into_iter\(arg4 as Some\.0\),closure\(', sets[0][1]) and 'arg4 is Some' in gs and okc:
        r.ok('construct_enumerator: fields = Some(every written field, parent set, then published) iff a field list was written')
    else:
        r.finding('enumerator-fields', ce.span, 'construct_enumerator sets .fields to %s under %s (closure ok: %s)' % (sets, gs, okc))
    agg = [a for a in aggregates(prog, E + 'enumerator::Enumerator', crates=('slicec',)) if a['fn'] is ce]
    if agg and vexpr(ce, dict(zip(agg[0]['rv']['fn'], agg[0]['rv']['ops']))['fields']) == 'Option::None{}':
        r.ok('construct_enumerator: fields = None when no field list was written')
    else:
        r.finding('enumerator-fields-default', ce.span, 'the Enumerator literal does not start with fields: None')
    r.floor(12)


# ----------------------------------------------------------------------------------------------------------- (4) named symbols are used
def r_named_symbols_used(r, prog, flow):
    n = 0
    for k, a in sorted(flow.acts.acts.items()):
        if a['kind'] != 'user':
            continue       # wrappers and LALRPOP's own macro actions (Some/None/vec/push/lookahead/selection)
        f = flow.action_fn(k)
        used = set()
        texts = [vexpr(f, {'cp': {'l': 0}}, depth=14)]
        for c in f.calls():
            if not f.blocks[c.bb].get('cleanup'):
                texts += [vexpr(f, o, depth=14) for o in c.args]
        for bb, j, lhs, rv, s in f.assigns():
            if f.blocks[bb].get('cleanup'):
                continue
            if lhs.get('p') and rv['k'] == 'use':
                texts.append(vexpr(f, rv['a'], depth=14))      # stores through a reference / into a field
        for blk in f.blocks:
            if blk['t']['k'] == 'switch' and not blk.get('cleanup'):
                texts.append(vexpr(f, blk['t']['d'], depth=14))
        for t in texts:
            used.update(int(x) for x in re.findall(r'\barg(\d+)\b', t))
        for i, p in enumerate(a['params'][1:]):
            if p['name'] == '_' or re.match(r'^__(\d+|look\w+)$', p['name']):
                continue       # unnamed symbols; `__N` are the positional names LALRPOP gives when the author named none
            n += 1
            if (i + 2) in used:
                pass
            else:
                r.finding('named-symbol-unused:A%d:%s' % (k, p['name']), f.span, 'the grammar action %d names the symbol `%s` but never uses it: what was written there is dropped' % (k, p['name']))
    if n:
        r.ok('every named symbol of every grammar action is used (%d symbols in %d actions)' % (n, len([a for a in flow.acts.acts.values() if a['kind'] != 'wrapper'])))
    r.floor(1)


# ----------------------------------------------------------------------------------------------------------- (5) enumerator numbering
def r_enumerator_numbering(r, prog):
    ce = prog.fn(G + 'construct_enumerator')
    EV = E + 'enumerator::EnumeratorValue'
    ags = {a['rv']['v']: a for a in aggregates(prog, EV, crates=('slicec',)) if a['fn'] is ce and not ce.blocks[a['bb']].get('cleanup')}
    ex, im = ags.get('Explicit'), ags.get('Implicit')
    if ex is None or im is None:
        raise AnchorMissing('EnumeratorValue::Explicit/Implicit in construct_enumerator')
    gx, gi = guards.guard_set(prog, ce, ex['bb']), guards.guard_set(prog, ce, im['bb'])
    if vexpr(ce, ex['rv']['ops'][0]) == 'arg5 as Some.0' and 'arg5 is Some' in gx:
        r.ok('a written value is kept as it is (Explicit), exactly when one was written')
    else:
        r.finding('explicit-value', ex['span'], 'Explicit is built from %s under %s' % (vexpr(ce, ex['rv']['ops'][0]), gx))
    iv = vexpr(ce, im['rv']['ops'][0])
    if re.match(r'^map_or\(arg1\.previous_enumerator_value,0,closure\(\)\)$', iv) and any(x in gi for x in ('arg5 is not Some', 'arg5 is None')):
        r.ok('without a written value: 0 for the first enumerator, otherwise a function of the previous value')
    else:
        r.finding('implicit-value', im['span'], 'Implicit is built from %s under %s' % (iv, gi))
    cls = [f for f in prog.fns.values() if f.path.startswith(G + 'construct_enumerator::{closure') and f.local_ty(0) == 'i128']
    if len(cls) == 1 and re.match(r'^wrapping_add\(arg2,1\)$|^Add\(arg2,1\)$|^Add\(1,arg2\)$', vexpr(cls[0], {'cp': {'l': 0}})):
        r.ok('... namely previous + 1')
    else:
        r.finding('implicit-increment', ce.span, 'the implicit value is computed by %s' % [vexpr(c, {'cp': {'l': 0}}) for c in cls])
    # the Enumerator is built with that value
    agg = [a for a in aggregates(prog, E + 'enumerator::Enumerator', crates=('slicec',)) if a['fn'] is ce]
    val = vexpr(ce, dict(zip(agg[0]['rv']['fn'], agg[0]['rv']['ops']))['value'], depth=6) if agg else ''
    if val.startswith('phi(EnumeratorValue::Explicit{') and '|EnumeratorValue::Implicit{' in val and val.count('|') == 1:
        r.ok('Enumerator.value is one of the two')
    else:
        r.finding('enumerator-value-field', ce.span, 'Enumerator.value is %s' % val[:120])
    # state: Some(value() of the enumerator just built) on every path; reset at the end of every enum; no other writer
    P = 'slicec::parsers::slice::parser::Parser'
    writers = {}
    for a in field_accesses(prog, P, 'previous_enumerator_value', crates=('slicec',)):
        if a['kind'] in ('write', 'refmut'):
            writers.setdefault(a['fn'].path, []).append(a)
    allowed = {G + 'construct_enumerator', G + 'construct_enum'}
    for w in writers:
        if w in allowed or w.endswith('Parser::<\'a>::new'):
            continue
        r.finding('numbering-state-writer:%s' % w, writers[w][0]['span'], '%s writes Parser::previous_enumerator_value' % w)
    rets = [i for i, b in enumerate(ce.blocks) if b['t']['k'] == 'return']
    ws = [(bb, vexpr(ce, rv['a'], depth=8) if rv['k'] == 'use' else rv['k']) for bb, j, lhs, rv, s in ce.assigns()
          if [x for x in lhs.get('p', []) if isinstance(x, dict) and x.get('n') == 'previous_enumerator_value'] and not ce.blocks[bb].get('cleanup')]
    if ws and all(re.match(r'^Option::Some\{0:value\(borrow\(new\(Enumerator::Enumerator\{', v) for bb, v in ws) and must_pass(ce, 0, rets, [bb for bb, v in ws]):
        r.ok('after every enumerator the state is Some(value() of that enumerator), on every path')
    else:
        r.finding('numbering-state-update', ce.span, 'construct_enumerator updates previous_enumerator_value with %s (must be Some(enumerator.value()) on every path)' % ws)
    cen = prog.fn(G + 'construct_enum')
    rets = [i for i, b in enumerate(cen.blocks) if b['t']['k'] == 'return']
    ws = [(bb, vexpr(cen, rv['a'], depth=4) if rv['k'] == 'use' else (rv.get('v') if rv['k'] == 'agg' else rv['k'])) for bb, j, lhs, rv, s in cen.assigns()
          if [x for x in lhs.get('p', []) if isinstance(x, dict) and x.get('n') == 'previous_enumerator_value'] and not cen.blocks[bb].get('cleanup')]
    if ws and all(v in ('None', 'Option::None{}') for bb, v in ws) and must_pass(cen, 0, rets, [bb for bb, v in ws]):
        r.ok('at the end of every enum the state is reset to None, on every path')
    else:
        r.finding('numbering-state-reset', cen.span, 'construct_enum leaves previous_enumerator_value as %s on some path' % ws)
    vf = prog.fn(E + 'enumerator::Enumerator::value')
    sws = enum_switches(vf, 'EnumeratorValue')
    rv = vexpr(vf, {'cp': {'l': 0}})
    if sws and re.match(r'^phi\(arg1\.value as (Explicit\.0\.value|Implicit\.0)\|arg1\.value as (Explicit\.0\.value|Implicit\.0)\)$', rv) and 'Explicit' in rv and 'Implicit' in rv:
        r.ok('Enumerator::value() is the written integer or the computed one')
    else:
        r.finding('enumerator-value-accessor', vf.span, 'Enumerator::value() returns %s' % rv)
    r.floor(7)


# ----------------------------------------------------------------------------------------------------------- (6) scope state
def r_scope_state(r, prog, flow):
    g = flow.gen
    n = 0
    for p in g.productions:
        ci = [i for i, s in enumerate(p['syms']) if s == 'ContainerIdentifier']
        ce = [i for i, s in enumerate(p['syms']) if s == 'ContainerEnd']
        if not ci and not ce:
            continue
        n += 1
        if len(ci) == 1 and len(ce) == 1 and ci[0] < ce[0] and ce[0] == len(p['syms']) - 1:
            r.ok('%s = %s: one scope is opened by the name and closed at the end' % (p['nt'], ' '.join(p['syms'])))
        else:
            r.finding('scope-pairing:%s=%s' % (p['nt'], ' '.join(p['syms'])), '-', 'the production %s = %s opens %d and closes %d scopes' % (p['nt'], ', '.join(p['syms']), len(ci), len(ce)))
    for p in g.prods_of('ContainerIdentifier'):
        cs = [(nm, args) for nm, callee, args, c in flow.calls(p) if nm in ('push_scope', 'pop_scope')]
        if cs == [('push_scope', ['parser.current_scope', 'Identifier#1.value'])] and flow.meaning(p) == 'Identifier#1':
            r.ok('ContainerIdentifier pushes the identifier it returns')
        else:
            r.finding('container-identifier', '-', 'ContainerIdentifier: %s -> %s' % (cs, flow.meaning(p)))
    for p in g.prods_of('ContainerEnd'):
        cs = [(nm, args) for nm, callee, args, c in flow.calls(p) if nm in ('push_scope', 'pop_scope')]
        if cs == [('pop_scope', ['parser.current_scope'])]:
            r.ok('ContainerEnd pops one scope')
        else:
            r.finding('container-end', '-', 'ContainerEnd: %s' % cs)
    # writers of the scope state
    S = 'slicec::grammar::util::Scope'
    for fld in ('parser_scope', 'module'):
        for a in field_accesses(prog, S, fld, crates=('slicec',)):
            if a['kind'] not in ('write', 'refmut'):
                continue
            p = a['fn'].path
            if p in (S + '::push_scope', S + '::pop_scope', G + 'construct_module') or 'Default' in p or 'default' in p:
                continue
            r.finding('scope-writer:%s:%s' % (fld, p), a['span'], '%s writes Scope::%s' % (p, fld))
    users = {}
    for c in [c for f in prog.fns.values() if f.crate.tag == 'slicec' for c in f.calls() if c.name() in ('push_scope', 'pop_scope') and 'Scope' in (c.callee or '')]:
        users.setdefault(c.fn.path, []).append(c.name())
    bad = {k: v for k, v in users.items() if not k.startswith(GM + '::__action')}
    if bad:
        for k in bad:
            r.finding('scope-push-pop-outside-grammar:%s' % k, '-', '%s calls %s' % (k, bad[k]))
    else:
        r.ok('push_scope / pop_scope are called only by the ContainerIdentifier / ContainerEnd actions')
    ps = prog.fn(S + '::push_scope')
    pcs = [(c.name(), [vexpr(ps, a) for a in c.args]) for c in ps.calls() if c.name() in ('push_str', 'clear', 'truncate')]
    if [x for x in pcs if x == ('push_str', ['arg1.parser_scope', 'arg2'])] and len([x for x in pcs if x[0] == 'push_str']) == 2:
        r.ok('push_scope appends "::" (when not empty) and the name')
    else:
        r.finding('push-scope', ps.span, 'push_scope does %s' % pcs)
    cm = prog.fn(G + 'construct_module')
    ws = [vexpr(cm, rv['a'], depth=6) if rv['k'] == 'use' else rv['k'] for bb, j, lhs, rv, s in cm.assigns()
          if [x for x in lhs.get('p', []) if isinstance(x, dict) and x.get('n') == 'parser_scope'] and not cm.blocks[bb].get('cleanup')]
    wc = [vexpr(cm, {'cp': c.dest}, depth=1) for c in cm.calls() if c.dest is not None and [x for x in c.dest.get('p', []) if isinstance(x, dict) and x.get('n') == 'parser_scope']]
    cs = [c for c in cm.calls() if c.dest is not None and [x for x in c.dest.get('p', []) if isinstance(x, dict) and x.get('n') == 'parser_scope'] and not cm.blocks[c.bb].get('cleanup')]
    src = ['%s(%s)' % (c.name(), ','.join(vexpr(cm, a, depth=8) for a in c.args)) for c in cs] + ws
    if len(src) == 1 and re.match(r'^to_owned\(nested_module_identifier\(', src[0]):
        r.ok('a module declaration sets the scope to the module\'s own identifier')
    else:
        r.finding('module-scope', cm.span, 'construct_module sets parser_scope to %s' % src)
    if n < 8:
        raise AnchorMissing('productions with ContainerIdentifier (found %d)' % n)
    r.floor(12)


# ----------------------------------------------------------------------------------------------------------- (7) integer literals
def r_integer_literals(r, prog):
    f = prog.fn(G + 'try_parse_integer')
    san = "replace(arg2,95,'')"
    bad = []
    n = 0
    for c in f.calls():
        if f.blocks[c.bb].get('cleanup'):
            continue
        if c.name() in ('starts_with', 'strip_prefix', 'index', 'as_str', 'get', 'split_at', 'trim_start_matches', 'len', 'chars', 'bytes', 'find'):
            n += 1
            a0 = vexpr(f, c.args[0])
            if a0 != san:
                bad.append((c.name(), a0))
    if n >= 3 and not bad:
        r.ok('the base prefix is looked for in, and the digits are taken from, the literal without its underscores (%d uses)' % n)
    else:
        r.finding('literal-text-source', f.span, 'try_parse_integer inspects %s; every test and slice must use the underscore-free text %s' % (bad or 'too few sites', san))
    tuples = []
    for bb, j, lhs, rv, s in f.assigns():
        if rv['k'] == 'agg' and rv.get('ak') == 'tuple' and len(rv['ops']) == 2 and not f.blocks[bb].get('cleanup'):
            tuples.append((vexpr(f, rv['ops'][0]), vexpr(f, rv['ops'][1]), guards.guard_set(prog, f, bb)))
    want = {"index(%s,RangeFrom::RangeFrom{start:2})|2" % san: "starts_with(%s,'0b')" % san, "index(%s,RangeFrom::RangeFrom{start:2})|16" % san: "starts_with(%s,'0x')" % san}
    # second idiom for the same table: strip_prefix gives the digits directly
    want2 = {"strip_prefix(%s,'0b') as Some.0|2" % san: "strip_prefix(%s,'0b') is Some" % san, "strip_prefix(%s,'0x') as Some.0|16" % san: "strip_prefix(%s,'0x') is Some" % san}
    seen = set()
    for lit, base, gs in tuples:
        key = '%s|%s' % (lit, base)
        if key in want and want[key] in gs:
            seen.add(key)
        elif key in want2 and want2[key] in gs:
            seen.add(key)
        elif lit in (san, 'as_str(%s)' % san) and base == '10' and (all(('!(%s)' % w) in gs for w in want.values())
                                                                   or all(w.replace(' is Some', ' is not Some') in gs for w in want2.values())):
            seen.add('dec')
        else:
            r.finding('literal-base:%s' % base, f.span, 'digits %s are parsed in base %s under %s' % (lit, base, gs))
    if len(seen) == 3:
        r.ok('0b.. is base 2, 0x.. is base 16 (both without the prefix), anything else is base 10')
    else:
        r.finding('literal-base-table', f.span, 'base selection arms found: %s' % sorted(seen))
    fr = [c for c in f.calls() if c.name() == 'from_str_radix']
    a = [vexpr(f, x) for x in fr[0].args] if fr else []
    if len(fr) == 1 and a[0].endswith('.0') and a[1].endswith('.1') and a[0][:-2] == a[1][:-2]:
        r.ok('the digits are parsed in the base selected with them')
    else:
        r.finding('literal-parse', f.span, 'from_str_radix(%s)' % a)
    agg = [x for x in aggregates(prog, 'slicec::grammar::util::Integer', crates=('slicec',)) if x['fn'] is f] or [x for x in aggregates(prog, 'Integer', crates=('slicec',)) if x['fn'] is f]
    val = vexpr(f, dict(zip(agg[0]['rv']['fn'], agg[0]['rv']['ops']))['value'], depth=5) if agg else ''
    if re.match(r'^phi\(0\|from_str_radix\(.*\) as Ok\.0\)$|^phi\(from_str_radix\(.*\) as Ok\.0\|0\)$', val):
        r.ok('the literal\'s value is the parsed number (0 only next to a reported error)')
    else:
        r.finding('literal-value', f.span, 'Integer.value is %s' % val)
    t = prog.fn(G + 'parse_tag_value')
    agg = [x for x in aggregates(prog, 'Integer', crates=('slicec',)) if x['fn'] is t]
    flds = {k: vexpr(t, o) for k, o in zip(agg[0]['rv']['fn'], agg[0]['rv']['ops'])} if agg else {}
    if flds == {'value': 'arg2.value', 'span': 'arg2.span'}:
        r.ok('a tag is the integer that was written')
    else:
        r.finding('tag-value', t.span, 'parse_tag_value builds %s' % flds)
    r.floor(5)


# ----------------------------------------------------------------------------------------------------------- (8) lexer modes and consumption
def r_lexer_modes(r, prog):
    lx = prog.fn(SL + 'lex_next_slice_token')
    L = 'slicec::parsers::slice::lexer::Lexer'
    ws = []
    for bb, j, lhs, rv, st in lx.assigns():
        if [x for x in lhs.get('p', []) if isinstance(x, dict) and x.get('n') == 'attribute_mode'] and not lx.blocks[bb].get('cleanup'):
            gs_all = guards.guard_set(prog, lx, bb)
            ws.append((vexpr(lx, rv['a']) if rv['k'] == 'use' else rv['k'], [g for g in gs_all if g.startswith('arg2 ==')]))
            # ... on every path through its arm: both the single and the double bracket open (close) an attribute
            want = '91' if (rv['k'] == 'use' and vexpr(lx, rv['a']) == '1') else '93'
            entry = [tgt for blk in lx.blocks if blk['t']['k'] == 'switch' and blk['t']['ty'] == 'char' and vexpr(lx, blk['t']['d']) == 'arg2' for v, tgt in blk['t']['ts'] if v == want]
            if not entry:
                raise AnchorMissing('the arm of lex_next_slice_token for character %s' % want)
            if not must_pass(lx, entry[0], lx.return_blocks(), [bb]):
                r.finding('attribute-mode-conditional:%s' % want, lx.span, 'attribute_mode is not written on every path through the arm for %s: `[[` / `]]` (or the single bracket) leaves the mode as it was, and keywords inside such an attribute are lexed as keywords' % ('"["' if want == '91' else '"]"'))
            else:
                r.ok('attribute_mode = %s on every path through the arm for %s' % (vexpr(lx, rv['a']) if rv['k'] == 'use' else '?', '"["' if want == '91' else '"]"'))
    if sorted(ws) == [('0', ['arg2 == 93']), ('1', ['arg2 == 91'])]:
        r.ok('attribute mode is entered on "[" and left on "]"')
    else:
        r.finding('attribute-mode-writes', lx.span, 'attribute_mode is written as %s' % ws)
    for a in field_accesses(prog, L, 'attribute_mode', crates=('slicec',)):
        if a['kind'] in ('write', 'refmut') and a['fn'] is not lx and not a['fn'].path.endswith('::new'):
            r.finding('attribute-mode-writer:%s' % a['fn'].path, a['span'], '%s writes attribute_mode' % a['fn'].path)
    # words: keyword lookup unless in attribute mode; escaped identifiers never
    kc = [c for c in lx.calls() if c.name() == 'check_if_keyword']
    if len(kc) == 1:
        gs = guards.guard_set(prog, lx, kc[0].bb)
        if '!(arg1.attribute_mode)' in gs and 'is_ascii_alphabetic(arg2)' in gs and vexpr(lx, kc[0].args[0]) == 'read_alphanumeric(arg1)':
            r.ok('outside attributes a word is looked up in the keyword table')
        else:
            r.finding('keyword-lookup', kc[0].span, 'check_if_keyword(%s) is called under %s' % (vexpr(lx, kc[0].args[0]), gs))
    else:
        r.finding('keyword-lookup-sites', lx.span, 'check_if_keyword is called %d times' % len(kc))
    ids = [(a, guards.guard_set(prog, lx, a['bb'])) for a in aggregates(prog, TK, 'Identifier', crates=('slicec',)) if a['fn'] is lx and not lx.blocks[a['bb']].get('cleanup')]
    attr = [x for x in ids if 'arg1.attribute_mode' in x[1]]
    esc = [x for x in ids if 'arg2 == 92' in x[1]]
    if len(ids) == 2 and len(attr) == 1 and len(esc) == 1 and all(vexpr(lx, a['rv']['ops'][0]) == 'read_alphanumeric(arg1)' for a, _ in ids):
        r.ok('inside attributes, and after a backslash, a word is an identifier whatever it spells')
    else:
        r.finding('identifier-sites', lx.span, 'Identifier tokens are built under %s' % [x[1] for x in ids])
    pay = {}
    for a in aggregates(prog, TK, crates=('slicec',)):
        if a['fn'] is lx and a['rv']['v'] in ('StringLiteral', 'IntegerLiteral', 'DocComment') and not lx.blocks[a['bb']].get('cleanup'):
            pay[a['rv']['v']] = (vexpr(lx, a['rv']['ops'][0]), guards.guard_set(prog, lx, a['bb']))
    want = {'StringLiteral': ('read_string_literal(arg1) as Ok.0', 'arg2 == 34'), 'IntegerLiteral': ('read_alphanumeric(arg1)', 'is_ascii_digit(arg2)'), 'DocComment': ('@rest-of-line', 'arg2 == 47')}

    def rest_of_line(g):
        """g returns (or, for the lexing function itself, builds) the current block's content between the position before and the position after
        one advance_to_end_of_line()"""
        gp = [c for c in g.calls() if c.name() == 'get_position' and not g.blocks[c.bb].get('cleanup')]
        adv = [c for c in g.calls() if c.name() == 'advance_to_end_of_line' and not g.blocks[c.bb].get('cleanup')]
        ix = [c for c in g.calls() if c.name() == 'index' and not g.blocks[c.bb].get('cleanup') and vexpr(g, c.args[0]) == 'arg1.current_block.content'
              and vexpr(g, c.args[1]) == 'Range::Range{start:get_position(arg1),end:get_position(arg1)}']
        for i in ix:
            rng = g.defs_of(op_place(i.args[1])['l'])
            ops = [d[3]['ops'] for d in rng if d[0] == 'assign' and d[3]['k'] == 'agg']
            if len(ops) != 1:
                continue
            srcs = [[c for c in gp if c.dest is not None and vexpr(g, {'cp': c.dest}) == 'get_position(arg1)' and _flows(g, c, o)] for o in ops[0]]
            for a in srcs[0]:
                for b in srcs[1]:
                    if any(g.dominates(a.bb, m.bb) and g.dominates(m.bb, b.bb) and a.bb != m.bb != b.bb for m in adv) and g.dominates(b.bb, i.bb):
                        return i
        return None

    def _flows(g, call, operand):
        pl = op_place(operand)
        seen = set()
        while pl is not None and pl['l'] not in seen:
            seen.add(pl['l'])
            if call.dest is not None and pl['l'] == call.dest['l']:
                return True
            ds = [d for d in g.defs_of(pl['l']) if d[0] in ('assign', 'call')]
            if len(ds) != 1:
                return False
            if ds[0][0] == 'call':
                return ds[0][3] is call
            pl = op_place(ds[0][3].get('a')) if ds[0][3]['k'] in ('use', 'cast') else None
        return False

    for k, (val, gd) in want.items():
        if val == '@rest-of-line' and k in pay and gd in pay[k][1]:
            got = pay[k][0]
            m = re.match(r'^(\w+)\(arg1\)$', got)
            reader = prog.fns.get(SL + m.group(1)) if m else None
            if (reader is not None and rest_of_line(reader) is not None and vexpr(reader, {'cp': {'l': 0}}, depth=8).startswith('index(arg1.current_block.content,')) \
                    or (got.startswith('index(arg1.current_block.content,') and rest_of_line(lx) is not None):
                r.ok('%s carries the rest of the line after the slashes (content between the positions around advance_to_end_of_line)' % k)
            else:
                r.finding('payload-token:%s' % k, lx.span, '%s is built as %s' % (k, pay.get(k)))
            continue
        if k in pay and pay[k][0] == val and gd in pay[k][1]:
            r.ok('%s carries the text read by %s' % (k, val.split('(')[0]))
        else:
            r.finding('payload-token:%s' % k, lx.span, '%s is built as %s' % (k, pay.get(k)))
    # token text: always content[start..end] with both positions from get_position()
    n = 0
    for f in prog.fns.values():
        if not f.path.startswith(SL) or f.kind == 'closure':
            continue
        for c in f.calls():
            if c.name() == 'index' and not f.blocks[c.bb].get('cleanup') and 'content' in vexpr(f, c.args[0]):
                n += 1
                a = vexpr(f, c.args[1])
                if re.match(r'^(Range::Range\{start:get_position\(arg1\),end:get_position\(arg1\)\}|RangeFrom::RangeFrom\{start:get_position\(arg1\)\}|RangeTo::RangeTo\{end:get_position\(arg1\)\})$', a) and vexpr(f, c.args[0]) == 'arg1.current_block.content':
                    pass
                else:
                    r.finding('token-text-slice:%s' % f.path.rsplit('::', 1)[-1], c.span, '%s slices %s with %s (expected two buffer positions of the current block)' % (f.path, vexpr(f, c.args[0]), a))
    if n >= 3:
        r.ok('token text is always the current block\'s content between two buffer positions (%d sites)' % n)
    else:
        raise AnchorMissing('content slices in the Slice lexer (found %d)' % n)
    # consumption: one peeked character at a time - every loop of the lexer that consumes is controlled by a peek of the buffer
    loops = 0
    for f in prog.fns.values():
        if not f.path.startswith(SL) or f.kind == 'closure':
            continue
        adv = [c for c in f.calls() if c.name() in ('advance_buffer', 'next') and not f.blocks[c.bb].get('cleanup') and (c.name() == 'advance_buffer' or 'buffer' in vexpr(f, c.args[0]))]
        for hdr, body in f.natural_loops():
            inside = [c for c in adv if c.bb in body]
            if not inside:
                continue
            loops += 1
            peeks = [c for c in f.calls() if c.name() == 'peek' and c.bb in body and 'arg1.buffer' in vexpr(f, c.args[0])]
            if peeks and all(any(f.dominates(pk.bb, c.bb) for pk in peeks) for c in inside):
                pass
            else:
                r.finding('blind-consumption:%s' % f.path.rsplit('::', 1)[-1], f.span, '%s consumes characters in a loop that is not controlled by peeking at the buffer: a count of bytes or anything else computed elsewhere does not say how many characters to consume' % f.path)
    if loops >= 5:
        r.ok('every consuming loop of the lexer peeks at the character it is about to consume (%d loops)' % loops)
    else:
        raise AnchorMissing('consuming loops in the Slice lexer (found %d)' % loops)
    # advance_buffer itself: exactly one character, row/col bookkeeping
    ab = prog.fn(SL + 'advance_buffer')
    nx = [c for c in ab.calls() if c.name() == 'next']
    if len(nx) == 1 and not ab.natural_loops():
        r.ok('advance_buffer consumes exactly one character')
    else:
        r.finding('advance-buffer', ab.span, 'advance_buffer calls next %d times' % len(nx))
    r.floor(9)


def r_helper_preconditions(r, prog):
    guards.evaluate(r, prog, rule_scopes.guards_slice_grammar, 'guards_slice_grammar.json', 20)



def r_lexer_preconditions(r, prog):
    guards.evaluate(r, prog, rule_scopes.guards_slice_lexer, 'guards_slice_lexer.json', 100)


def r_parser_entry(r, prog):
    guards.evaluate(r, prog, rule_scopes.guards_parser_entry, 'guards_parser_entry.json', 10)

def run(ctx):
    prog = ctx.prog
    flow = _flow(ctx)
    ctx.run_rule('C02.1', 'T6', 'token alphabet tables agree (text, TokenKind, Display, terminal, primitive, AST slot)', r_token_tables, prog, flow)
    ctx.run_rule('C02.2', 'T10', 'every field of every element comes from the symbol the grammar names, in every expanded production', r_element_fields, prog, flow)
    ctx.run_rule('C02.3a', 'T10', 'list productions keep every element in order; optional commas do not change values', r_lists, prog, flow)
    ctx.run_rule('C02.3b', 'T4', 'children are iterated in order, get their parent, are published and stored in their own list', r_children, prog)
    ctx.run_rule('C02.4', 'T5', 'every named symbol of every grammar action is used', r_named_symbols_used, prog, flow)
    ctx.run_rule('C02.5', 'T3', 'enumerator numbering', r_enumerator_numbering, prog)
    ctx.run_rule('C02.6', 'T3', 'scope state and its pairing in productions', r_scope_state, prog, flow)
    ctx.run_rule('C02.7', 'T10', 'integer literals and tags', r_integer_literals, prog)
    ctx.run_rule('C02.8', 'T1', 'lexer modes, token text and character-wise consumption', r_lexer_modes, prog)
    ctx.run_rule('C02.9', 'T10', 'parse results are attached to the file they came from, on every path', perfile.r_results_attached_to_own_file, prog)
    ctx.run_rule('C02.9b', 'T10', 'what one file defines or undefines is not seen by the next: every file is preprocessed with its own copy of the command-line symbols', perfile.r_symbols_per_file, prog)
    ctx.run_rule('C02.8d', 'T3', 'layout: the lexer skips exactly the characters char::is_whitespace accepts', layout.r_whitespace_class, prog, ('slice',))
    ctx.run_rule('C02.10', 'T13', 'conditions under which grammar helpers report, return and mutate (precondition ledger)', r_helper_preconditions, prog)
    ctx.run_rule('C02.11', 'T13', 'conditions under which the Slice lexer consumes, returns and switches modes (precondition ledger)', r_lexer_preconditions, prog)
    ctx.run_rule('C02.12', 'T13', 'conditions under which a parsed file is handed back or dropped (precondition ledger of the parser entry points)', r_parser_entry, prog)
    ctx.run_rule('C02.8b', 'T3', 'string literal escape machine', decisions.r_string_literal_escapes, prog)
    from props import c03 as _c03
    ctx.run_rule('C02.14', 'T1', 'every named element is registered under its own scoped name, a later definition taking the name (a module never does)', _c03.r_name_table_single_writer, prog)
    ctx.run_rule('C02.13', 'T2', 'a parsed file is handed back exactly when parsing succeeded without errors', decisions.r_parser_entries, prog, ('slice', 'preprocessor'))
    ctx.run_rule('C02.8c', 'T3', 'string unescaping machine', decisions.r_unescape_machine, prog)
