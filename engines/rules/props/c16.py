"""C16 - doc comments keep their text, tags and links."""
import re
import decisions

import guards
import layout
import rule_scopes

from mirlib import AnchorMissing, path_matches, op_place, place_projs
from helpers import (closure_of_arg, arm, aggregates, enum_switches, must_pass, vexpr, loop_of, origin_calls, calls_matching, sources_of)

EXPLANATION = (
    'Static decision of the structural clauses of C16 on the MIR of slicec: (1) compute/apply agreement of the link patcher: both loops of '
    'patch_ast match the same Node variants, which are the impls of Commentable; compute_patches_for and apply_patches visit overview, '
    'params, returns, see in the same order; every computed link pushes exactly one queue entry on every path and every applied link pops '
    'exactly one; (2) links are looked up from the parser-scoped identifier of the documented element; (3) nothing in the comment parser, '
    'link patcher or comment validators builds an Error: malformed comments, misfit tags and broken links are lints; (4) a bad comment never '
    'costs the element: parse_doc_comment maps a failure to None and every construct_* builds its element on every path; (5) comment text is '
    'only shortened by the two sanctioned operations (leading whitespace of an inline tag message, common indentation); tag blocks extend the '
    'comment span; the three shapes of return lists (none, one, tuple) are validated by three distinct checks. Decides these clauses, not '
    'text equality for all comments.')
THOROUGH_RERUN = ['release']     # the same rules over the release build (no debug assertions): verified clean on the pinned tree
ASSUMPTIONS = ['rustc type checking and MIR construction', 'LALRPOP generated parser (the tag vectors are typed: a ParamTag can only be pushed onto params)']
CLP = "slicec::patchers::comment_link_patcher::"
NODE = 'slicec::ast::node::Node'


def _commentable_types(prog):
    return {i['self_adt'] for i in prog.impls_of('slicec::grammar::traits::Commentable')}


def _payload(prog, vi):
    v = prog.adts[NODE]['variants'][vi]
    m = re.search(r'OwnedPtr<([\w:#]+)>', v['fields'][0]['ty']) if v['fields'] else None
    return v['n'], (m.group(1) if m else None)


def r_node_variants_agree(r, prog):
    f = prog.fn(CLP + 'patch_ast')
    sws = enum_switches(f, NODE)
    if len(sws) != 2:
        raise AnchorMissing('two matches on Node in comment_link_patcher::patch_ast (found %d)' % len(sws))
    comm = _commentable_types(prog)
    if len(comm) < 8:
        raise AnchorMissing('impls of Commentable (found %d)' % len(comm))
    sets = []
    for sw in sws:
        handled = set()
        for vi in range(len(prog.adts[NODE]['variants'])):
            tgt = arm(sw, vi)
            if vi in sw['arms'] and tgt != sw['otherwise']:
                # the arm does something: calls compute_patches_for / apply_patches
                reach = f.reachable(tgt, blocked=[sw['bb']])
                lp = loop_of(f, sw['bb'])
                head = lp[0] if lp else None
                reach = f.reachable(tgt, blocked=[head] if head is not None else [])
                if [c for c in f.calls() if c.bb in reach and c.name() in ('compute_patches_for', 'apply_patches')]:
                    handled.add(vi)
        sets.append(handled)
    names = [sorted(_payload(prog, vi)[0] for vi in s) for s in sets]
    if sets[0] == sets[1]:
        r.ok('compute and apply loops match the same Node variants', ', '.join(names[0]))
    else:
        r.finding('compute-apply-variants-differ', f.span, 'the compute loop handles %s but the apply loop handles %s: the patch queue gets out of step' % (names[0], names[1]))
    want = {vi for vi in range(len(prog.adts[NODE]['variants'])) if _payload(prog, vi)[1] in comm}
    for k, s in enumerate(sets):
        if s == want:
            r.ok('%s loop covers exactly the Commentable node kinds' % ('compute', 'apply')[k])
        else:
            miss = sorted(_payload(prog, vi)[0] for vi in want - s)
            extra = sorted(_payload(prog, vi)[0] for vi in s - want)
            r.finding('commentable-coverage:%s' % ('compute', 'apply')[k], f.span, 'the %s loop misses %s / has extra %s relative to the impls of Commentable' % (('compute', 'apply')[k], miss, extra))
    r.floor(3)


DOC = 'slicec::grammar::comments::DocComment'
FIELDS = ('overview', 'params', 'returns', 'see')


def _visit_order(f):
    first = {}
    for bb, j, s in f.stmts():
        if 'lhs' not in s:
            continue
        txt = s['rv']
        places = []
        if 'p' in txt:
            places.append(txt['p'])
        for k in ('a', 'b'):
            if isinstance(txt.get(k), dict) and op_place(txt[k]) is not None:
                places.append(op_place(txt[k]))
        for p in places:
            for pr in place_projs(p):
                if isinstance(pr, dict) and pr.get('n') in FIELDS and (pr.get('adt') or '').endswith('comments::DocComment'):
                    key = pr['n']
                    if key not in first:
                        first[key] = (bb, j)
    order = []
    for a in first:
        order.append(a)
    dom = f.dominators()

    def before(x, y):
        (bx, jx), (by, jy) = first[x], first[y]
        if bx == by:
            return jx < jy
        return bx in dom.get(by, ())
    import functools
    order.sort(key=functools.cmp_to_key(lambda x, y: -1 if before(x, y) else (1 if before(y, x) else 0)))
    return order, first


def _roles(prog):
    """The functions of the comment-link patcher found by what they do (not by name): the resolver performs the scoped lookup and queues the
    result, poppers take queue entries back out, compute/apply are the two traversals of a DocComment's parts."""
    if getattr(prog, '_c16_roles', None):
        return prog._c16_roles
    fns = [f for f in prog.fns.values() if f.path.startswith(CLP) and '{closure' not in f.path]
    resolver = [f for f in fns if any(c.name() == 'find_node_with_scope' for c in f.calls())]
    poppers = [f for f in fns if any(c.name() == 'pop_front' and 'link_patches' in vexpr(f, c.args[0]) for c in f.calls())]
    visitors = [f for f in fns if set(_visit_order(f)[0]) & set(FIELDS)]
    if len(resolver) != 1:
        raise AnchorMissing('exactly one function of comment_link_patcher calling find_node_with_scope (found %d)' % len(resolver))
    cg = prog.callgraph()

    def reaches(a, targets):
        seen, todo = {a}, [a]
        while todo:
            x = todo.pop()
            if x in targets:
                return True
            for y in cg.get(x, ()):
                if y.startswith(CLP) and y not in seen:
                    seen.add(y)
                    todo.append(y)
        return False
    compute = [f for f in visitors if reaches(f.path, {resolver[0].path})]
    apply_ = [f for f in visitors if reaches(f.path, {g.path for g in poppers})]
    if len(compute) != 1 or len(apply_) != 1 or compute[0] is apply_[0]:
        raise AnchorMissing('one computing and one applying traversal of DocComment in comment_link_patcher (found %d / %d)' % (len(compute), len(apply_)))
    prog._c16_roles = dict(resolver=resolver[0], poppers=poppers, compute=compute[0], apply=apply_[0],
                           between=[f for f in fns if f is not compute[0] and f is not resolver[0] and resolver[0].path in cg.get(f.path, ())])
    return prog._c16_roles


def r_traversal_order_agrees(r, prog):
    c = _roles(prog)['compute']
    a = _roles(prog)['apply']
    oc, _ = _visit_order(c)
    oa, _ = _visit_order(a)
    if set(oc) != set(FIELDS) or set(oa) != set(FIELDS):
        r.finding('comment-part-not-traversed', c.span, 'compute visits %s and apply visits %s; all of %s must be visited by both' % (oc, oa, list(FIELDS)))
    elif oc == oa:
        r.ok('compute and apply visit %s in the same order' % ' -> '.join(oc))
    else:
        r.finding('compute-apply-order-differs', a.span, 'links are computed in the order %s but applied in the order %s: targets end up on the wrong links' % (oc, oa))
    r.floor(1)


def r_one_entry_per_link(r, prog):
    rl = _roles(prog)['resolver']
    pushes = [c for c in rl.calls() if c.name() == 'push_back' and 'link_patches' in vexpr(rl, c.args[0])]
    rets = rl.return_blocks()
    if len(pushes) == 1 and must_pass(rl, 0, rets, [pushes[0].bb]) and loop_of(rl, pushes[0].bb) is None:
        r.ok('resolve_link pushes exactly one queue entry on every path')
    else:
        r.finding('queue-push-count', rl.span, 'resolve_link does not push exactly one entry onto link_patches on every path (%d push site(s))' % len(pushes))
    # every link visited by the compute side goes through the resolver, and nothing else queues entries
    roles = _roles(prog)
    others = [f.path for f in prog.fns.values() if f.path.startswith(CLP) and f is not rl
              and any(c.name() in ('push_back', 'push_front', 'insert', 'extend', 'append') and 'link_patches' in vexpr(f, c.args[0]) for c in f.calls() if c.args)]
    callers = [roles['compute']] + roles['between']
    if others:
        r.finding('queue-filled-elsewhere', rl.span, 'link_patches also receives entries in %s' % others)
    elif any(c.name() == rl.name for g in callers for c in g.calls()):
        r.ok('the computing traversal resolves Link components through %s (%s)' % (rl.name, ', '.join(g.name for g in callers)))
    else:
        r.finding('links-not-resolved', roles['compute'].span, 'the computing traversal does not reach %s' % rl.name)
    # apply side: one pop per link site
    for f in roles['poppers']:
        fp = f.path
        pops = [c for c in f.calls() if c.name() == 'pop_front' and 'link_patches' in vexpr(f, c.args[0])]
        writes = [(bb, lhs) for bb, j, lhs, rv, s in f.assigns() if [x.get('n') for x in place_projs(lhs) if isinstance(x, dict) and 'f' in x][-1:] == ['link']
                  and not f.blocks[bb].get('cleanup')]
        if len(pops) == 1 and writes and all(f.dominates(pops[0].bb, bb) for bb, _ in writes):
            r.ok('%s pops one entry per link and stores it in that link' % fp.split('::')[-1])
        else:
            r.finding('queue-pop-count:%s' % fp.split('::')[-1], f.span, '%s does not pop exactly one entry per link (%d pop site(s), %d link write(s))' % (fp, len(pops), len(writes)))
    r.floor(4)


def r_link_scope(r, prog):
    rl = _roles(prog)['resolver']
    fs = [c for c in rl.calls() if c.name() == 'find_node_with_scope']
    if not fs:
        raise AnchorMissing('find_node_with_scope in resolve_link')
    sc = vexpr(rl, fs[0].args[2])
    idv = vexpr(rl, fs[0].args[1])
    if sc.startswith('parser_scoped_identifier(arg3') and 'arg2' in idv:
        r.ok('links are looked up from the documented element\'s own scoped identifier outwards', sc)
    else:
        r.finding('link-lookup-scope', fs[0].span, 'comment links are looked up with scope %s (expected parser_scoped_identifier() of the documented element) and identifier %s' % (sc[:60], idv[:60]))
    r.floor(1)


COMMENT_FILES = ('slicec/src/parsers/comments/', 'slicec/src/patchers/comment_link_patcher.rs', 'slicec/src/validators/comments.rs', 'slicec/src/validators/operations.rs')


def r_warnings_never_errors(r, prog):
    n = 0
    for f in prog.fns.values():
        if f.crate.tag != 'slicec':
            continue
        fl = f.span.file or ''
        gen = f.generated and '/out/parsers/comments/' in fl
        if not (fl.startswith(COMMENT_FILES) or gen):
            continue
        n += 1
        for a in aggregates(prog, 'slicec::diagnostics::errors::Error', crates=('slicec',)):
            if a['fn'] is f:
                r.finding('error-built-in-comment-code:%s:%s' % (f.path, a['rv']['v']), a['span'], '%s builds Error::%s: comment defects must be lints, never errors' % (f.path, a['rv']['v']))
        for c in f.calls():
            if c.name() == 'new' and path_matches(c.resolved, 'Diagnostic::new') and any('errors::Error' in t for t in c.targs):
                r.finding('error-diagnostic-in-comment-code:%s' % f.path, c.span, '%s creates an error diagnostic' % f.path)
    if n < 20:
        raise AnchorMissing('functions of the comment pipeline (found %d)' % n)
    r.ok('%d functions of the comment parser / link patcher / comment validators build no Error' % n)
    # positive control: the matcher sees Error aggregates elsewhere
    if len(aggregates(prog, 'slicec::diagnostics::errors::Error', crates=('slicec',))) < 20:
        raise AnchorMissing('positive control: Error aggregates')
    r.floor(1)


def r_comment_never_costs_element(r, prog):
    pdc = prog.fn('slicec::parsers::slice::grammar::parse_doc_comment')
    okc = [c for c in pdc.calls() if c.name() == 'ok']
    pc = [c for c in pdc.calls() if c.name() == 'parse_doc_comment']
    if okc and pc and 'parse_doc_comment(' in vexpr(pdc, okc[0].args[0]):
        r.ok('parse_doc_comment maps a failed comment to None (.ok())')
    else:
        r.finding('comment-failure-propagates', pdc.span, 'parse_doc_comment does not map a parse failure to None')
    if pdc.raw.get('output', '').startswith('core::option::Option'):
        r.ok('parse_doc_comment returns Option<DocComment>')
    else:
        r.finding('comment-result-type', pdc.span, 'parse_doc_comment returns %s' % pdc.raw.get('output'))
    n = 0
    for f in prog.fns.values():
        if not re.match(r'^slicec::parsers::slice::grammar::construct_(struct|field|interface|operation|enum|enumerator|custom_type|type_alias)$', f.path):
            continue
        n += 1
        calls = [c for c in f.calls() if c.name() == 'parse_doc_comment']
        el = f.path.rsplit('construct_', 1)[-1]
        news = [c for c in f.calls() if c.name() == 'new' and 'OwnedPtr' in (c.resolved or '')]
        rets = f.return_blocks()
        if calls and news and must_pass(f, 0, rets, [c.bb for c in news]):
            # the comment only flows into the `comment` field
            r.ok('construct_%s builds its element on every path, whatever the comment parser returned' % el)
        else:
            r.finding('element-depends-on-comment:construct_%s' % el, f.span, 'construct_%s does not build its element on every path after parse_doc_comment' % el)
        # no branch on the comment result that skips anything: the result is only moved into the element
        for c in calls:
            dl = c.dest['l']
            sw = [b for b, blk in enumerate(f.blocks) if blk['t']['k'] == 'switch' and op_place(blk['t']['d']) is not None and any(
                d[0] == 'assign' and d[3]['k'] == 'discr' and d[3]['p']['l'] == dl for d in f.defs_of(op_place(blk['t']['d'])['l']))]
            if sw:
                r.finding('element-branches-on-comment:construct_%s' % el, c.span, 'construct_%s branches on the result of parse_doc_comment' % el)
    if n < 8:
        raise AnchorMissing('construct_* functions (found %d)' % n)
    r.floor(10)


SHORTENERS = ('trim', 'trim_end', 'trim_start', 'trim_matches', 'trim_start_matches', 'trim_end_matches', 'truncate', 'pop', 'remove', 'replace', 'replacen', 'replace_range',
              'split_off', 'retain', 'drain', 'clear', 'strip_prefix', 'strip_suffix', 'to_lowercase', 'to_uppercase', 'split_at', 'get')
ALLOWED_SHORTENERS = {
    ('construct_section_message', 'trim_start'): 'leading whitespace of the inline part of a tag message (after the colon)',
    ('sanitize_message_lines::{closure#1}', 'replace_range'): 'removal of the common indentation',
}


def r_text_only_shortened_as_sanctioned(r, prog):
    n = 0
    for f in prog.fns.values():
        fl = f.span.file or ''
        if f.crate.tag != 'slicec' or not (fl.startswith('slicec/src/parsers/comments/grammar.rs') or (f.generated and '/out/parsers/comments/' in fl and re.search(r'__action\d+', f.path))):
            continue
        for c in f.calls():
            if c.name() in SHORTENERS and re.search(r'(str|String)', (c.resolved or '') + str(c.f.get('self') or '')) and 'Vec' not in (c.resolved or ''):
                n += 1
                key = (f.path.split('comments::grammar::')[-1], c.name())
                if key in ALLOWED_SHORTENERS:
                    r.ok('%s calls %s' % key, ALLOWED_SHORTENERS[key])
                else:
                    r.finding('comment-text-altered:%s:%s' % key, c.span, '%s calls %s on comment text: written text would no longer be preserved' % (f.path, c.callee))
    # the replace_range removes from the start only
    f = [g for g in prog.fns.values() if g.path.endswith('comments::grammar::sanitize_message_lines::{closure#1}')]
    if f:
        rr = [c for c in f[0].calls() if c.name() == 'replace_range']
        if rr and 'RangeTo' in vexpr(f[0], rr[0].args[1]) and vexpr(f[0], rr[0].args[2]) == "''":
            r.ok('indentation is removed from the start of the line only and replaced by nothing')
        else:
            r.finding('indentation-removal-shape', f[0].span, 'sanitize_message_lines does not remove a prefix (..n) and replace it with the empty string')
    r.floor(3)


def r_indentation_is_leading_whitespace(r, prog):
    """The indentation of a comment line is its run of leading *whitespace characters* (char::is_whitespace over chars()), the minimum over
    the lines is what is removed: a measure that only knows the ASCII blank (or counts bytes) leaves tab / no-break-space / ideographic-space
    indentation in the text handed to the generators."""
    f = prog.fns.get('slicec::parsers::comments::grammar::sanitize_message_lines')
    if f is None:
        raise AnchorMissing('sanitize_message_lines')
    mins = [c for c in f.calls() if c.name() == 'min' and not f.blocks[c.bb].get('cleanup')]
    if not mins:
        raise AnchorMissing('the minimum over the lines in sanitize_message_lines')
    measure = [vexpr(f, a) for c in mins for a in c.args]
    by_chars = any(re.search(r'(position|count)\((take_while\()?chars\(', m) for m in measure)
    cls = [g for g in prog.fns.values() if g.path.startswith(f.path + '::{closure')]
    ws = [g for g in cls if [c for c in g.calls() if c.name() == 'is_whitespace' and 'char' in (c.resolved or '')] and not [c for c in g.calls() if c.name() != 'is_whitespace']]
    bytes_ = [c for g in [f] + cls for c in g.calls() if c.name() in ('bytes', 'as_bytes', 'is_ascii_whitespace') and not g.blocks[c.bb].get('cleanup')]
    if by_chars and ws and not bytes_:
        r.ok('the indentation of a line is measured as its leading run of char::is_whitespace characters')
    else:
        r.finding('indentation-measure', f.span, 'sanitize_message_lines measures indentation as %s (whitespace test: %s%s): indentation made of other whitespace characters is not recognised and stays in the text' % (
            [m[:90] for m in measure][:2], 'char::is_whitespace' if ws else 'none found', ', byte-wise: %s' % sorted({c.name() for c in bytes_}) if bytes_ else ''))
    r.floor(1)


def r_newlines_preserved(r, prog):
    """every line of a message ends with a newline component: sanitize pushes "\\n" for text lines and for empty lines"""
    fs = [g for g in prog.fns.values() if g.path.endswith('comments::grammar::sanitize_message_lines::{closure#1}')]
    if not fs:
        raise AnchorMissing('line closure of sanitize_message_lines')
    f = fs[0]
    from mirlib import const_str
    nl = 0
    for bb, j, lhs, rv, s in f.assigns():
        if rv['k'] == 'use' and const_str(rv['a']) == '\n':
            nl += 1
    if nl >= 2:
        r.ok('both arms (text line / empty line) end the line with a newline component')
    else:
        r.finding('line-breaks-dropped', f.span, 'sanitize_message_lines does not append a newline for both non-empty and empty lines (%d newline constant(s))' % nl)
    # ... and every line that was written gets there: the vector of lines is mapped as it came in, nothing is popped, cut or filtered first
    top = prog.fns.get(f.path.rsplit('::', 1)[0])
    if top is None:
        raise AnchorMissing('sanitize_message_lines')
    CUT = re.compile(r'^(pop|truncate|retain(_mut)?|drain|remove|swap_remove|split_off|dedup(_by(_key)?)?|filter|filter_map|skip|skip_while|take|take_while|step_by|clear|trim_end_matches|split_last|split_first|rposition)$')
    cuts = [c for c in top.calls() if CUT.match(c.name()) and not top.blocks[c.bb].get('cleanup')]
    mapped = [c for c in top.calls() if c.name() in ('map', 'flat_map') and closure_of_arg(prog, top, c.args[1]) is f]
    if cuts or not mapped or not re.match(r'^into_iter\(arg1\)$', vexpr(top, mapped[0].args[0])):
        r.finding('written-lines-dropped', top.span, 'sanitize_message_lines %s before turning the lines into the message: written lines (blank lines between or after paragraphs are lines) are lost' % (
            ('calls %s' % sorted({c.name() for c in cuts})) if cuts else 'does not map the lines it was given (%s)' % [vexpr(top, c.args[0])[:60] for c in mapped]))
    else:
        r.ok('every line handed to sanitize_message_lines is mapped to its text and a line break (nothing popped, cut or filtered)')
    r.floor(2)


def r_return_shapes(r, prog):
    # the dispatcher is the function of validators::operations that looks at the operation's return members and hands the @returns tags to
    # other functions of the module (found by that role; the names of these private functions are free to change)
    MOD = 'slicec::validators::operations::'
    def same_module_callees(g):
        return sorted({c.resolved for c in g.calls() if (c.resolved or '').startswith(MOD) and '{closure' not in c.resolved and c.resolved != g.path
                       and not g.blocks[c.bb].get('cleanup')})
    cands = [g for g in prog.fns.values() if g.path.startswith(MOD) and '{closure' not in g.path
             and any(c.name() == 'return_members' for c in g.calls()) and len(same_module_callees(g)) >= 1
             and not any(c.name() == 'parameters' for c in g.calls())]
    if len(cands) != 1:
        raise AnchorMissing('the function of validators::operations that dispatches @returns tags on the return members (found %d)' % len(cands))
    f = cands[0]
    cs = same_module_callees(f)
    # dispatch on the number of return members
    sw = [blk['t'] for blk in f.blocks if blk['t']['k'] == 'switch' and blk['t']['ty'] == 'usize']
    vals = {int(v) for t in sw for v, _ in t['ts']}
    for bb, j, lhs, rv, s in f.assigns():
        if rv['k'] == 'bin' and rv['op'] == 'Eq':
            ex = vexpr(f, {'cp': lhs})
            m = re.match(r'^Eq\((\d+),(PtrMetadata|len)\(.*return_members', ex)
            if m:
                vals.add(int(m.group(1)))
    vals = sorted(vals)
    if len(cs) == 3 and vals[:2] == [0, 1]:
        r.ok('no / single / tuple return lists are validated by three distinct checks', ', '.join(x.rsplit('::', 1)[-1] for x in cs))
    else:
        r.finding('return-shapes-merged', f.span, 'validate_returns_tags dispatches lengths %s to %d distinct check(s): the no-return, single-return and tuple cases need their own checks' % (vals, len(cs)))
    r.floor(1)


def r_tag_blocks_extend_span(r, prog):
    n = 0
    for f in prog.fns.values():
        if not (f.generated and '/out/parsers/comments/' in (f.span.file or '') and re.search(r'__action\d+$', f.path)):
            continue
        pushes = [c for c in f.calls() if c.name() == 'push' and re.search(r'\.(params|returns|see)$', vexpr(f, c.args[0]))]
        if not pushes:
            continue
        n += 1
        fld = re.search(r'\.(params|returns|see)$', vexpr(f, pushes[0].args[0])).group(1)
        ws = [(lhs, rv) for bb, j, lhs, rv, s in f.assigns() if [x.get('n') for x in place_projs(lhs) if isinstance(x, dict) and 'f' in x][-2:] == ['span', 'end']]
        if ws and vexpr(f, ws[0][1]['a']).endswith('.span.end'):
            r.ok('%s block: appended to comment.%s and comment.span.end := block.span.end' % (fld, fld))
        else:
            r.finding('tag-block-span:%s' % fld, f.span, 'appending a %s tag does not extend the comment\'s span to the end of the tag' % fld)
    if n != 3:
        raise AnchorMissing('three tag-appending actions in the comment grammar (found %d)' % n)
    r.floor(3)



def r_lexer_preconditions(r, prog):
    guards.evaluate(r, prog, rule_scopes.guards_comment_lexer, 'guards_comment_lexer.json', 35)


def r_parser_entry(r, prog):
    guards.evaluate(r, prog, rule_scopes.guards_parser_entry, 'guards_parser_entry.json', 10)

def r_comment_rule_preconditions(r, prog):
    """the share of the validators' precondition ledger that concerns doc comments: when a tag that does not fit its element is reported"""
    guards.evaluate(r, prog, rule_scopes.guards_validators, 'guards_validators.json', 5,
                    only=lambda p: p.startswith('slicec::validators::comments::') or p.startswith('slicec::validators::operations::'))


def r_comment_text_by_byte_positions(r, prog):
    """The comment lexer cuts identifiers and message text out of the current line with byte offsets: a position that starts at 0 on every line
    and grows by the UTF-8 length of each character consumed. Columns count characters; a slice taken with a column difference is shifted (or
    lands inside a character and panics) as soon as the line holds a non-ASCII character."""
    CLX = "slicec::parsers::comments::lexer::Lexer::<'input>::"
    n = 0
    for k, f in sorted(prog.fns.items()):
        if not k.startswith(CLX) or '{closure' in k and False:
            continue
        for c in f.calls():
            if c.name() == 'index' and not f.blocks[c.bb].get('cleanup') and vexpr(f, c.args[0]) == 'arg1.current_line':
                n += 1
                rng = vexpr(f, c.args[1])
                if re.match(r'^(Range::Range\{start:arg1\.position,end:arg1\.position\}|RangeFrom::RangeFrom\{start:arg1\.position\}|RangeTo::RangeTo\{end:arg1\.position\})$', rng):
                    r.ok('%s slices the current line between byte positions' % f.name)
                else:
                    r.finding('comment-text-slice:%s' % f.name, c.span, '%s slices the current line with %s: the bounds must be the byte position kept by the lexer' % (f.name, rng[:120]))
    writes = []
    for k, f in sorted(prog.fns.items()):
        if not k.startswith(CLX):
            continue
        for bb, j, lhs, rv, st in f.assigns():
            names = [x.get('n') for x in lhs.get('p', []) if isinstance(x, dict) and 'f' in x]
            if names == ['position'] and lhs['l'] == 1 and not f.blocks[bb].get('cleanup') and f.name != 'new':
                from helpers import _vexpr_def
                writes.append((f, _vexpr_def(f, ('assign', bb, j, rv), 14, set())))
    good = [w for w in writes if w[1] == '0' or re.match(r'^Add\(arg1\.position,len_utf8\(next\(arg1\.buffer\) as Some\.0\)\)$', w[1])]
    if writes and len(good) == len(writes) and any(w[1] != '0' for w in writes):
        r.ok('the byte position is reset to 0 per line and advanced by len_utf8() of each consumed character (%d writes)' % len(writes))
    else:
        r.finding('comment-byte-position', writes[0][0].span if writes else '-', 'the comment lexer\'s byte position is written as %s' % [w[1][:60] for w in writes])
    if n < 2:
        raise AnchorMissing('slices of the current line in the comment lexer (found %d)' % n)
    r.floor(3)


def r_comment_parser_builds_no_error(r, prog):
    """Nothing the comment parser reaches builds an Error: whatever is wrong with a doc comment (lexer errors and grammar-level parse failures
    alike) becomes a lint. An Error here also makes the comment parser refuse every later comment of the file."""
    entry = "slicec::parsers::comments::parser::CommentParser::<'a>::parse_doc_comment"
    if entry not in prog.fns:
        raise AnchorMissing(entry)
    reach = prog.reachable_fns([entry])
    ERR = 'slicec::diagnostics::errors::Error'
    bad = [a for a in aggregates(prog, ERR, crates=('slicec',)) if a['fn'].path in reach and not a['fn'].blocks[a['bb']].get('cleanup')
           and not a['fn'].generated and (a['fn'].span.file or '').startswith('slicec/src/parsers/')]
    if bad:
        a = bad[0]
        r.finding('comment-parser-builds-error:%s:%s' % (a['fn'].name, a['rv']['v']), a['span'], '%s, reachable from the comment parser, builds Error::%s' % (a['fn'].path, a['rv']['v']))
    else:
        r.ok('no function of the parsers reachable from CommentParser::parse_doc_comment builds an Error (%d functions)' % len(reach))
    r.floor(1)


def r_link_target_from_lookup(r, prog):
    """The target recorded for a link is the outcome of the scoped lookup made for this very link, on every path: nothing else (a memo of earlier
    answers keyed by something coarser than the element and the identifier) can supply it."""
    rl = _roles(prog)['resolver']
    look = [c for c in rl.calls() if c.name() == 'find_node_with_scope' and not rl.blocks[c.bb].get('cleanup')]
    push = [c for c in rl.calls() if c.name() == 'push_back' and 'link_patches' in vexpr(rl, c.args[0]) and not rl.blocks[c.bb].get('cleanup')]
    other_tables = [c.name() for c in rl.calls() if c.name() in ('get', 'entry', 'contains_key', 'get_or_insert_with') and not rl.blocks[c.bb].get('cleanup')
                    and 'arg1.' in vexpr(rl, c.args[0]) and 'link_patches' not in vexpr(rl, c.args[0])]
    if len(look) == 1 and push and all(must_pass(rl, 0, [p.bb], [look[0].bb]) for p in push) and not other_tables:
        r.ok('every queued link target comes from the lookup made for that link (no other table is consulted)')
    else:
        r.finding('link-target-not-from-lookup', rl.span, '%s queues a target without having made the scoped lookup for it on that path, or consults a table of earlier answers (%s)' % (rl.name, sorted(set(other_tables))))
    r.floor(1)


def run(ctx):
    prog = ctx.prog
    ctx.run_rule('C16.1a', 'T6', 'link patcher: compute and apply loops cover the same node kinds = impls of Commentable', r_node_variants_agree, prog)
    ctx.run_rule('C16.1b', 'T6', 'compute and apply visit overview, params, returns, see in the same order', r_traversal_order_agrees, prog)
    ctx.run_rule('C16.1c', 'T3', 'one queue entry pushed per computed link, one popped per applied link', r_one_entry_per_link, prog)
    ctx.run_rule('C16.5d', 'T10', 'comment text is cut out of a line by byte positions (reset per line, advanced by len_utf8)', r_comment_text_by_byte_positions, prog)
    ctx.run_rule('C16.3b', 'T1', 'nothing reachable from the comment parser builds an Error', r_comment_parser_builds_no_error, prog)
    ctx.run_rule('C16.2b', 'T2', 'a link\'s target comes from the scoped lookup made for it', r_link_target_from_lookup, prog)
    ctx.run_rule('C16.12', 'T13', 'conditions under which a doc-comment tag that does not fit its element is reported (share of the validators\' precondition ledger)', r_comment_rule_preconditions, prog)
    ctx.run_rule('C16.2', 'T10', 'links resolve from the documented element outwards', r_link_scope, prog)
    ctx.run_rule('C16.3', 'T1', 'comment defects are lints: no Error is built in the comment pipeline', r_warnings_never_errors, prog)
    ctx.run_rule('C16.4', 'T3', 'a bad comment never costs the element', r_comment_never_costs_element, prog)
    ctx.run_rule('C16.5a', 'T1', 'comment text is shortened only by the two sanctioned operations', r_text_only_shortened_as_sanctioned, prog)
    ctx.run_rule('C16.5e', 'T3', 'layout: the lexer skips exactly the characters char::is_whitespace accepts', layout.r_whitespace_class, prog, ('comments',))
    ctx.run_rule('C16.5f', 'T3', 'indentation = leading whitespace characters (char::is_whitespace over chars())', r_indentation_is_leading_whitespace, prog)
    ctx.run_rule('C16.5b', 'T3', 'line breaks are preserved', r_newlines_preserved, prog)
    ctx.run_rule('C16.5c', 'T4', 'tag blocks extend the comment span', r_tag_blocks_extend_span, prog)
    ctx.run_rule('C16.6', 'T5', 'return-list shapes have distinct tag checks', r_return_shapes, prog)
    ctx.run_rule('C16.8', 'T13', 'conditions under which the doc comment lexer consumes, returns and switches modes (precondition ledger)', r_lexer_preconditions, prog)
    ctx.run_rule('C16.9', 'T13', 'conditions under which a parsed comment / file is handed back or dropped (precondition ledger of the parser entry points)', r_parser_entry, prog)
    ctx.run_rule('C16.10', 'T2', 'a parsed comment is handed back exactly when parsing succeeded without errors (warnings do not count)', decisions.r_parser_entries, prog, ('comments',))
    ctx.run_rule('C16.11', 'T2', 'block-tag mode is chosen by the leading "@" alone', decisions.r_block_tag_mode, prog)
