"""C10 - Slice encoding round-trips and matches the wire format (table clauses only)."""
import re

import guards
import rule_scopes

from mirlib import AnchorMissing
from helpers import vexpr, aggregates
import codec

EXPLANATION = (
    'C10 is a value-level property (decode(encode(x)) = x, exact bytes); static analysis decides only its table-shaped necessary conditions '
    'on the MIR of slice-codec: (1) fixed-width siblings: every numeric type has an encoder writing exactly its to_le_bytes() and a decoder '
    'reading exactly size_of bytes through from_le_bytes (resolved callees); bool/u8/i8 write and read one byte; (2) varint tables: the four '
    'encoding arms are (bits <= 8*w-2, cast to the w-byte type, length code log2(w), value << 2) with contiguous ranges and a refusing arm '
    'above 62 bits; the decoders dispatch on (peek_byte & 3) with code k reading the (1<<k)-byte type of matching signedness and shift right '
    'by 2; the signed encoder counts the redundant sign bits of negative values (leading_ones or complement); the 62/32-bit range constants '
    'have the right values; (3) size prefix symmetry: collections and strings write encode_size(len) then the elements, and read the size '
    'then exactly that many elements; collection decoders have no error exits of their own besides the propagated ones. It does not decide '
    'round-trip equality, exact bytes or shortest-width choice for concrete values.')
ASSUMPTIONS = ['rustc type checking and MIR construction', 'to_le_bytes/from_le_bytes/leading_zeros/leading_ones of core behave as documented']
THOROUGH_CONFIGS = ['codec-nostd', 'codec-alloc', 'release']


def r_signed_bit_count(r, prog):
    f = prog.fn('slice_codec::encoding::<impl slice_codec::encoder::Encoder<O>>::encode_varint')
    lz = [c for c in f.calls() if re.search(r'::leading_zeros$', c.callee or '')]
    lo = [c for c in f.calls() if re.search(r'::leading_ones$', c.callee or '')]
    nots = [rv for bb, j, lhs, rv, s in f.assigns() if rv['k'] == 'un' and rv['op'] == 'Not' and rv['a'] and 'i64' in str(f.local_ty(rv['a'].get('cp', rv['a'].get('mv', {'l': 0}))['l']))]
    src = lambda c: vexpr(f, c.args[0])
    if lz and (lo or nots) and all('into(arg2)' in src(c) or 'arg2' in src(c) for c in lz + lo):
        r.ok('encode_varint counts leading zeros of non-negative and leading ones (or the complement) of negative values')
    else:
        r.finding('signed-width-ignores-sign-bits', f.span,
                  'encode_varint does not count the redundant sign bits of negative values with leading_ones (or leading_zeros of the complement): '
                  'negative values at a width boundary get the wrong width or are refused')
    g = prog.fn('slice_codec::encoding::<impl slice_codec::encoder::Encoder<O>>::encode_varuint')
    lz = [c for c in g.calls() if re.search(r'::leading_zeros$', c.callee or '')]
    if lz and 'arg2' in vexpr(g, lz[0].args[0]):
        r.ok('encode_varuint counts leading zeros of the value')
    else:
        r.finding('unsigned-width-computation', g.span, 'encode_varuint does not derive the width from leading_zeros(value)')
    r.floor(2)


def r_collection_decoders_only_propagate(r, prog):
    """Vec / map decoders accept every well-formed input: their only error exits are propagated ones (size, reservation, elements)
    plus the duplicate-key error of maps."""
    fns = [f for f in prog.fns.values() if f.crate.tag == 'slice_codec' and re.search(
        r'DecodeFrom for (alloc::vec::Vec<T>|std::collections::hash::map::HashMap<K, V>|alloc::collections::btree::map::BTreeMap<K, V>)>::decode_from$', f.path)]
    if len(fns) < 3:
        raise AnchorMissing('Vec/HashMap/BTreeMap decoders (found %d)' % len(fns))
    for f in fns:
        own = [a for a in aggregates(prog, 'slice_codec::error::ErrorKind') + aggregates(prog, 'slice_codec::error::InvalidDataErrorKind') if a['fn'] is f]
        errs = [a for a in aggregates(prog, 'core::result::Result', 'Err') if a['fn'] is f]
        allowed = 1 if 'Map' in f.path else 0
        bad = [a for a in own if not ('Map' in f.path and a['rv']['v'] == 'IllegalValue')]
        if bad or len(errs) > allowed:
            a = (bad or errs)[0]
            r.finding('collection-decoder-rejects-on-its-own:%s' % f.path, a['span'],
                      '%s has an error exit of its own (%s): a well-formed sequence whose elements are shorter on the wire than in memory, or any other '
                      'input the extra test misjudges, is refused' % (f.path, a['rv'].get('v')))
        else:
            r.ok('%s: only propagated errors%s' % (f.path, ' + duplicate key' if allowed else ''))
    r.floor(3)



def r_encoder_preconditions(r, prog):
    guards.evaluate(r, prog, rule_scopes.guards_codec_encode, 'guards_codec_encode.json', 90)

def run(ctx):
    prog = ctx.prog
    ctx.run_rule('C10.4', 'T13', 'conditions under which the encoders write, refuse and return (precondition ledger)', r_encoder_preconditions, prog)
    ctx.run_rule('C10.1', 'T6', 'fixed-width siblings: to_le_bytes / from_le_bytes of the same type and width', codec.r_fixed_width_siblings, prog)
    ctx.run_rule('C10.2a', 'T6', 'varint encoder width table (bits, type, length code, shift) and refusing arm', codec.r_varint_encoder, prog)
    ctx.run_rule('C10.2b', 'T6', 'varint decoder table: code k reads the (1<<k)-byte type of matching signedness, >> 2', codec.r_varint_decoder, prog)
    ctx.run_rule('C10.2c', 'T5', 'width computation counts sign bits', r_signed_bit_count, prog)
    ctx.run_rule('C10.2d', 'T6', 'range constants', codec.r_range_constants, prog)
    ctx.run_rule('C10.3a', 'T4', 'size prefix symmetry of strings and collections', codec.r_size_prefix, prog)
    ctx.run_rule('C10.1b', 'T1', 'a decoded string is the encoded string (nothing trimmed, stripped or replaced)', codec.r_string_decoded_verbatim, prog)
    ctx.run_rule('C10.5', 'T7', 'the codec refuses a value on its own only in the recorded places (everything else is an error of the buffer underneath, passed on)', codec.r_own_error_sites, prog)
    ctx.run_rule('C10.3c', 'T10', 'a collection decoder reads exactly the announced number of elements (a truncated sequence fails, it is not shortened)', codec.r_element_count_is_announced, prog)
    ctx.run_rule('C10.3b', 'T1', 'collection decoders have only propagated error exits', r_collection_decoders_only_propagate, prog)
    for name, p in sorted(ctx.configs.items()):
        ctx.run_rule('C10.1@' + name, 'T6', 'fixed-width siblings [%s]' % name, codec.r_fixed_width_siblings, p)
        ctx.run_rule('C10.2a@' + name, 'T6', 'varint encoder table [%s]' % name, codec.r_varint_encoder, p)
        ctx.run_rule('C10.2b@' + name, 'T6', 'varint decoder table [%s]' % name, codec.r_varint_decoder, p)
