"""C06 - conditional compilation selects exactly the right lines, in place (structural clauses)."""
import re
import decisions

from mirlib import AnchorMissing, path_matches, op_place
from helpers import (aggregates, arm, branches_on_call, enum_switches, field_accesses, loop_of, must_pass, vexpr)
import genparser
import guards
import layout
import perfile
import rule_scopes
from props import c01

EXPLANATION = (
    'C06\'s outcome for particular files (which lines are selected) is value-level and not decided as such; the evaluator\'s decision structure '
    'is. Decided on the MIR of slicec and on the generated preprocessor parser: (1) symbols are per file: the command-line set is held by '
    'shared reference and cloned for every file, which owns its copy; (2) evaluation semantics (precondition ledger of preprocessor/grammar.rs): '
    '#define inserts and #undef removes exactly on their own node kind, in list order; a conditional yields the if-block on the true edge of '
    'its condition, else the first elif whose condition is true, else the else-block; Not/And/Or/parentheses evaluate as !, short-circuit &&, '
    'short-circuit ||; defined_symbols is written nowhere else; (3) token tables agree along the chain keyword text -> TokenKind -> grammar '
    'terminal -> production -> AST node: "define"/DefineKeyword/define_keyword/DefineDirective/Node::DefineDirective etc., "!"/"&&"/"||" -> '
    'Expression::Not/And/Or; (4) positions survive removal: when the Slice lexer moves to the next source block it resets the buffer from that '
    'block and its whole cursor (row and column) to the block\'s recorded start; the preprocessor captures a block\'s start location and '
    'position together at its first character and builds the block from them; (5) malformed directives are reported: parse errors and '
    'recovered errors are pushed on every path; in directive mode input is only consumed by tokenising - the rest of a line is skipped only '
    'after "//"; unknown or missing directive names yield error tokens.')
THOROUGH_RERUN = ['release']     # the same rules over the release build (no debug assertions): verified clean on the pinned tree
ASSUMPTIONS = ['rustc type checking and MIR construction', 'LALRPOP generated parser and its production comments', 'the reviewed ledger ledgers/guards_preprocessor.json states the intended evaluation semantics']
PL = "slicec::parsers::preprocessor::lexer::Lexer::<'input>::"
GM = 'slicec::parsers::preprocessor::grammar::lalrpop'


def r_evaluation_semantics(r, prog):
    guards.evaluate(r, prog, rule_scopes.guards_preprocessor, 'guards_preprocessor.json', 20)


def r_symbols_single_writer(r, prog):
    P = 'slicec::parsers::preprocessor::parser::Preprocessor'
    n = 0
    for f in prog.fns.values():
        if f.crate.tag not in ('slicec', 'slicec_bin'):
            continue
        inscope = f.path.startswith('slicec::parsers::') or f.path.count('::') <= 1 or f.crate.tag == 'slicec_bin'
        for c in f.calls():
            if c.name() not in ('insert', 'remove', 'clear', 'retain', 'extend', 'drain', 'take', 'replace', 'extract_if', 'get_or_insert', 'get_or_insert_with') or not c.args or 'HashSet' not in (c.callee or ''):
                continue
            if 'defined_symbols' in vexpr(f, c.args[0]) or inscope:
                n += 1
                if f.path == 'slicec::parsers::preprocessor::grammar::process_nodes':
                    r.ok('defined_symbols.%s in process_nodes' % c.name())
                else:
                    r.finding('symbols-written-in:%s' % f.path, c.span, '%s modifies defined_symbols (%s): a definition would take effect outside the in-order evaluation of selected regions' % (f.path, c.name()))
    for a in field_accesses(prog, P, 'defined_symbols', crates=('slicec',)):
        f = a['fn']
        if a['kind'] == 'refmut' and f.path not in ('slicec::parsers::preprocessor::grammar::process_nodes', P + "::<'a>::new") and not f.path.startswith(P):
            r.finding('symbols-borrowed-mutably-in:%s' % f.path, a['span'], '%s takes a mutable borrow of defined_symbols' % f.path)
    if n < 2:
        raise AnchorMissing('insert/remove on defined_symbols (found %d)' % n)
    r.floor(2)


WORDS = {'define': ('DefineKeyword', 'define_keyword'), 'undef': ('UndefineKeyword', 'undefine_keyword'), 'if': ('IfKeyword', 'if_keyword'),
         'elif': ('ElifKeyword', 'elif_keyword'), 'else': ('ElseKeyword', 'else_keyword'), 'endif': ('EndifKeyword', 'endif_keyword')}


def r_token_tables(r, prog, facts_dir):
    g = genparser.Gen(facts_dir, 'preprocessor')
    # (a) keyword text -> TokenKind, from the lexer (guard sets of the TokenKind aggregates)
    lx = prog.fn(PL + 'lex_next_preprocessor_token')
    TK = 'slicec::parsers::preprocessor::tokens::TokenKind'
    text2tok = {}
    tk_aggs = aggregates(prog, TK, crates=('slicec',))
    # the token table is read off the lexing function and the private lexer methods parts of it may have been moved into
    fam = guards.family_sites(prog, lx, PL, lambda g: [a['bb'] for a in tk_aggs if a['fn'] is g and not g.blocks[a['bb']].get('cleanup')])
    tok_at = {(a['fn'].path, a['bb']): a['rv']['v'] for a in tk_aggs}
    for g_, bb_, gs in fam:
        for cond in gs:
            m = re.match(r"^eq\(read_identifier\(arg1\),'(\w*)'\)$", cond)
            if m:
                text2tok[m.group(1)] = tok_at[(g_.path, bb_)]
    for w, (tok, term) in WORDS.items():
        if text2tok.get(w) == tok:
            r.ok('"#%s" lexes as TokenKind::%s' % (w, tok))
        else:
            r.finding('directive-keyword-token:%s' % w, lx.span, 'the directive name "%s" is lexed as %s, expected TokenKind::%s' % (w, text2tok.get(w), tok))
        if g.terminal_of_token(tok) == term:
            r.ok('TokenKind::%s is the grammar terminal %s' % (tok, term))
        else:
            r.finding('token-terminal:%s' % tok, '-', 'TokenKind::%s is mapped to the terminal %s, expected %s' % (tok, g.terminal_of_token(tok), term))
    # operator characters -> TokenKind (single characters by the dispatching switch; && and || also by the peeked second character)
    chars = {'LeftParenthesis': (40, None), 'RightParenthesis': (41, None), 'Not': (33, None), 'And': (38, 38), 'Or': (124, 124)}
    seen = {}
    for g_, bb_, gs in fam:
        if tok_at[(g_.path, bb_)] in chars:
            seen.setdefault(tok_at[(g_.path, bb_)], []).append(gs)
    for tok, (c1, c2) in chars.items():
        gss = seen.get(tok, [])
        good = len(gss) == 1 and ('arg2 == %d' % c1) in gss[0] and (c2 is None or any(re.search(r'peek\(arg1\.buffer\).*== %d$' % c2, x) for x in gss[0]))
        if good:
            r.ok('%s lexes as TokenKind::%s' % (repr(chr(c1) * (2 if c2 else 1)), tok))
        else:
            r.finding('operator-token:%s' % tok, lx.span, 'TokenKind::%s is produced under %s, expected for %s' % (tok, gss, repr(chr(c1) * (2 if c2 else 1))))
    ops = {'Not': '"!"', 'And': '"&&"', 'Or': '"||"', 'LeftParenthesis': '"("', 'RightParenthesis': '")"', 'DirectiveEnd': 'directive_end', 'Identifier': 'identifier', 'SourceBlock': 'source_block'}
    for tok, term in ops.items():
        if g.terminal_of_token(tok) == term:
            r.ok('TokenKind::%s is the grammar terminal %s' % (tok, term))
        else:
            r.finding('token-terminal:%s' % tok, '-', 'TokenKind::%s is mapped to the terminal %s, expected %s' % (tok, g.terminal_of_token(tok), term))
    # (b) production -> AST node built by its action
    def built(k, adt):
        f = genparser.action_fn(prog, GM, k)
        return sorted({a['rv']['v'] for a in aggregates(prog, adt, crates=('slicec',)) if a['fn'] is f})
    EX = 'slicec::parsers::preprocessor::grammar::Expression'
    TM = 'slicec::parsers::preprocessor::grammar::Term'
    ND = 'slicec::parsers::preprocessor::grammar::Node'
    table = [('Expression', ['Term'], EX, 'Term'), ('Expression', ['"!"', 'Term'], EX, 'Not'), ('Expression', ['Expression', '"&&"', 'Term'], EX, 'And'),
             ('Expression', ['Expression', '"||"', 'Term'], EX, 'Or'), ('Term', ['identifier'], TM, 'Symbol'), ('Term', ['"("', 'Expression', '")"'], TM, 'Expression'),
             ('Node', ['source_block'], ND, 'SourceBlock'), ('Node', ['DefineDirective'], ND, 'DefineDirective'), ('Node', ['UndefineDirective'], ND, 'UndefineDirective'),
             ('Node', ['Conditional'], ND, 'Conditional')]
    for nt, syms, adt, want in table:
        ps = [p for p in g.prods_of(nt) if p['syms'] == syms]
        if len(ps) != 1:
            r.finding('production-missing:%s=%s' % (nt, ' '.join(syms)), '-', 'the preprocessor grammar has %d production(s) %s = %s' % (len(ps), nt, ', '.join(syms)))
            continue
        got = built(ps[0]['action'], adt)
        if got == [want]:
            r.ok('%s = %s builds %s::%s' % (nt, ' '.join(syms), adt.rsplit('::', 1)[-1], want))
        else:
            r.finding('production-builds:%s=%s' % (nt, ' '.join(syms)), '-', 'the production %s = %s builds %s, expected %s::%s' % (nt, ', '.join(syms), got, adt.rsplit('::', 1)[-1], want))
    for nt, kw in (('DefineDirective', 'define_keyword'), ('UndefineDirective', 'undefine_keyword'), ('IfDirective', 'if_keyword'), ('ElifDirective', 'elif_keyword'),
                   ('ElseDirective', 'else_keyword'), ('EndifDirective', 'endif_keyword')):
        ps = g.prods_of(nt)
        if len(ps) == 1 and ps[0]['syms'][0] == kw and ps[0]['syms'][-1] == 'directive_end':
            r.ok('%s = %s ... directive_end' % (nt, kw))
        else:
            r.finding('directive-production:%s' % nt, '-', '%s is %s' % (nt, [p['syms'] for p in ps]))
    # error recovery production reports
    ps = [p for p in g.prods_of('Node') if p['syms'] and p['syms'][0] == 'error']
    if ps and [c for c in genparser.action_fn(prog, GM, ps[0]['action']).calls() if c.name() == 'recover_from_error']:
        r.ok('Node = error directive_end calls recover_from_error')
    else:
        r.finding('recovery-production', '-', 'the error-recovery production does not call recover_from_error')
    # conditional sections keep their order: if_section, elif_sections, else_section fields are filled from the symbols in order
    cds = [a for a in aggregates(prog, 'slicec::parsers::preprocessor::grammar::Conditional', crates=('slicec',)) if a['fn'].path.startswith(GM + '::__action')]
    if len(cds) != 1:
        raise AnchorMissing('the grammar action building Conditional (found %d)' % len(cds))
    cf = cds[0]['fn']
    got = dict(zip(cds[0]['rv']['fn'], [vexpr(cf, o) for o in cds[0]['rv']['ops']]))
    order = [got.get(k) for k in ('if_section', 'elif_sections', 'else_section')]
    nums = [int(m.group(1)) if m else None for m in (re.match(r'^arg(\d+)\.1$', x or '') for x in order)]
    if None not in nums and nums == sorted(nums) and len(set(nums)) == 3:
        r.ok('Conditional { if_section, elif_sections, else_section } are the 1st, 2nd and 3rd section symbols of the production')
    else:
        r.finding('conditional-sections', cds[0]['span'], 'the Conditional node is built from %s: sections are dropped or out of order' % got)
    if any(p['syms'][:2] == ['IfDirective', 'BlockContent'] and p['syms'][-1] == 'EndifDirective' for p in g.prods_of('Conditional')) and len(g.prods_of('Conditional')) == 4:
        r.ok('Conditional = IfDirective BlockContent (ElifDirective BlockContent)* (ElseDirective BlockContent)? EndifDirective (4 inlined forms)')
    else:
        r.finding('conditional-production', '-', 'Conditional productions: %s' % [p['syms'] for p in g.prods_of('Conditional')])
    r.floor(37)


def r_positions_survive(r, prog):
    f = prog.fn("<slicec::parsers::slice::lexer::Lexer<'input, T> as core::iter::traits::iterator::Iterator>::next")
    ws = {}
    for bb, j, lhs, rv, s in f.assigns():
        if lhs['l'] == 1 and not f.blocks[bb].get('cleanup'):
            names = [x.get('n') for x in lhs.get('p', []) if isinstance(x, dict) and 'f' in x]
            if names:
                ws.setdefault('.'.join(names), []).append((bb, vexpr(f, rv['a']) if rv['k'] == 'use' else '?'))
    cb = ws.get('current_block', [])
    if cb and 'next(arg1.source_blocks)' in cb[0][1]:
        r.ok('the next source block becomes current_block')
    else:
        r.finding('block-switch', f.span, 'current_block is assigned %s' % cb)
    buf = ws.get('buffer', [])
    if buf and buf[0][1] == 'peekable(char_indices(arg1.current_block.content))':
        r.ok('the character buffer is reset from the new block\'s content')
    else:
        r.finding('buffer-not-reset', f.span, 'after a block switch the buffer is %s' % buf)
    cur = ws.get('cursor', [])
    partial = [k for k in ws if k.startswith('cursor.')]
    whole = bool(cur) and cur[0][1] == 'arg1.current_block.start' and not partial
    fieldwise = (not cur and sorted(partial) == ['cursor.col', 'cursor.row'] and all(len(ws[k]) == 1 for k in partial)
                 and ws['cursor.row'][0][1] == 'arg1.current_block.start.row' and ws['cursor.col'][0][1] == 'arg1.current_block.start.col')
    last = cur[0][0] if whole else (ws['cursor.row'][0][0] if fieldwise else None)
    if (whole or fieldwise) and cb and f.dominates(cb[0][0], last):
        r.ok('the whole cursor (row and column) is reset to the new block\'s recorded start')
    else:
        r.finding('cursor-not-reset-to-block-start', f.span,
                  'after a block switch the cursor is not set to current_block.start as a whole (cursor: %s; partial writes: %s): tokens of a block that follows a directive would be reported at shifted positions' % (cur, partial))
    # preprocessor: block token built from the captured start
    n = prog.fn("<slicec::parsers::preprocessor::lexer::Lexer<'input> as core::iter::traits::iterator::Iterator>::next")
    cs = [c for c in n.calls() if c.name() == 'create_source_block_token']
    okc = 0
    for c in cs:
        a = [vexpr(n, x) for x in c.args]
        if 'arg1.cursor' in a[1] and 'arg1.position' in a[2] and ('arg1.position' in a[3] or 'len(arg1.input)' in a[3]):
            okc += 1
    if cs and okc == len(cs):
        r.ok('source blocks are built from the location and position captured at their first character (%d site(s))' % okc)
    else:
        r.finding('block-start-capture', n.span, 'create_source_block_token is not given the captured (cursor, position) pair of the block start: %s' % [[vexpr(n, x)[:40] for x in c.args] for c in cs])
    # captured together: both Some(..) assignments sit in the same block
    caps = {}
    for bb, j, lhs, rv, s in n.assigns():
        nm = n.local_name(lhs['l'])
        if nm in ('start_location', 'start_position') and not lhs.get('p') and rv['k'] in ('agg', 'use') and 'Some' in vexpr(n, rv.get('a')) + str(rv.get('v')):
            caps.setdefault(nm, set()).add(bb)
    if caps.get('start_location') and caps.get('start_location') == caps.get('start_position'):
        r.ok('start location and start position are captured together')
    else:
        r.finding('block-start-captured-apart', n.span, 'start_location and start_position are not captured in the same place (%s)' % caps)
    t = prog.fn(PL + 'create_source_block_token')
    sb = [a for a in aggregates(prog, 'slicec::parsers::common::SourceBlock') if a['fn'] is t]
    if sb:
        ops = dict(zip(sb[0]['rv']['fn'], sb[0]['rv']['ops']))
        c, s_, e = vexpr(t, ops['content']), vexpr(t, ops['start']), vexpr(t, ops['end'])
        if 'index(arg1.input,Range::Range{start:arg3,end:arg4})' in c and s_ == 'arg2' and e == 'arg1.cursor':
            r.ok('SourceBlock { content: input[start..end], start: captured location, end: cursor }')
        else:
            r.finding('source-block-fields', t.span, 'SourceBlock is built from content=%s start=%s end=%s' % (c[:50], s_, e))
    r.floor(6)


def r_directive_mode_consumption(r, prog):
    """In directive mode characters are consumed only by tokenising; the rest of a line is skipped only after '//'."""
    allowed = {PL + 'lex_next_preprocessor_token': 'after "//" (comment)', "<slicec::parsers::preprocessor::lexer::Lexer<'input> as core::iter::traits::iterator::Iterator>::next": 'a source line (not directive mode)'}
    n = 0
    for c in prog.callers_of(PL + 'advance_to_end_of_line'):
        n += 1
        f = c.fn
        if f.path not in allowed:
            r.finding('line-skipped-in:%s' % f.path, c.span, '%s skips to the end of the line: text after a directive would never be tokenised, so junk or a mistyped directive is silently ignored' % f.path)
            continue
        if f.path == PL + 'lex_next_preprocessor_token':
            gs = guards.guard_set(prog, f, c.bb)
            if any(re.search(r"peek\(arg1\.buffer\).* == 47|== 47", g) for g in gs) and any('arg2 == 47' in g or '== 47' in g for g in gs):
                r.ok('directive mode skips the rest of a line only after "//"', '; '.join(gs)[:120])
            else:
                r.finding('line-skipped-outside-comment', c.span, 'lex_next_preprocessor_token skips the rest of the line under %s, not only after "//"' % gs)
        else:
            gs = guards.guard_set(prog, f, c.bb)
            if any('PreprocessorDirective' in g and g.startswith('!') for g in gs) or any("!(eq(arg1.mode" in g for g in gs):
                r.ok('next() skips source lines only outside directive mode')
            else:
                r.finding('source-line-skip-in-directive-mode', c.span, 'next() can skip a line while in directive mode (%s)' % gs)
    if n < 2:
        raise AnchorMissing('callers of advance_to_end_of_line (found %d)' % n)
    # unknown / missing directive names are errors
    lx = prog.fn(PL + 'lex_next_preprocessor_token')
    EK = 'slicec::parsers::preprocessor::tokens::ErrorKind'
    reach = guards.reach_guards(prog, lx, PL)
    errs = {a['rv']['v'] for a in aggregates(prog, EK, crates=('slicec',)) if a['fn'].path in reach}
    # ... under nothing but the spelling of the name: a '#' with no name after it is MissingDirective whatever follows; any other condition
    # on these errors means some malformed directive is silently accepted
    ek_aggs = [a for a in aggregates(prog, EK, crates=('slicec',)) if a['rv']['v'] in ('MissingDirective', 'UnknownDirective')]
    for g_, bb_, gs in guards.family_sites(prog, lx, PL, lambda g: [a['bb'] for a in ek_aggs if a['fn'] is g and not g.blocks[a['bb']].get('cleanup')]):
        v = [a['rv']['v'] for a in ek_aggs if a['fn'] is g_ and a['bb'] == bb_][0]
        other = [c for c in gs if not re.match(r"^!?\(?eq\(read_identifier\(arg1\),'\w*'\)\)?$", c) and not re.match(r'^arg2 == 35$', c)]
        # and on every path: once the name is known to be empty (MissingDirective) nothing but the error may be returned
        if v == 'MissingDirective':
            brs = [b for b in branches_on_call(g_, lambda c: c.name() == 'eq' and len(c.args) == 2 and "''" in (vexpr(g_, c.args[0]), vexpr(g_, c.args[1])))]
            if not brs:
                other = other + ['(no comparison of the name with the empty string found)']
            elif not all(must_pass(g_, b['true'], g_.return_blocks(), [bb_]) for b in brs):
                other = other + ['a further test after the name was found empty']
        if other:
            r.finding('directive-error-narrowed:%s' % v, g_.span, 'ErrorKind::%s is produced only under %s: the same malformed directive is accepted silently when that does not hold' % (v, other))
        else:
            r.ok('ErrorKind::%s depends on the directive name alone' % v)
    for v in ('MissingDirective', 'UnknownDirective', 'UnknownSymbol'):
        if v in errs:
            r.ok('the directive lexer produces ErrorKind::%s' % v)
        else:
            r.finding('directive-error-missing:%s' % v, lx.span, 'the directive lexer no longer produces ErrorKind::%s' % v)
    r.floor(5)



def r_selection_structure(r, prog):
    """first true branch wins; selected nodes are processed in place, in order"""
    P = 'slicec::parsers::preprocessor::grammar::'
    ev = prog.fn(P + "Conditional::<'a>::evaluate")
    evs = [c for c in ev.calls() if c.name() == 'evaluate' and not ev.blocks[c.bb].get('cleanup')]
    if not evs:
        # second idiom: a search over the sections in order. `find_map` stops at, and yields, the first section whose closure gives Some; the
        # closure gives Some(block) exactly when the section's condition evaluates to true; the fallback closure unwraps the else section.
        cls = sorted((g for g in prog.fns.values() if g.path.startswith(ev.path + '::{closure#')), key=lambda g: g.path)
        ret = vexpr(ev, {'cp': {'l': 0}}, depth=10)
        rets = [vexpr(g, {'cp': {'l': 0}}, depth=10) for g in cls]
        if (re.match(r'^unwrap_or_else\(find_map\(chain\(once\(arg1\.if_section\),arg1\.elif_sections\),closure\(arg2\)\),closure\(arg1\.else_section\)\)$', ret)
                and 'then_some(evaluate(arg2.0,arg1.0),arg2.1)' in rets and 'unwrap_or_default(arg1.0)' in rets and len(cls) == 2):
            r.ok('the sections are searched in order (if, then the elifs) with find_map: the first section whose condition is true is selected and no later one is evaluated')
            r.ok('the else block is the fallback of the search: taken only when no condition was true')
            evs = None
        else:
            raise AnchorMissing('condition evaluations in Conditional::evaluate')
    bad = []
    if evs is None:
        return _process_nodes_in_place(r, prog, P)
    for br in branches_on_call(ev, lambda c: c.name() == 'evaluate'):
        t = br['true']
        reach = ev.reachable(t)
        later = [c for c in evs if c.bb in reach]
        rets = [i for i, b in enumerate(ev.blocks) if b['t']['k'] == 'return']
        if later:
            bad.append('another condition is evaluated after one was found true')
    brs = branches_on_call(ev, lambda c: c.name() == 'evaluate')
    if len(brs) == len(evs) and not bad:
        r.ok('once a condition is true no later condition is evaluated: the first true branch is the one selected (%d conditions)' % len(evs))
    else:
        r.finding('later-branch-can-override', ev.span, 'Conditional::evaluate: %s (%d evaluations, %d of them branched on directly)' % ('; '.join(bad) or 'a condition result is not branched on directly', len(evs), len(brs)))
    # the else block only after every condition was false
    uo = [c for c in ev.calls() if c.name() in ('unwrap_or_default', 'unwrap_or', 'unwrap_or_else') and 'else_section' in vexpr(ev, c.args[0])]
    if uo and all(not ev.edge_dominates(b['bb'], b['true'], uo[0].bb) for b in brs) and any(ev.edge_dominates(b['bb'], b['false'], uo[0].bb) for b in brs):
        r.ok('the else block is taken only when no condition was true')
    else:
        r.finding('else-selection', ev.span, 'the else block is not selected exactly when every condition was false')
    _process_nodes_in_place(r, prog, P)


def _process_nodes_in_place(r, prog, P):
    pn = prog.fn(P + 'process_nodes')
    loops = pn.natural_loops()
    its = [c for c in pn.calls() if c.name() == 'next' and vexpr(pn, c.args[0]) == 'into_iter(arg1)']
    if len(loops) == 1 and len(its) == 1 and its[0].bb in loops[0][1]:
        body = loops[0][1]
        elem = 'next(into_iter(arg1)) as Some.0'
        acts = {}
        for c in pn.calls():
            if pn.blocks[c.bb].get('cleanup') or c.bb not in body:
                continue
            if c.name() in ('push', 'insert', 'remove', 'process_nodes', 'evaluate'):
                acts.setdefault(c.name(), []).append([vexpr(pn, a) for a in c.args])
        want = {
            'push': [['arg2', elem + ' as SourceBlock.0']],
            'insert': [['arg3.defined_symbols', 'to_owned(%s as DefineDirective.0)' % elem]],
            'remove': [['arg3.defined_symbols', elem + ' as UndefineDirective.0']],
            'evaluate': [[elem + ' as Conditional.0', 'arg3.defined_symbols']],
            'process_nodes': [['evaluate(%s as Conditional.0,arg3.defined_symbols)' % elem, 'arg2', 'arg3']],
        }
        if acts == want:
            r.ok('the node list is walked once, front to back; each node acts at its own position; the nodes selected by a conditional are processed (recursively) before the next sibling')
        else:
            r.finding('nodes-not-processed-in-place', pn.span, 'process_nodes performs %s inside its loop; expected %s' % (acts, want))
        outside = [c.name() for c in pn.calls() if c.name() in ('push', 'insert', 'remove', 'extend', 'append', 'push_back', 'push_front') and c.bb not in body and not pn.blocks[c.bb].get('cleanup')]
        if outside:
            r.finding('nodes-deferred', pn.span, 'process_nodes also performs %s outside the walk' % outside)
    else:
        r.finding('nodes-walk', pn.span, 'process_nodes does not walk its node list with one loop over into_iter(nodes) (%d loops, %d iterators): nodes may be deferred or reordered' % (len(loops), len(its)))
    r.floor(3)


def r_lexer_preconditions(r, prog):
    guards.evaluate(r, prog, rule_scopes.guards_preprocessor_lexer, 'guards_preprocessor_lexer.json', 50)

def run(ctx):
    prog = ctx.prog
    ctx.run_rule('C06.1', 'T10', 'symbols are per file', perfile.r_symbols_per_file, prog)
    ctx.run_rule('C06.1b', 'T10', 'every -D symbol is defined for every file (the set reaches the preprocessor unfiltered)', perfile.r_symbols_reach_preprocessor, prog)
    ctx.run_rule('C06.2a', 'T13', 'evaluation semantics of directives and expressions (precondition ledger)', r_evaluation_semantics, prog)
    ctx.run_rule('C06.2d', 'T3', 'first true branch wins; selected nodes are processed in place and in order', r_selection_structure, prog)
    ctx.run_rule('C06.2b', 'T1', 'defined_symbols is written only by process_nodes', r_symbols_single_writer, prog)
    ctx.run_rule('C06.2c', 'T6', 'keyword text -> token -> terminal -> production -> node tables agree', r_token_tables, prog, ctx.cache_dir)
    ctx.run_rule('C06.3', 'T3', 'positions survive the removal of directives and unselected lines', r_positions_survive, prog)
    ctx.run_rule('C06.4a', 'T3', 'parse errors and recovered errors are reported on every path', c01.r_parse_errors, prog)
    ctx.run_rule('C06.4b', 'T1', 'directive text is only consumed by tokenising; bad directive names are errors', r_directive_mode_consumption, prog)
    ctx.run_rule('C06.4d', 'T3', 'layout: the lexer skips exactly the characters char::is_whitespace accepts (a directive line: all but the line feed)', layout.r_whitespace_class, prog, ('preprocessor',))
    ctx.run_rule('C06.4c', 'T9', 'lexer progress and end-of-input state change', c01.r_lexer_eof_state, prog)
    ctx.run_rule('C06.5', 'T13', 'conditions under which the preprocessor lexer consumes, returns and switches modes (precondition ledger)', r_lexer_preconditions, prog)
    ctx.run_rule('C06.6', 'T2', 'preprocessed text is handed back exactly when parsing succeeded without errors', decisions.r_parser_entries, prog, ('preprocessor',))
    ctx.run_rule('C06.2e', 'T6', 'truth table of condition expressions', decisions.r_expression_truth_table, prog)
