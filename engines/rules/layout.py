"""Which characters the three lexers treat as layout: the whitespace-skipping loops consume exactly the characters `char::is_whitespace`
accepts (the preprocessor: all of them but the line feed, which ends a directive). A narrower class (ASCII only, blank and tab only) turns
layout that is accepted today - a carriage return before the line feed, a no-break space, U+2028 - into an `unknown symbol` error."""
import re

from mirlib import AnchorMissing
import guards

LEXERS = {
    'slice': ("slicec::parsers::slice::lexer::Lexer::<'input, T>::skip_whitespace", ['is_whitespace(E)']),
    'preprocessor': ("slicec::parsers::preprocessor::lexer::Lexer::<'input>::skip_inline_whitespace", ['Ne(10,E)', 'is_whitespace(E)']),
    'comments': ("slicec::parsers::comments::lexer::Lexer::<'input>::skip_whitespace", ['is_whitespace(E)']),
}


def r_whitespace_class(r, prog, which):
    for name in which:
        path, want = LEXERS[name]
        f = prog.fns.get(path)
        if f is None:
            raise AnchorMissing('whitespace skipping of the %s lexer (%s)' % (name, path))
        adv = [c for c in f.calls() if c.name() in ('advance_buffer', 'next') and not f.blocks[c.bb].get('cleanup')]
        if not adv:
            raise AnchorMissing('the consuming step of %s' % path)
        for c in adv:
            gs = [g for g in guards.guard_set(prog, f, c.bb) if not re.match(r'^peek\(arg1\.buffer\) is Some$', g)]
            norm = sorted(re.sub(r'peek\(arg1\.buffer\) as Some\.0(\.1)?', 'E', g) for g in gs)
            if norm == sorted(want):
                r.ok('%s lexer: %s consumes a character exactly when %s' % (name, path.rsplit('::', 1)[-1], ' and '.join(want)))
            else:
                r.finding('whitespace-class:%s' % name, c.span, '%s consumes a character under %s (expected %s): layout made of other whitespace characters is no longer skipped' % (path.rsplit('::', 1)[-1], norm, sorted(want)))
        mod = path.split('::lexer::')[0] + '::lexer::'
        ascii_only = [(g, c) for g in prog.fns.values() if g.path.startswith(mod) for c in g.calls() if c.name() == 'is_ascii_whitespace' and not g.blocks[c.bb].get('cleanup')]
        for g, c in ascii_only:
            r.finding('whitespace-class-ascii:%s:%s' % (name, g.path.rsplit('::', 1)[-1]), c.span, '%s classifies characters with is_ascii_whitespace: VT, NEL, no-break space, U+2028, U+3000 are whitespace to the rest of the lexer and to the suite' % g.path)
        if name == 'slice':
            lx = prog.fns.get(mod + "Lexer::<'input, T>::lex_next_slice_token")
            if lx is None:
                raise AnchorMissing('lex_next_slice_token')
            sk = [c for c in lx.calls() if c.name() == 'skip_whitespace' and not lx.blocks[c.bb].get('cleanup')]
            if len(sk) == 1 and 'is_whitespace(arg2)' in guards.guard_set(prog, lx, sk[0].bb):
                r.ok('slice lexer: a character that is whitespace starts the skipping loop (is_whitespace(c))')
            else:
                r.finding('whitespace-arm:slice', lx.span, 'lex_next_slice_token does not enter skip_whitespace on is_whitespace(c): %s' % [guards.guard_set(prog, lx, c.bb) for c in sk])
        if name == 'preprocessor':
            lx = prog.fns.get(mod + "Lexer::<'input>::lex_next_preprocessor_token")
            if lx is None:
                raise AnchorMissing('lex_next_preprocessor_token')
    r.floor(len(which))
