"""Path-sensitive evaluation of small straight-line-with-branches functions (the grammar authors' actions): the CFG is walked
from the entry with the outcome of `is_some()/is_none()` on the action's own arguments supplied by an oracle (the presence of
the optional symbols in the production at hand). Any other data-dependent branch is undecided and raises Undecided (the
caller fails closed). Loops are not followed (step bound)."""
from mirlib import AnchorMissing, proj_str


class Undecided(Exception):
    pass


def _place(f, env, p):
    l = p['l']
    base = ('arg%d' % l) if 1 <= l <= f.argc else env.get(l, '_%d' % l)
    out = base
    for pr in p.get('p', []) or []:
        if pr == '*':
            continue
        s = proj_str(pr)
        if s.startswith('as '):
            out = '%s %s' % (out, s)
        elif s:
            out = '%s.%s' % (out, s.lstrip('.'))
    return out


def _op(f, env, o):
    if 'cp' in o:
        return _place(f, env, o['cp'])
    if 'mv' in o:
        return _place(f, env, o['mv'])
    if 'c' in o:
        if 'int' in o:
            return str(o['int'])
        if 'str' in o:
            return repr(o['str'])
        if 'fn' in o:
            return 'fn:' + o['fn']
        return 'const<%s>' % o['c']
    return '?'


def run(f, presence, max_steps=400):
    """presence: {arg number: True/False} for Option-valued symbol arguments (argN.1 is the Option).
    -> (calls, aggs, ret): calls = [(name, [arg exprs], Call raw terminator)], aggs = [(adt, variant, {field: expr})]"""
    env = {}
    calls = []
    aggs = []
    bb = 0
    steps = 0
    while True:
        steps += 1
        if steps > max_steps:
            raise Undecided('step bound (loop?) in %s' % f.path)
        blk = f.blocks[bb]
        for s in blk['s']:
            if 'lhs' not in s:
                continue
            lhs, rv = s['lhs'], s['rv']
            k = rv['k']
            if k == 'use':
                val = _op(f, env, rv['a'])
            elif k == 'ref' or k == 'rawptr':
                val = _place(f, env, rv['p'])
            elif k == 'cast':
                val = _op(f, env, rv['a'])
            elif k == 'agg':
                names = rv.get('fn') or [str(i) for i in range(len(rv.get('ops', [])))]
                flds = {n: _op(f, env, o) for n, o in zip(names, rv.get('ops', []))}
                if rv.get('adt'):
                    aggs.append((rv['adt'], rv.get('v'), flds))
                    val = '%s::%s{%s}' % (rv['adt'].rsplit('::', 1)[-1], rv.get('v'), ','.join('%s:%s' % kv for kv in flds.items()))
                else:
                    val = '%s(%s)' % (rv.get('ak', 'agg'), ','.join(flds.values()))
            elif k == 'bin':
                val = '%s(%s,%s)' % (rv['op'], _op(f, env, rv['a']), _op(f, env, rv['b']))
            elif k == 'un':
                val = '%s(%s)' % (rv['op'], _op(f, env, rv['a']))
                if rv['op'] == 'Not' and val in ('Not(0)', 'Not(1)'):
                    val = '1' if val == 'Not(0)' else '0'
            elif k == 'discr':
                val = 'discr(%s)' % _place(f, env, rv['p'])
            else:
                val = k
            if not lhs.get('p'):
                env[lhs['l']] = val
            else:
                # store into a field of a local: remember it under the rendered place
                env[_place(f, env, lhs)] = val
        t = blk['t']
        k = t['k']
        if k == 'return':
            return calls, aggs, env.get(0, '()')
        if k == 'goto':
            bb = t['t']
            continue
        if k == 'switch':
            d = _op(f, env, t['d'])
            if d.lstrip('-').isdigit():
                tgt = None
                for v, b in t['ts']:
                    if str(v) == d:
                        tgt = b
                bb = tgt if tgt is not None else t['else']
                continue
            raise Undecided('branch on %s in %s' % (d, f.path))
        if k == 'call':
            fd = t['f']
            name = (fd.get('res') or fd.get('def') or '?')
            short = name.split('::<')[0].rsplit('::', 1)[-1] if '::' in name else name
            import re as _re
            short = _re.sub(r'::<.*?>', '', name).rsplit('::', 1)[-1]
            args = [_op(f, env, a) for a in t.get('a', [])]
            res = '%s(%s)' % (short, ','.join(args))
            if short in ('is_some', 'is_none') and len(args) == 1:
                import re
                m = re.match(r'^arg(\d+)\.1$', args[0])
                if m and int(m.group(1)) in presence:
                    v = presence[int(m.group(1))]
                    res = '1' if (v == (short == 'is_some')) else '0'
            calls.append((short, args, t))
            d = t.get('d')
            if d is not None:
                if not d.get('p'):
                    env[d['l']] = res
                else:
                    env[_place(f, env, d)] = res
            if t.get('t') is None:
                return calls, aggs, None
            bb = t['t']
            continue
        if 't' in t and isinstance(t['t'], int):
            bb = t['t']
            continue
        raise Undecided('terminator %s in %s' % (k, f.path))
