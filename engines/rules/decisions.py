"""Semantic decision rules that were first only covered by decision-structure ledgers (T13 over whole functions). Each states the
decision itself, in a form that does not depend on how the function is laid out."""
import re

from mirlib import AnchorMissing, const_str
from helpers import vexpr, aggregates, must_pass
import guards


def r_string_literal_escapes(r, prog):
    """The closing quote of a string literal is recognised only when it is not escaped, and a backslash escapes only when it is not
    itself escaped (the same machine as unescape_string_literal in the grammar)."""
    SL = "slicec::parsers::slice::lexer::Lexer::<'input, T>::"
    f = prog.fn(SL + 'read_string_literal')
    oks = [(d[1], d[3]) for d in f.defs_of(0) if d[0] == 'assign' and d[3]['k'] == 'agg' and d[3].get('v') == 'Ok' and not f.blocks[d[1]].get('cleanup')]
    if len(oks) != 1:
        raise AnchorMissing('the Ok return of read_string_literal (found %d)' % len(oks))
    gs = guards.guard_set(prog, f, oks[0][0])
    flags = [g for g in gs if g.startswith('!(flag:')]
    quote = any(re.search(r'== 34$', g) for g in gs)
    if quote and len(flags) == 1:
        r.ok('a quote ends the literal only when the escape flag is clear')
    else:
        r.finding('closing-quote-ignores-escape', f.span, 'read_string_literal ends the literal under %s: an escaped quote (or a quote after an escaped backslash) is not told apart' % gs)
        return
    flag = flags[0][len('!(flag:'):-1]
    sets = []
    for bb, j, lhs, rv, s in f.assigns():
        if not lhs.get('p') and f.local_name(lhs['l']) == flag and rv['k'] == 'use' and not f.blocks[bb].get('cleanup'):
            sets.append((vexpr(f, rv['a']), guards.guard_set(prog, f, bb)))
    ones = [g for v, g in sets if v == '1']
    if len(ones) == 1 and any(re.search(r'== 92$', x) for x in ones[0]) and ('!(flag:%s)' % flag) in ones[0]:
        r.ok('a backslash sets the escape flag only when the flag is clear (an escaped backslash does not escape)')
    else:
        r.finding('escape-flag-set', f.span, 'the escape flag %s is set under %s' % (flag, ones))
    zeros = [g for v, g in sets if v == '0']
    if len(zeros) >= 2:
        r.ok('the escape flag is cleared after the escaped character')
    else:
        r.finding('escape-flag-not-cleared', f.span, 'the escape flag %s is never cleared again' % flag)
    r.floor(3)


def request_partition_host(prog):
    """(function that converts and distributes the files, call of it in encode_generate_code_request or None): the request function itself, or
    a private helper of the binary it calls for that"""
    g0 = prog.fn('slicec_bin::encode_generate_code_request')
    is_conv = lambda g, c: c.name() == 'from' and 'SliceFile' in ((c.resolved or '') + (c.callee or '') + ' '.join(c.targs)) and not g.blocks[c.bb].get('cleanup')
    if any(is_conv(g0, c) for c in g0.calls()):
        return g0, None
    for c in g0.calls():
        h = prog.fns.get(c.resolved or '')
        if h is not None and h.crate.tag == 'slicec_bin' and h is not g0 and '{closure' not in h.path and not g0.blocks[c.bb].get('cleanup') and any(is_conv(h, x) for x in h.calls()):
            return h, c
    raise AnchorMissing('the conversion of the parsed files for the generator request')


def r_request_leaves_out_only_moduleless_files(r, prog):
    g, via = request_partition_host(prog)
    conv = [c for c in g.calls() if c.name() == 'from' and 'SliceFile' in ((c.resolved or '') + (c.callee or '') + ' '.join(c.targs)) and not g.blocks[c.bb].get('cleanup')]
    if len(conv) != 1:
        raise AnchorMissing('the file conversion in encode_generate_code_request (found %d)' % len(conv))
    gs = [x for x in guards.guard_set(prog, g, conv[0].bb) if not re.search(r' is (Continue|Some)$', x)]
    if via is not None:
        gs += [x for x in guards.guard_set(prog, via.fn, via.bb) if not re.search(r' is (Continue|Some)$', x)]
    if len(gs) == 1 and re.match(r'^!\(is_none\(.*\.module\)\)$', gs[0]):
        r.ok('every file that has a module declaration is converted and sent; only files without one are left out')
    else:
        r.finding('request-file-filter', conv[0].span, 'a file is put into the request under %s: files are left out for another reason than a missing module declaration' % gs)
    r.floor(1)


def _only_loop_and(prog, f, c, allowed=()):
    """guards of call c in f that are neither loop bookkeeping nor matched by one of the allowed patterns"""
    gs = [g for g in guards.guard_set(prog, f, c.bb) if not guards._LOOP_HAS_NEXT.match(g)]
    return [g for g in gs if not any(re.search(a, g) for a in allowed)]


def r_every_file_validated(r, prog):
    """validate_ast hands every file to the validating visitor: once the two early checks left no error, the walk over compilation_state.files
    presents each file unconditionally - no file is exempt because it has no module, no definitions, or anything else."""
    f = prog.fn('slicec::validators::validate_ast')
    vs = [c for c in f.calls() if c.name() == 'visit_with' and not f.blocks[c.bb].get('cleanup')]
    if len(vs) != 1:
        raise AnchorMissing('the walk over the files in validate_ast (found %d visit_with calls)' % len(vs))
    c = vs[0]
    other = _only_loop_and(prog, f, c, allowed=(r'^!\(has_errors\(', ))
    it = vexpr(f, c.args[0])
    if other:
        r.finding('file-exempt-from-validation', c.span, 'validate_ast visits a file only under %s: the attributes of the file, its module and its definitions are not validated otherwise' % other)
    elif not re.match(r'^next\(into_iter\(arg1\.files\)\) as Some\.0$', it):
        r.finding('files-walk', c.span, 'validate_ast visits %s, not every element of compilation_state.files' % it[:100])
    else:
        r.ok('every file of the compilation is presented to the validators (behind the two early checks only)')
    r.floor(1)


def r_every_file_parsed(r, prog):
    """parse_files parses every file of the compilation, one after another in the order of the list: no file is skipped because of what another
    file contains (identical text, same name, ...)."""
    f = prog.fn('slicec::parsers::parse_files')
    ps = [c for c in f.calls() if c.name() == 'parse_file' and not f.blocks[c.bb].get('cleanup')]
    if len(ps) != 1:
        raise AnchorMissing('the call of parse_file in parse_files (found %d)' % len(ps))
    other = _only_loop_and(prog, f, ps[0])
    it = vexpr(f, ps[0].args[0])
    if other:
        r.finding('file-not-parsed', ps[0].span, 'parse_files parses a file only under %s: what a file compiles to then depends on the other files and on their order' % other)
    elif not re.match(r'^next\(into_iter\(arg1\.files\)\) as Some\.0$', it):
        r.finding('files-parse-walk', ps[0].span, 'parse_files parses %s, not every element of state.files in order' % it[:100])
    else:
        r.ok('every file is parsed, in list order, whatever the other files contain')
    r.floor(1)


def r_container_records_everything(r, prog):
    """Every diagnostic that is reported is recorded: push_into appends unconditionally and extend appends everything it is given. A cap, a
    de-duplication or any other filter at this point loses errors - and with them the gate before code generation and the exit status."""
    D = 'slicec::diagnostics::diagnostic::'
    pi = prog.fn(D + 'Diagnostic::push_into')
    pushes = [c for c in pi.calls() if c.name() == 'push' and not pi.blocks[c.bb].get('cleanup')]
    if len(pushes) == 1 and must_pass(pi, 0, pi.return_blocks(), [pushes[0].bb]) and vexpr(pi, pushes[0].args[1]) == 'arg1' and not [b for b in range(len(pi.blocks)) if pi.blocks[b]['t']['k'] == 'switch' and not pi.blocks[b].get('cleanup')]:
        r.ok('push_into appends the diagnostic on every path, without looking at anything')
    else:
        r.finding('diagnostic-not-always-recorded', pi.span, 'Diagnostic::push_into does not append its diagnostic unconditionally (%d push site(s), or a branch before it)' % len(pushes))
    ex = prog.fn(D + 'Diagnostics::extend')
    exs = [c for c in ex.calls() if c.name() == 'extend' and not ex.blocks[c.bb].get('cleanup')]
    if len(exs) == 1 and must_pass(ex, 0, ex.return_blocks(), [exs[0].bb]) and vexpr(ex, exs[0].args[1]) in ('arg2.0', 'into_iter(arg2.0)') \
            and not [b for b in range(len(ex.blocks)) if ex.blocks[b]['t']['k'] == 'switch' and not ex.blocks[b].get('cleanup')]:
        r.ok('extend appends every diagnostic of the other container')
    else:
        r.finding('diagnostics-not-all-merged', ex.span, 'Diagnostics::extend does not append everything it is given (%s)' % [vexpr(ex, c.args[1])[:60] for c in exs])
    r.floor(2)


def r_parser_entries(r, prog, which=('comments', 'slice', 'preprocessor')):
    ENT = {'comments': "slicec::parsers::comments::parser::CommentParser::<'a>::parse_doc_comment", 'slice': "slicec::parsers::slice::parser::Parser::<'a>::parse_slice_file",
           'preprocessor': "slicec::parsers::preprocessor::parser::Preprocessor::<'a>::parse_slice_file"}
    for w in which:
        f = prog.fn(ENT[w])
        rets = [(d[3].get('v'), sorted(guards.guard_set(prog, f, d[1]))) for d in f.defs_of(0) if d[0] == 'assign' and d[3]['k'] == 'agg' and not f.blocks[d[1]].get('cleanup')]
        ok = [g for v, g in rets if v == 'Ok']
        err = [g for v, g in rets if v == 'Err']
        norm = lambda gs: sorted(re.sub(r'parse\(.*?\) is (Ok|Err)$', r'parse is \1', x) for x in gs)
        if len(ok) == 1 and norm(ok[0]) == ['!(has_errors(arg1.diagnostics))', 'parse is Ok'] and sorted(map(norm, err)) == sorted([['parse is Err'], ['has_errors(arg1.diagnostics)', 'parse is Ok']]):
            r.ok('%s parser: the parsed value is handed back exactly when parsing succeeded and no error (warnings do not count) was reported' % w)
        else:
            r.finding('parser-entry-verdict:%s' % w, f.span, 'the %s parser hands its result back under %s and refuses it under %s (expected: Ok iff parse succeeded and !has_errors())' % (w, ok, err))
    r.floor(len(which))


def r_block_tag_mode(r, prog):
    h = prog.fn("slicec::parsers::comments::lexer::Lexer::<'input>::switch_to_next_line")
    modes = {}
    for bb, j, lhs, rv, s in h.assigns():
        nm = [x.get('n') for x in lhs.get('p', []) if isinstance(x, dict) and 'f' in x]
        if nm == ['mode'] and not h.blocks[bb].get('cleanup'):
            v = rv.get('v') if rv['k'] == 'agg' else vexpr(h, rv['a'])
            modes.setdefault(v, []).append(guards.guard_set(prog, h, bb))
    # a single assignment `mode = if c { BlockTag } else { Message }` shows as a phi: accept both layouts
    bt = modes.get('BlockTag', modes.get('LexerMode::BlockTag{}', []))
    if not bt:
        for bb, j, lhs, rv, s in h.assigns():
            if rv['k'] == 'agg' and rv.get('v') == 'BlockTag' and not h.blocks[bb].get('cleanup'):
                bt.append(guards.guard_set(prog, h, bb))
    if len(bt) == 1 and bt[0] == ['starts_with(trim_start(arg1.current_line),64)']:
        r.ok('a line is lexed as a block tag exactly when its first non-blank character is "@" (whatever follows)')
    else:
        r.finding('block-tag-mode-condition', h.span, 'a comment line is lexed in block-tag mode under %s: unknown or mistyped tags would be read as text without a warning' % bt)
    r.floor(1)


PLUGIN_REJECTIONS = {"missing plugin path (ex: 'PATH,KEY=VALUE')", "missing argument key (ex: 'PATH,KEY=VALUE')",
                     "'=' can only appear once per argument (for a literal '=' character, use '\\=')"}


def r_plugin_parser_decisions(r, prog):
    pp = prog.fn('slicec::slice_options::plugin_parser')
    fns = [pp] + [f for f in prog.fns.values() if f.path.startswith(pp.path + '::{closure')]
    errs = set()
    for f in fns:
        for bb, j, lhs, rv, s in f.assigns():
            if rv['k'] == 'agg' and rv.get('v') == 'Err' and not f.blocks[bb].get('cleanup'):
                for o in rv['ops']:
                    t = const_str(o)
                    if t is None:
                        m = re.match(r"^[\"'](.*)[\"']$", vexpr(f, o))
                        t = m.group(1) if m else vexpr(f, o)
                    errs.add(t)
    errs = {e.replace('\\\\', '\\') for e in errs}
    if errs == PLUGIN_REJECTIONS:
        r.ok('a specification is rejected for exactly three reasons: no path, an empty key, a second "=" in one argument')
    else:
        r.finding('plugin-rejection-reasons', pp.span, 'plugin_parser rejects for %s; the grammar of generator specifications has exactly the reasons %s' % (sorted(errs ^ PLUGIN_REJECTIONS), sorted(PLUGIN_REJECTIONS)))
    opens = [c for c in pp.calls() if c.name() == 'push' and vexpr(pp, c.args[1]) == 'default()' and not pp.blocks[c.bb].get('cleanup')]
    if len(opens) == 1:
        gs = guards.guard_set(prog, pp, opens[0].bb)
        if any(re.search(r'== 44$', x) for x in gs) and any(re.match(r'^is_some\(peek\(|^peek\(.*\) is Some$', x) for x in gs):
            r.ok('a "," opens a new argument only when something follows it (a trailing "," is ignored)')
        else:
            r.finding('argument-opened', opens[0].span, 'a new (key, value) pair is opened under %s' % gs)
    else:
        r.finding('argument-open-sites', pp.span, 'plugin_parser opens new argument pairs at %d sites' % len(opens))
    shrink = [c.name() for f in fns for c in f.calls() if c.name() in ('pop', 'remove', 'truncate', 'retain', 'clear', 'drain', 'dedup', 'dedup_by', 'dedup_by_key', 'swap_remove')
              and not f.blocks[c.bb].get('cleanup') and re.search(r'Vec<\(alloc::string::String, alloc::string::String\)>|new\(\)', vexpr(f, c.args[0]) + ' ' + ' '.join(c.targs))]
    if shrink:
        r.finding('arguments-removed-after-parsing', pp.span, 'plugin_parser removes parsed arguments with %s' % shrink)
    else:
        r.ok('no parsed argument is removed again')
    r.floor(3)


def r_expression_truth_table(r, prog):
    """Not / And / Or / parentheses / symbols evaluate as `!`, `&&`, `||`, the inner expression, membership in the defined symbols."""
    P = 'slicec::parsers::preprocessor::grammar::'
    ex = prog.fn(P + "Expression::<'_>::evaluate")
    tm = prog.fn(P + "Term::<'_>::evaluate")

    def returns(f):
        out = []
        for d in f.defs_of(0):
            if f.blocks[d[1]].get('cleanup'):
                continue
            if d[0] == 'assign':
                rv = d[3]
                if rv['k'] == 'use':
                    val = vexpr(f, rv['a'], depth=12)
                elif rv['k'] == 'un':
                    val = '%s(%s)' % (rv['op'], vexpr(f, rv['a'], depth=12))
                else:
                    val = rv['k']
            else:
                c = d[3]
                val = '%s(%s)' % (c.name(), ','.join(vexpr(f, a, depth=12) for a in c.args))
            out.append((val, guards.guard_set(prog, f, d[1])))
        return out
    ev = lambda x: r'evaluate\(arg1 as %s(\.pointer)?,arg2\)' % x
    want = [
        ('Term', r'^' + ev(r'Term\.0') + '$', [r'^arg1 is Term$']),
        ('Not', r'^Not\(' + ev(r'Not\.0') + r'\)$', [r'^arg1 is Not$']),
        ('And (left false)', r'^0$', [r'^arg1 is And$', r'^!\(' + ev(r'And\.0\.0') + r'\)$']),
        ('And (left true)', r'^' + ev(r'And\.1') + '$', [r'^arg1 is And$', r'^' + ev(r'And\.0\.0') + '$']),
        ('Or (left true)', r'^1$', [r'^arg1 is Or$', r'^' + ev(r'Or\.0\.0') + '$']),
        ('Or (left false)', r'^' + ev(r'Or\.1') + '$', [r'^arg1 is Or$', r'^!\(' + ev(r'Or\.0\.0') + r'\)$']),
    ]
    got = returns(ex)
    for name, vpat, gpats in want:
        hit = [(v, g) for v, g in got if re.match(vpat, v) and len(g) == len(gpats) and all(any(re.match(p_, x) for x in g) for p_ in gpats)]
        if len(hit) == 1:
            r.ok('Expression %s -> %s' % (name, hit[0][0][:40]))
        else:
            r.finding('expression-semantics:%s' % name.split(' ')[0], ex.span, 'Expression::evaluate does not compute %s as prescribed; its results are %s' % (name, [(v[:50], g) for v, g in got]))
    if len(got) != len(want):
        r.finding('expression-semantics:extra-results', ex.span, 'Expression::evaluate has %d ways to produce a result, the grammar of conditions has %d' % (len(got), len(want)))
    gt = returns(tm)
    wt = [('Symbol', r'^contains\(arg2,arg1 as Symbol\.0\)$', [r'^arg1 is Symbol$']), ('Expression', r'^' + ev(r'Expression\.0\.0') + '$', [r'^arg1 is Expression$'])]
    for name, vpat, gpats in wt:
        hit = [(v, g) for v, g in gt if re.match(vpat, v) and len(g) == len(gpats) and all(any(re.match(p_, x) for x in g) for p_ in gpats)]
        if len(hit) == 1:
            r.ok('Term %s -> %s' % (name, hit[0][0][:40]))
        else:
            r.finding('term-semantics:%s' % name, tm.span, 'Term::evaluate does not compute %s as prescribed; its results are %s' % (name, [(v[:50], g) for v, g in gt]))
    r.floor(8)


def _unescape_machine_as_loop(r, prog):
    """the same machine written as a loop over the characters: E := (c == backslash && !F); F := E; the character is pushed iff !E; F starts false;
    every character of the literal is seen, in order, and the string pushed to is what is returned"""
    from helpers import bool_branches, loop_of
    from mirlib import op_place, is_bare, const_int
    f = prog.fn('slicec::parsers::slice::grammar::unescape_string_literal')
    loops = f.natural_loops()
    nx = [c for c in f.calls() if c.name() == 'next' and not f.blocks[c.bb].get('cleanup') and vexpr(f, c.args[0]) == 'into_iter(chars(arg1))']
    pushes = [c for c in f.calls() if c.name() == 'push' and not f.blocks[c.bb].get('cleanup')]
    ok = len(loops) == 1 and len(nx) == 1 and len(pushes) == 1
    why = 'one loop over arg1.chars() with one push' if not ok else ''
    if ok:
        head, body = loops[0]
        elem = 'next(into_iter(chars(arg1))) as Some.0'
        push = pushes[0]
        ok = vexpr(f, push.args[1]) == elem and push.bb in body
        why = 'the pushed value is %s' % vexpr(f, push.args[1])[:60] if not ok else ''
    if ok:
        # E: a bare local assigned Not(F) under c == 92 and 0 under c != 92, nothing else
        E = None
        for l in range(len(f.locals)):
            ds = [d for d in f.defs_of(l) if d[0] == 'assign' and not f.blocks[d[1]].get('cleanup')]
            if len(ds) != 2 or len(f.defs_of(l)) != 2:
                continue
            kinds = {}
            for d in ds:
                gs = guards.guard_set(prog, f, d[1])
                if d[3]['k'] == 'un' and d[3]['op'] == 'Not' and any(re.match(r'^Eq\(92,%s\)$' % re.escape(elem), g) for g in gs):
                    kinds['not'] = op_place(d[3]['a'])
                elif d[3]['k'] == 'use' and const_int(d[3]['a']) == 0 and any(re.match(r'^Ne\(92,%s\)$' % re.escape(elem), g) for g in gs):
                    kinds['zero'] = True
            if 'not' in kinds and 'zero' in kinds and kinds['not'] is not None:
                E = (l, kinds['not'])
        ok = E is not None
        why = 'no local computed as (c == backslash && !flag)' if not ok else ''
    if ok:
        e_local, src = E
        # F: the named flag; the operand of Not is a copy of it taken in this iteration; F := 0 before the loop, F := E inside it on every path round
        chain = src
        seen = set()
        while chain is not None and is_bare(chain) and chain['l'] not in seen and not f.local_name(chain['l']):
            seen.add(chain['l'])
            ds = [d for d in f.defs_of(chain['l']) if d[0] == 'assign']
            chain = op_place(ds[0][3].get('a')) if len(ds) == 1 and ds[0][3]['k'] == 'use' else None
        F = chain['l'] if chain is not None and is_bare(chain) else None
        fd = [d for d in f.defs_of(F) if d[0] == 'assign' and not f.blocks[d[1]].get('cleanup')] if F is not None else []
        init = [d for d in fd if d[1] not in body and d[3]['k'] == 'use' and const_int(d[3]['a']) == 0]
        def origin_local(op):
            pl = op_place(op)
            hops = set()
            while pl is not None and is_bare(pl) and pl['l'] not in hops and not f.local_name(pl['l']) and pl['l'] != e_local:
                hops.add(pl['l'])
                dd = [d for d in f.defs_of(pl['l']) if d[0] == 'assign']
                pl = op_place(dd[0][3].get('a')) if len(dd) == 1 and len(f.defs_of(pl['l'])) == 1 and dd[0][3]['k'] == 'use' else None
            return pl['l'] if pl is not None and is_bare(pl) else None
        upd = [d for d in fd if d[1] in body and d[3]['k'] == 'use' and origin_local(d[3]['a']) == e_local]
        ok = F is not None and len(fd) == 2 and len(init) == 1 and len(upd) == 1 and must_pass(f, upd[0][1], [head], [upd[0][1]]) \
            and all(must_pass(f, s_, [head], [upd[0][1]], within=body) for s_ in f.succs(head) if s_ in body)
        why = 'the flag is not initialised false and set to that value on every iteration' if not ok else ''
    if ok:
        # pushed exactly on the false edge of a branch on E
        br = [(b, pl, ts, fs) for b, pl, ts, fs in bool_branches(f) if pl is not None and is_bare(pl) and b in body and ts != fs
              and (pl['l'] == e_local or any(d[0] == 'assign' and d[3]['k'] == 'use' and op_place(d[3]['a']) is not None and op_place(d[3]['a'])['l'] == e_local for d in f.defs_of(pl['l'])))]
        ok = len(br) == 1 and f.edge_dominates(br[0][0], br[0][3], push.bb) and push.bb not in f.reachable(br[0][2], blocked=[head]) \
            and must_pass(f, br[0][3], [head], [push.bb], within=body)
        why = 'the character is not pushed exactly when that value is false' if not ok else ''
    if ok:
        ret = vexpr(f, {'cp': {'l': 0}}, depth=6)
        ok = ret == vexpr(f, push.args[0], depth=6)
        why = 'the string returned (%s) is not the one pushed to' % ret[:40] if not ok else ''
    if ok:
        r.ok('a character is dropped iff it is a backslash and the previous one was not an unescaped backslash; the flag is updated with the same value (loop form, every character of the literal, from a not-escaped start)')
    else:
        r.finding('unescape-machine', f.span, 'unescape_string_literal (loop form): %s' % why)
    r.floor(1)


def r_unescape_machine(r, prog):
    """unescape_string_literal drops a backslash exactly when it is not itself escaped (the machine read_string_literal uses to find the closing quote)."""
    cls = [f for f in prog.fns.values() if f.path.startswith('slicec::parsers::slice::grammar::unescape_string_literal::{closure')]
    if len(cls) == 0:
        return _unescape_machine_as_loop(r, prog)
    if len(cls) != 1:
        raise AnchorMissing('the filter closure of unescape_string_literal')
    f = cls[0]
    ret = vexpr(f, {'cp': {'l': 0}}, depth=12)
    stores = [vexpr(f, rv['a'], depth=12) for bb, j, lhs, rv, s in f.assigns() if lhs.get('p') and rv['k'] == 'use' and not f.blocks[bb].get('cleanup')]
    esc = r'phi\(0\|Not\(arg1\.0\)\)'
    if re.match(r'^Not\(' + esc + r'\)$', ret) and any(re.match('^' + esc + '$', x) for x in stores):
        gs = [g for b in range(len(f.blocks)) for g in guards.guard_set(prog, f, b) if re.search(r'92', g)]
        # the machine runs over the whole literal, from its first character, starting in the not-escaped state, and nothing else is returned
        outer = prog.fn('slicec::parsers::slice::grammar::unescape_string_literal')
        oret = vexpr(outer, {'cp': {'l': 0}}, depth=10)
        if gs and oret != 'collect(filter(chars(arg1),closure(0)))':
            r.finding('unescape-not-whole-literal', outer.span, 'unescape_string_literal returns %s: the escape machine must see every character of the literal, from the first, starting not-escaped (expected collect(filter(chars(arg1),closure(false))))' % oret[:200])
            r.floor(1)
            return
        if gs:
            r.ok('a character is dropped iff it is a backslash and the previous one was not an unescaped backslash; the flag is updated with the same value')
            r.floor(1)
            return
    r.finding('unescape-machine', f.span, 'the unescape filter returns %s and stores %s: expected keep = !(c == backslash && !escaped), escaped := (c == backslash && !escaped)' % (ret, stores))
    r.floor(1)
