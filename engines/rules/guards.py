"""T13 rule-precondition ledger: the set of branch conditions that dominate the construction of each language-rule
diagnostic (and each call of a validator function), as symbolic expressions. A rule that is produced under narrower, wider
or different conditions than recorded is reported."""
import hashlib
import json
import os
import re

from mirlib import op_place, is_bare, const_int
from helpers import bool_branches, enum_switches, vexpr, arm, aggregates

VERIF = os.path.abspath(os.path.join(os.path.dirname(os.path.abspath(__file__)), '..', '..'))


def _norm(e):
    e = re.sub(r'\b_\d+\b', '_', e)
    e = re.sub(r'undef_\d+', 'undef', e)
    return e


def guard_set(prog, f, bb, _depth=0):
    """sorted list of condition strings whose edge dominates block bb in f"""
    out = set()
    if bb not in f.reachable(0):
        return ['<unreachable>']
    for b, p, ts, fs in bool_branches(f):
        if ts == fs:
            continue
        t = f.blocks[b]['t']
        ex = _norm(vexpr(f, {'cp': p}, depth=20)) if p is not None else '?'
        if re.match(r'^[01]$', ex) or ex.startswith('phi(0|') or ex in ('1', '0'):
            # a flag that is only ever assigned constants: cfg!(debug_assertions), or the matches!(..) idiom
            # (`flag = true` in the matching arm, `flag = false` elsewhere): the conditions of the single
            # assigning block hold wherever the corresponding edge dominates
            if p is not None and is_bare(p) and _depth < 4:
                ones, zeros = [], []
                for d in f.defs_of(p['l']):
                    v = const_int(d[3]['a']) if d[0] == 'assign' and d[3]['k'] == 'use' else None
                    if v not in (0, 1):
                        ones = zeros = None
                        break
                    (ones if v == 1 else zeros).append(d[1])
                if ones is not None:
                    src = ones if f.edge_dominates(b, ts, bb) else (zeros if f.edge_dominates(b, fs, bb) else None)
                    if src is not None and len(src) == 1 and src[0] != bb:
                        out.update(g for g in guard_set(prog, f, src[0], _depth + 1) if g != '<unreachable>')
                    elif src is not None and f.local_name(p['l']) and len(ones) >= 1 and len(zeros) >= 2:
                        # a state flag that is set and reset along the way (`is_escaped`, `last_was_asterisk`): the condition is the flag itself
                        out.add(('flag:%s' if src is ones else '!(flag:%s)') % f.local_name(p['l']))
            continue
        if f.edge_dominates(b, ts, bb):
            out.add(ex)
        elif f.edge_dominates(b, fs, bb):
            out.add('!(' + ex + ')')
    for sw in enum_switches(f):
        adt = (sw['adt'] or '').rsplit('::', 1)[-1]
        ex = _norm(vexpr(f, {'cp': sw['place']}, depth=20))
        tgts = set(sw['arms'].values()) | {sw['otherwise']}
        variants = None
        a = prog.adts.get(sw['adt'])
        names = [v['n'] for v in a['variants']] if a else None
        if names is None:
            names = {'Option': ['None', 'Some'], 'Result': ['Ok', 'Err'], 'ControlFlow': ['Continue', 'Break']}.get(adt)
        for vi, tgt in sw['arms'].items():
            others = [t2 for k, t2 in sw['arms'].items() if k != vi] + ([sw['otherwise']] if f.blocks[sw['otherwise']]['t']['k'] != 'unreachable' else [])
            if tgt in others:
                continue
            if f.edge_dominates(sw['bb'], tgt, bb):
                out.add('%s is %s' % (ex, names[vi] if names and vi < len(names) else vi))
        if f.blocks[sw['otherwise']]['t']['k'] != 'unreachable' and sw['otherwise'] not in sw['arms'].values():
            if f.edge_dominates(sw['bb'], sw['otherwise'], bb):
                excl = sorted((names[vi] if names and vi < len(names) else str(vi)) for vi in sw['arms'])
                out.add('%s is not %s' % (ex, '/'.join(excl)))
    for i, blk in enumerate(f.blocks):
        t = blk['t']
        if t['k'] == 'switch' and t['ty'] not in ('bool', 'isize'):
            ex = _norm(vexpr(f, t['d'], depth=20))
            for v, tgt in t['ts']:
                if tgt != t['else'] and f.edge_dominates(i, tgt, bb):
                    out.add('%s == %s' % (ex, v))
            if f.edge_dominates(i, t['else'], bb) and t['else'] not in [x for _, x in t['ts']]:
                out.add('%s not in {%s}' % (ex, ','.join(sorted(v for v, _ in t['ts']))))
    return sorted({canon(g) for g in out})


RULE_CRATES = ('slicec',)


def _rv(f, rv):
    if rv['k'] == 'agg':
        from helpers import _vexpr_def
        return _vexpr_def(f, ('assign', 0, 0, rv), 12, set())
    if rv['k'] == 'bin':
        a, b = vexpr(f, rv['a'], depth=20), vexpr(f, rv['b'], depth=20)
        return '%s(%s,%s)' % (rv['op'], a, b)
    if rv['k'] == 'un':
        return '%s(%s)' % (rv['op'], vexpr(f, rv['a'], depth=20))
    return rv['k']


SITE_META = {}     # key -> {'kind': 'E'|'C'|'R', 'label': .., 'callee': path or None}   (filled by rule_sites)


def rule_sites(prog, scope):
    """(key, fn, bb, span) for every Error/Lint construction and every call of a function of `scope` made from a function of `scope`."""
    out = []
    SITE_META.clear()
    crates = getattr(scope, 'crates', RULE_CRATES)
    fns = [f for f in prog.fns.values() if f.crate.tag in crates and scope(f)]
    names = {f.path for f in fns}
    for f in sorted(fns, key=lambda x: x.path):
        cnt = {}
        for kind, adt in (('Error', 'slicec::diagnostics::errors::Error'), ('Lint', 'slicec::diagnostics::lints::Lint')):
            ags = [a for a in aggregates(prog, adt, crates=crates) if a['fn'] is f and not f.blocks[a['bb']].get('cleanup')]
            ags.sort(key=lambda a: (a['span'].cline, a['span'].line, a['bb']))
            for a in ags:
                k = (kind, a['rv']['v'])
                n = cnt.get(k, 0)
                cnt[k] = n + 1
                out.append(('%s|%s::%s|#%d' % (f.path, kind, a['rv']['v'], n), f, a['bb'], a['span']))
                SITE_META[out[-1][0]] = {'kind': 'E', 'label': '%s::%s' % (kind, a['rv']['v']), 'callee': None}
        # predicates (closures / functions returning bool, e.g. the conditions given to filter / any / find): every way of
        # producing the result, with its own guards, is a site of its own; the value is part of the key
        all_ret = getattr(scope, 'all_returns', False) and f.local_ty(0) not in ('()', '!')
        if (f.kind == 'closure' and f.local_ty(0) == 'bool') or (f.raw.get('output') == 'bool' and f.kind != 'closure') or all_ret:
            defs = []
            for d in f.defs_of(0):
                if d[0] == 'assign' and not f.blocks[d[1]].get('cleanup'):
                    defs.append((d[1], _norm(vexpr(f, d[3].get('a') or {'cp': d[3].get('p')}, depth=20)) if d[3]['k'] in ('use', 'ref') else _norm(vexpr(f, {'cp': {'l': 0}}, depth=2) if False else d[3]['k'] + ':' + _norm(_rv(f, d[3])))))
                elif d[0] == 'call' and not f.blocks[d[1]].get('cleanup'):
                    c = d[3]
                    defs.append((d[1], _norm('%s(%s)' % (c.name(), ','.join(vexpr(f, a, depth=20) for a in c.args)))))
            defs.sort(key=lambda x: x[1])
            for bbv, val in defs:
                k = ('returns', val)
                n = cnt.get(k, 0)
                cnt[k] = n + 1
                shown = val if len(val) <= 160 else '%s~%s' % (val[:160], hashlib.sha1(val.encode()).hexdigest()[:10])    # long values: prefix + digest of the whole
                out.append(('%s|returns %s|#%d' % (f.path, shown, n), f, bbv, f.span))
                SITE_META[out[-1][0]] = {'kind': 'R', 'label': 'returns %s' % shown, 'callee': None}
        extra = getattr(scope, 'extra_calls', ())
        calls = [c for c in f.calls() if (((c.f.get('res') or '') in names and c.f.get('res') != f.path) or c.name() in extra) and not f.blocks[c.bb].get('cleanup')]
        calls.sort(key=lambda c: (c.span.cline, c.span.line, c.bb))
        for c in calls:
            nm = re.sub(r'::<.*?>', '', c.f.get('res') or c.callee or '?').rsplit('::', 1)[-1]
            if c.name() in extra:
                full = [_norm(vexpr(f, a, depth=20)) for a in c.args]
                nm = '%s(%s)' % (nm, ','.join(x if len(x) <= 80 else '%s~%s' % (x[:80], hashlib.sha1(x.encode()).hexdigest()[:8]) for x in full))
            targ = ''
            ts = [t for t in c.targs if 'slicec::grammar' in t]
            if ts:
                targ = '<%s>' % ','.join(re.sub(r'.*::', '', re.sub(r'[&\[\]]', '', t)) for t in ts)
            k = ('call', nm + targ)
            n = cnt.get(k, 0)
            cnt[k] = n + 1
            out.append(('%s|call %s%s|#%d' % (f.path, nm, targ, n), f, c.bb, c.span))
            SITE_META[out[-1][0]] = {'kind': 'C', 'label': 'call %s%s' % (nm, targ), 'callee': (c.f.get('res') if (c.f.get('res') or '') in names else None),
                                     'args': [_norm(vexpr(f, a, depth=20)) for a in c.args]}
    return out


def load(name):
    with open(os.path.join(VERIF, 'ledgers', name)) as fh:
        return json.load(fh)


def _split_args(s):
    out, depth, cur = [], 0, ''
    for ch in s:
        if ch in '({[':
            depth += 1
        elif ch in ')}]':
            depth -= 1
        if ch == ',' and depth == 0:
            out.append(cur)
            cur = ''
        else:
            cur += ch
    out.append(cur)
    return out


_FLIP = {'Gt': 'Lt', 'Ge': 'Le'}
_NEG = {'Lt': 'Ge', 'Le': 'Gt', 'Gt': 'Le', 'Ge': 'Lt', 'Eq': 'Ne', 'Ne': 'Eq'}


def reach_guards(prog, root, prefix, depth=2):
    """Functions reachable from `root` through calls that stay inside the path prefix (the private helpers of one type), each with the guard
    sets under which it is entered: fn path -> list of (guards at the call sites along one chain, parameter substitution). The root maps to
    one empty entry. Used to read a decision table off a function *and the helpers parts of it were moved into*: the condition of a site in
    a helper is the helper's own guard set joined with the call site's, the helper's parameters replaced by the actual arguments."""
    out = {root.path: [([], {})]}
    frontier = [(root, [], {})]
    for _ in range(depth):
        nxt = []
        for f, gs, sub in frontier:
            for c in f.calls():
                if f.blocks[c.bb].get('cleanup'):
                    continue
                g = prog.fns.get(c.resolved or '')
                if g is None or g is root or not g.path.startswith(prefix) or '{closure' in g.path or g.path == f.path:
                    continue
                here = [_subst_args(x, sub) for x in guard_set(prog, f, c.bb)]
                from helpers import vexpr as _vx
                actual = {'arg%d' % (i + 1): _subst_args(_vx(f, a), sub) for i, a in enumerate(c.args)}
                entry = (gs + here, actual)
                out.setdefault(g.path, []).append(entry)
                nxt.append((g, gs + here, actual))
        frontier = nxt
    return out


def _subst_args(text, sub):
    if not sub:
        return text
    return re.sub(r'\barg(\d+)\b', lambda m: sub.get('arg' + m.group(1), m.group(0)) if sub.get('arg' + m.group(1)) != 'arg' + m.group(1) else m.group(0), text)


def family_sites(prog, root, prefix, blocks_of, depth=2):
    """(fn, bb, guards) for the blocks `blocks_of(fn)` of the root and of the helpers reachable from it inside `prefix`; guards is the
    joined, substituted guard set for one way of reaching the block (one entry per call chain)."""
    out = []
    for path, entries in reach_guards(prog, root, prefix, depth).items():
        f = prog.fns[path]
        for bb in blocks_of(f):
            own = guard_set(prog, f, bb)
            for gs, sub in entries:
                out.append((f, bb, sorted(set(gs) | {_subst_args(x, sub) for x in own})))
    return out


def predicate_true_conditions(prog, h):
    """For a crate-local boolean helper `h` that is one conjunction (`a && b && c`, possibly with early `return false`s): the conditions, in
    terms of h's own parameters, that hold exactly when it returns true. None when h is anything else (a loop, several ways to return true,
    calls with effects)."""
    if h is None or h.natural_loops() or '{closure' in h.path:
        return None
    if [c for c in h.calls() if not h.blocks[c.bb].get('cleanup') and c.name() not in ('eq', 'ne', 'lt', 'le', 'gt', 'ge', 'deref', 'as_str', 'as_ref', 'borrow', 'span', 'len', 'is_empty')]:
        return None
    trues = []
    for bb, j, lhs, rv, st in h.assigns():
        if lhs['l'] != 0 or not is_bare(lhs) or h.blocks[bb].get('cleanup') or bb not in h.reachable(0):
            continue
        if rv['k'] == 'use' and const_int(rv['a']) in (0, 1):
            if const_int(rv['a']) == 1:
                trues.append(guard_set(prog, h, bb))
            continue
        if rv['k'] == 'use':
            ex = _norm(vexpr(h, rv['a'], depth=20))
        elif rv['k'] in ('bin', 'un'):
            ex = _norm(_rv(h, rv))
        else:
            return None
        trues.append(sorted(set(guard_set(prog, h, bb)) | {canon(ex)}))
    for c in h.calls():
        if c.dest is not None and c.dest.get('l') == 0 and is_bare(c.dest) and not h.blocks[c.bb].get('cleanup') and c.bb in h.reachable(0):
            ex = _norm('%s(%s)' % (c.name(), ','.join(vexpr(h, a, depth=20) for a in c.args)))
            trues.append(sorted(set(guard_set(prog, h, c.bb)) | {canon(ex)}))
    if len(trues) != 1 or '<unreachable>' in trues[0]:
        return None
    return trues[0]


def expand_predicates(prog, f, gs):
    """guard strings of f with every bare call of a crate-local conjunction helper (`is_written_inside(a, b)`) replaced by the conditions it
    stands for, its parameters substituted by the actual arguments; other guards are kept as they are"""
    out = []
    for g in gs:
        m = re.match(r'^(\w+)\((.*)\)$', g)
        h = None
        if m:
            cands = {c.resolved for c in f.calls() if c.name() == m.group(1) and c.resolved in prog.fns and prog.fns[c.resolved].crate.tag == f.crate.tag}
            if len(cands) == 1:
                h = prog.fns[cands.pop()]
        conds = predicate_true_conditions(prog, h) if h is not None else None
        if conds is None:
            out.append(g)
            continue
        actual = {'arg%d' % (i + 1): a for i, a in enumerate(_split_args(m.group(2)))}
        out.extend(canon(_subst_args(c, actual)) for c in conds)
    return sorted(set(out))


def canon(g):
    """canonical spelling of a comparison guard: no negated comparison, no Gt/Ge (so `a < b`, `!(a >= b)` and `b > a` read alike)"""
    neg = False
    t = g
    m = re.match(r'^!\((.*)\)$', t)
    if m and re.match(r'^(Lt|Le|Gt|Ge|Eq|Ne)\(', m.group(1)) and m.group(1).endswith(')'):
        neg, t = True, m.group(1)
    m = re.match(r'^(Lt|Le|Gt|Ge|Eq|Ne)\((.*)\)$', t)
    if not m:
        return g
    op, args = m.group(1), _split_args(m.group(2))
    if len(args) != 2:
        return g
    if neg:
        op = _NEG[op]
    a, b = args
    if op in _FLIP:
        op, a, b = _FLIP[op], b, a
    if op in ('Eq', 'Ne'):
        a, b = sorted([a, b])
    return '%s(%s,%s)' % (op, a, b)


def is_decision_ledger(scope):
    return bool(getattr(scope, 'all_returns', False))


def evaluate(rule, prog, scope, ledger_name, floor, only=None):
    """only: optional predicate on the function path of a site - the rule then decides just that part of the ledger (a property that owns
    some of the functions of a scope evaluates its own share)"""
    if is_decision_ledger(scope) and os.environ.get('VERIF_ACTIVE_TIER', 'quick') != 'thorough':
        # decision-structure ledgers freeze how whole functions decide (every return, every selected call): they react to refactorings
        # that keep behaviour (a helper extracted, a loop rewritten). They belong to the thorough tier; the quick tier decides the same
        # clauses through the semantic rules of the property.
        rule.ok('decision-structure ledger %s: evaluated in the thorough tier' % ledger_name)
        return
    led = load(ledger_name)['sites']
    if only is not None:
        led = {k: v for k, v in led.items() if only(k.split('|')[0])}
    seen = set()
    now = {}
    findings = []
    oks = []
    raw = []
    for key, f, bb, span in rule_sites(prog, scope):
        if only is not None and not only(f.path):
            continue
        raw.append((key, f, bb, span, guard_set(prog, f, bb), dict(SITE_META.get(key, {}))))
    # conditions a site owes to where it sits: behind a filter adapter, inside a closure handed to a call that is itself conditional
    extra_now, folded_now = filter_folding(prog, {key: {'fn': f.path, 'bb': bb, 'kind': meta.get('kind'), 'label': meta.get('label') or '', 'guards': gs}
                                                  for key, f, bb, span, gs, meta in raw})
    for key, f, bb, span, gs, meta in raw:
        seen.add(key)
        gs = gs + [g for g in extra_now.get(key, []) if g not in gs]
        now[key] = {'guards': gs, 'fn': f.path, 'bb': bb, 'meta': meta, 'span': span}
        if key not in led:
            findings.append(('unrecorded-rule-site:%s' % key, span, 'a diagnostic / validator call that is not in the precondition ledger (%s); its conditions are %s' % (key, gs)))
            continue
        want = led[key]['guards']
        if gs == want:
            oks.append((key, '; '.join(gs) if gs else 'unconditional'))
        else:
            extra = [g for g in gs if g not in want]
            missing = [g for g in want if g not in gs]
            what = []
            if extra:
                what.append('additionally requires %s (the rule now applies in fewer cases)' % extra)
            if missing:
                what.append('no longer requires %s (the rule now applies in more or other cases)' % missing)
            findings.append(('rule-precondition-changed:%s' % key, span, '%s %s' % (key.split('|', 1)[1], ' and '.join(what))))
    for key in led:
        if key not in seen:
            findings.append(('rule-site-removed:%s' % key, '-', 'the recorded diagnostic / validator call %s no longer exists: that language rule (or that application of it) is gone' % key))
    if findings and not is_decision_ledger(scope):
        # The sites differ from the ledger. Before reporting, see whether the *rules* differ: a diagnostic that moved into (or out of)
        # a helper, or whose function was renamed, is the same rule as long as the conditions that lead to it - its own plus those of the
        # calls that reach it - are the same. Compare the multisets of (diagnostic, effective conditions).
        e_old = _effective(_old_sites(led))
        e_now = _effective({k: {'guards': v['guards'], 'fn': v['fn'], 'kind': v['meta'].get('kind'), 'label': v['meta'].get('label'), 'callee': v['meta'].get('callee'),
                                'folded': bool(folded_now.get(k)), 'args': v['meta'].get('args')} for k, v in now.items()})
        from collections import Counter
        c_old, c_now = Counter(x[:2] for x in e_old), Counter(x[:2] for x in e_now)
        if c_old == c_now:
            for key, d in oks:
                rule.ok(key, d)
            rule.ok('moved-sites', 'the sites differ from the ledger but every diagnostic is produced under the same effective conditions (moved into / out of a helper, or renamed): %d site difference(s) reconciled' % len(findings))
            rule.floor(floor, 'rule sites')
            return
        # partial reconciliation: a leaf site (diagnostic or predicate return) all of whose effective entries have a counterpart on the other
        # side is the same rule in a new place; only the unmatched ones are reported. Call sites are reported unless everything matched.
        bad_old = {k for lab, gs, k in e_old if c_old[(lab, gs)] > c_now[(lab, gs)]}
        bad_now = {k for lab, gs, k in e_now if c_now[(lab, gs)] > c_old[(lab, gs)]}
        leaf_old = {k for _, _, k in e_old}
        leaf_now = {k for _, _, k in e_now}
        # call sites: the same call (same callee, same conditions) in the same function family is the same site, whichever closure of the
        # family it sits in (closures are numbered in source order, so adding or removing one renumbers the others)
        def csig(fn, label, gs):
            root = re.sub(r'(::\{closure#\d+\})+$', '', fn)
            return (root, label, tuple(sorted(_abstract(canon(_norm_elem(g, fn))) for g in gs if not _LOOP_HAS_NEXT.match(g))))
        old_sites = _old_sites(led)
        c_old_calls = Counter(csig(v['fn'], v['label'], v['guards']) for k, v in old_sites.items() if v['kind'] == 'C' and k not in seen)
        c_now_calls = Counter(csig(v['fn'], v['meta'].get('label'), v['guards']) for k, v in now.items() if v['meta'].get('kind') == 'C' and k not in led)
        kept = []
        for k, sp, txt in findings:
            what, key = k.split(':', 1)
            if what == 'rule-site-removed' and key in old_sites and old_sites[key]['kind'] == 'C':
                sg = csig(old_sites[key]['fn'], old_sites[key]['label'], old_sites[key]['guards'])
                if c_now_calls.get(sg, 0) >= c_old_calls.get(sg, 0):
                    continue
            if what == 'unrecorded-rule-site' and key in now and now[key]['meta'].get('kind') == 'C':
                sg = csig(now[key]['fn'], now[key]['meta'].get('label'), now[key]['guards'])
                if c_old_calls.get(sg, 0) >= c_now_calls.get(sg, 0):
                    continue
                # a call of a function that did not exist when the ledger was written (a helper extracted since): the call carries no rule
                # of its own - what the helper reports is compared, with the conditions of this call joined in, as the helper's own sites
                callee = now[key]['meta'].get('callee')
                old_fns = {re.sub(r'(::\{closure#\d+\})+$', '', v['fn']) for v in old_sites.values()}
                if callee and callee not in old_fns and not any(re.sub(r'(::\{closure#\d+\})+$', '', now[k2]['fn']) == callee for k2 in bad_now if k2 in now):
                    continue
            if what == 'unrecorded-rule-site' and key in now and now[key]['meta'].get('kind') == 'R' and _adapter_of(prog, now[key]['fn']) in ('any', 'all'):
                # a new predicate closure handed to any()/all(): its verdict is a bool the enclosing function has to branch on, and that
                # branch is in the conditions of whatever it guards - the closure by itself decides nothing
                continue
            if what in ('rule-site-removed', 'rule-precondition-changed') and led.get(key, {}).get('folded_into') and what == 'rule-site-removed' \
                    and all(t not in bad_old and (t in leaf_old) for t in led[key]['folded_into']):
                continue
            if what == 'unrecorded-rule-site' and folded_now.get(key) and all(t not in bad_now and (t in leaf_now) for t in folded_now[key]):
                continue
            if what == 'rule-site-removed' and key in leaf_old and key not in bad_old:
                continue
            if what == 'unrecorded-rule-site' and key in leaf_now and key not in bad_now:
                continue
            if what == 'rule-precondition-changed' and key in leaf_old and key in leaf_now and key not in bad_old and key not in bad_now:
                continue
            kept.append((k, sp, txt))
        if len(kept) < len(findings):
            rule.ok('moved-sites', '%d site difference(s) reconciled: same diagnostic under the same effective conditions elsewhere' % (len(findings) - len(kept)))
        findings = kept
    for key, d in oks:
        rule.ok(key, d)
    for k, sp, txt in findings:
        rule.finding(k, sp, txt)
    rule.floor(floor, 'rule sites')


def _old_sites(led):
    out = {}
    fns = {k.split('|')[0] for k in led}
    for k, v in led.items():
        parts = k.split('|')
        fn, label = parts[0], parts[1]
        kind = 'E' if re.match(r'^(Error|Lint)::', label) else ('C' if label.startswith('call ') else 'R')
        callee = v.get('callee')
        if kind == 'C' and callee is None:
            nm = re.sub(r'<.*$', '', label[5:]).split('(')[0]
            cands = [x for x in fns if re.sub(r'::<.*?>', '', x).endswith('::' + nm)]
            callee = cands[0] if len(cands) == 1 else None
        out[k] = {'guards': v['guards'], 'fn': fn, 'kind': kind, 'label': label, 'callee': callee, 'folded': bool(v.get('folded_into')), 'args': v.get('args')}
    return out


def _adapter_of(prog, fnpath):
    """name of the call the closure `fnpath` is handed to in its enclosing function (an iterator adapter, usually), or None"""
    m = re.match(r'^(.*)::\{closure#\d+\}$', fnpath)
    if not m or m.group(1) not in prog.fns or fnpath not in prog.fns:
        return None
    from helpers import closure_of_arg
    parent, me = prog.fns[m.group(1)], prog.fns[fnpath]
    for c in parent.calls():
        if parent.blocks[c.bb].get('cleanup'):
            continue
        for a in c.args:
            if closure_of_arg(prog, parent, a) is me:
                return c.name()
    return None


# --------------------------------------------------------------------------- filter folding
_PASS_THROUGH = ('into_iter', 'iter', 'iter_mut', 'map', 'enumerate', 'peekable', 'rev', 'skip', 'take', 'cloned', 'copied', 'chain', 'zip', 'inspect',
                 'by_ref', 'deref', 'as_slice', 'filter', 'borrow', 'as_ref')


def _receiver_chain(f, operand, limit=12):
    """the calls an iterator value comes from: the call producing the operand, the call producing that call's receiver (args[0]), and so on"""
    from mirlib import op_place as _opl
    out = []
    pl = _opl(operand)
    seen = set()
    while pl is not None and limit > 0:
        limit -= 1
        if pl['l'] in seen:
            break
        seen.add(pl['l'])
        ds = [d for d in f.defs_of(pl['l']) if d[0] in ('assign', 'call')]
        if len(ds) != 1:
            break
        d = ds[0]
        if d[0] == 'call':
            c = d[3]
            out.append(c)
            if not c.args or c.name() not in _PASS_THROUGH:
                break
            pl = _opl(c.args[0])
        else:
            rv = d[3]
            if rv['k'] in ('use', 'cast'):
                pl = _opl(rv.get('a'))
            elif rv['k'] in ('ref', 'rawptr'):
                pl = rv['p']
            else:
                break
    return out


def _val_to_cond(v):
    m = re.match(r'^un:Not\((.*)\)$', v)
    if m:
        return '!(%s)' % m.group(1)
    m = re.match(r'^(bin|un):(.*)$', v)
    return m.group(2) if m else v


def filter_folding(prog, sites):
    """sites: key -> dict(fn=path, bb=block, kind, label, guards). Returns (extra, folded_into):
    extra[key] = conditions that hold for the site because it only sees elements that passed a `filter` adapter upstream of it (the
    conditions under which the filter's closure answers true, spelled over `elem`); folded_into[key of a predicate-return site of such a
    closure] = keys of the sites it was folded into. A condition is then the same whether it is written in the body of the loop / for_each
    closure or in a filter in front of it."""
    from helpers import closure_of_arg, loop_of
    by_fn = {}
    for k, v in sites.items():
        by_fn.setdefault(v['fn'], []).append(k)
    extra, folded_into = {}, {}
    roots = {re.sub(r'(::\{closure#\d+\})+$', '', v['fn']) for v in sites.values()}
    for rp in sorted(roots):
        R = prog.fns.get(rp)
        if R is None:
            continue
        for fc in R.calls():
            if fc.name() != 'filter' or R.blocks[fc.bb].get('cleanup') or len(fc.args) < 2:
                continue
            F = closure_of_arg(prog, R, fc.args[1])
            if F is None:
                continue
            rkeys = [k for k in by_fn.get(F.path, []) if sites[k]['kind'] == 'R']
            contrib = []
            for k in rkeys:
                val = sites[k]['label'][len('returns '):]
                if val == '0':
                    continue
                conds = [_norm_elem(g, F.path) for g in sites[k]['guards']]
                if val != '1':
                    conds.append(_norm_elem(_val_to_cond(val), F.path))
                contrib.append(conds)
            if len(contrib) != 1:
                continue          # no predicate sites recorded, or a disjunction: not folded
            pred = contrib[0]
            targets = []
            # (a) closures handed to an adapter downstream of the filter
            for ac in R.calls():
                if ac is fc or R.blocks[ac.bb].get('cleanup') or not ac.args:
                    continue
                if fc not in _receiver_chain(R, ac.args[0]):
                    continue
                if ac.name() == 'next':
                    lp = loop_of(R, ac.bb)
                    if lp:
                        targets += [k for k in by_fn.get(R.path, []) if sites[k]['bb'] in lp[1]]
                    continue
                for a in ac.args[1:]:
                    G = closure_of_arg(prog, R, a)
                    if G is not None and G is not F:
                        targets += [k for fp, ks in by_fn.items() if fp == G.path or fp.startswith(G.path + '::{closure') for k in ks]
            # (b) a `for` loop over the filtered iterator: into_iter(filter(..)) then next() in the loop
            for ic in R.calls():
                if ic.name() == 'into_iter' and ic.args and fc in _receiver_chain(R, ic.args[0]) + ([fc] if False else []):
                    for nx in R.calls():
                        if nx.name() == 'next' and nx.args and ic in _receiver_chain(R, nx.args[0]):
                            lp = loop_of(R, nx.bb)
                            if lp:
                                targets += [k for k in by_fn.get(R.path, []) if sites[k]['bb'] in lp[1]]
            targets = sorted(set(targets) - set(rkeys))
            if not targets:
                continue
            for k in targets:
                extra.setdefault(k, [])
                extra[k] += [c for c in pred if c not in extra[k]]
            for k in rkeys:
                folded_into.setdefault(k, set()).update(targets)
    # a site inside a closure is reached only if the enclosing function reaches the call the closure is handed to: the conditions of that
    # call are conditions of the site (`if n > 1 { xs.iter().for_each(|x| report(x)) }`)
    for fp, ks in by_fn.items():
        m = re.match(r'^(.*)::\{closure#\d+\}$', fp)
        if not m or m.group(1) not in prog.fns or fp not in prog.fns:
            continue
        parent, me = prog.fns[m.group(1)], prog.fns[fp]
        for c in parent.calls():
            if parent.blocks[c.bb].get('cleanup'):
                continue
            if any(closure_of_arg(prog, parent, a) is me for a in c.args):
                ctx = [_norm_elem(g, parent.path) for g in guard_set(prog, parent, c.bb) if not _LOOP_HAS_NEXT.match(g)]
                for k in ks:
                    extra.setdefault(k, [])
                    extra[k] += [g for g in ctx if g not in extra[k]]
                break
    return extra, folded_into


def _balanced_end(t, i):
    """index just after the parenthesis group opening at t[i] == '('"""
    depth = 0
    for j in range(i, len(t)):
        if t[j] == '(':
            depth += 1
        elif t[j] == ')':
            depth -= 1
            if depth == 0:
                return j + 1
    return len(t)


def _norm_elem(g, fn):
    """Spelling of a condition that does not depend on whether the code iterates with a `for` loop or hands a closure to an iterator
    adapter: the element of the iteration is `elem` in both (the loop variable `next(into_iter(..)) as Some.0`, the closure's parameter),
    and a projection of a tuple built on the spot is the component itself."""
    t = g
    while True:
        i = t.find('next(into_iter(')
        if i < 0:
            break
        j = _balanced_end(t, i + 4)
        if t.startswith(' as Some.0', j):
            t = t[:i] + 'elem' + t[j + len(' as Some.0'):]
        else:
            t = t[:i] + 'next_(' + t[i + 5:]
    t = t.replace('next_(', 'next(')
    if '{closure#' in fn.rsplit('::', 1)[-1]:
        t = re.sub(r'\barg2\b', 'elem', t)
    # tuple(a,b).k -> component
    while True:
        m = re.search(r'tuple\(', t)
        if not m:
            break
        j = _balanced_end(t, m.end() - 1)
        mm = re.match(r'\.(\d)\b', t[j:])
        inner = _split_args(t[m.end():j - 1])
        if mm and int(mm.group(1)) < len(inner):
            t = t[:m.start()] + inner[int(mm.group(1))] + t[j + 2:]
        else:
            t = t[:m.start()] + 'tuple_(' + t[m.end():]
    return t.replace('tuple_(', 'tuple(')


def _abstract(g, keep=2):
    """A condition with the operands of its calls kept to `keep` levels: what is tested and how stays, where a deeply nested operand comes
    from does not (the provenance of values is decided by the semantic rules of the property, not by the condition ledger)."""
    out = []
    depth = 0
    skip_from = None
    for ch in g:
        if ch == '(':
            depth += 1
            if depth == keep + 1 and skip_from is None:
                out.append('(\u2026')
                skip_from = depth
                continue
        if ch == ')':
            if skip_from is not None and depth == skip_from:
                skip_from = None
                out.append(')')
                depth -= 1
                continue
            depth -= 1
        if skip_from is None:
            out.append(ch)
    return ''.join(out)


# `for` loop bookkeeping (the iterator yielded another element): a closure handed to for_each has no such condition
_LOOP_HAS_NEXT = re.compile(r'^next\(into_iter\(.*\)\) is (Some|None)$|^next\(.*\) is not Some$')


def _effective(sites):
    """multiset (as a sorted list) of (label, effective guards) of the leaf sites: diagnostics and predicate returns, with the conditions of
    the in-scope calls that reach their function unioned in (all caller chains, depth <= 3)."""
    callers = {}
    for k, v in sites.items():
        if v.get('kind') == 'C' and v.get('callee'):
            callers.setdefault(v['callee'], []).append(v)

    def prep(g, fn):
        return _abstract(canon(_norm_elem(g, fn)))

    def up(fn, acc, depth, seen):
        """acc: conditions collected so far, as (text, in terms of the parameters of fn?) - texts from closures are not, and are carried unchanged.
        Going up through a call, the parameters are replaced by the actual arguments of that call: a test on a value and the same test on a
        parameter the value is handed to are the same condition."""
        is_closure = bool(re.search(r'::\{closure#\d+\}$', fn))
        fn = re.sub(r'(::\{closure#\d+\})+$', '', fn)
        cs = [c for c in callers.get(fn, []) if c['fn'] not in seen]
        if not cs or depth == 0:
            return [frozenset(_abstract(canon(g)) for g, _ in acc)]
        out = []
        for c in cs:
            sub = {'arg%d' % (i + 1): a for i, a in enumerate(c.get('args') or [])}
            # texts in terms of the parameters of the function being left are rewritten in terms of the caller's (and stay rewritable further
            # up); texts that come out of a closure keep their own parameter names for good
            acc2 = [((_subst_args(g, sub), True) if (own and sub and not is_closure) else (g, own and not is_closure)) for g, own in acc]
            acc2 += [(_norm_elem(g, c['fn']), True) for g in c['guards'] if not _LOOP_HAS_NEXT.match(g)]
            out += up(c['fn'], acc2, depth - 1, seen | {fn})
        return out
    ms = []
    for k, v in sites.items():
        if v.get('folded'):
            continue          # a filter predicate whose conditions are carried by the sites behind the filter
        if v.get('kind') in ('E', 'R'):
            # one entry per distinct effective condition set of the site (how many call chains lead to the same set does not matter)
            own = [(_norm_elem(g, v['fn']), True) for g in v['guards'] if not _LOOP_HAS_NEXT.match(g)]
            for eff in sorted({tuple(sorted(x)) for x in up(v['fn'], own, 10, frozenset())}):
                ms.append((_abstract(_norm_elem(v['label'], v['fn'])), eff, k))
    return sorted(ms)
