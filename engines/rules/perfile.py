"""Per-file parser / preprocessor state (shared by C06.1 and C15.3)."""
import re

from mirlib import AnchorMissing, path_matches
from helpers import vexpr, loop_of, must_pass, field_accesses, try_edges


def r_symbols_reach_preprocessor(r, prog):
    """Every symbol given with -D is defined for every file: what compile_files hands to parse_files is the set of all
    options.defined_symbols - cloned or collected, never filtered, mapped or cut (a filter that knows the preprocessor's identifier syntax
    slightly wrong - no `_` - silently drops symbols, and `#if FOO_BAR` selects the wrong lines)."""
    callers = [c for c in prog.callers_of('slicec::parsers::parse_files') if not c.fn.blocks[c.bb].get('cleanup')]
    if not callers:
        raise AnchorMissing('callers of parse_files')
    for c in callers:
        f = c.fn
        v = vexpr(f, c.args[1], depth=24)
        ok = re.match(r'^(from_iter|collect)\((clone|cloned\(iter|into_iter\(clone|iter)\(*arg\d\.defined_symbols\)*$', v) is not None
        if ok:
            r.ok('%s defines exactly the -D symbols: %s' % (f.path, v))
        else:
            r.finding('defined-symbols-altered:%s' % f.path, c.span, '%s hands %s to parse_files: not the set of all symbols given with -D (a symbol that is filtered out or rewritten is undefined in every file)' % (f.path, v[:160]))
    r.floor(1)


def r_failed_file_leaves_no_names(r, prog):
    """A file that fails to parse leaves members in the AST whose containers were dropped with the parser's stack (members are added before
    their containers are complete). Nothing may find them by name afterwards - Diagnostics::into_updated, which always runs, resolves the
    scope of every lint by name and reads the parents of what it finds (a dangling pointer for an orphan). Two things close that: the lints
    of the failed file lose their scopes, and the name table is put back as it was before that file - on every path from the has_errors
    edge to the next file."""
    pf = prog.fn('slicec::parsers::parse_files')
    parse = [k for k in pf.calls() if k.name() == 'parse_file' and not pf.blocks[k.bb].get('cleanup')]
    if len(parse) != 1 or loop_of(pf, parse[0].bb) is None:
        raise AnchorMissing('the call of parse_file inside the loop of parse_files')
    head, body = loop_of(pf, parse[0].bb)
    from helpers import branches_on_call
    errs = [b for b in branches_on_call(pf, lambda k: k.name() == 'has_errors') if pf.dominates(parse[0].bb, b['bb']) and b['bb'] in body]
    if not errs:
        r.finding('failed-file-not-detected', pf.span, 'parse_files does not test has_errors() after parsing a file')
        r.floor(1)
        return
    b = errs[0]
    for what, name in (('the lints of the failed file lose their scopes', 'clear_scopes'), ('the name table is put back as it was before the failed file', 'set_lookup_table')):
        cs = [k.bb for k in pf.calls() if k.name() == name and not pf.blocks[k.bb].get('cleanup')]
        if cs and must_pass(pf, b['true'], [head], cs, within=body):
            r.ok('after a file that failed to parse, %s (on every path to the next file)' % what)
        else:
            r.finding('failed-file-leaves-names:%s' % name, pf.span, 'after a file that failed to parse, parse_files does not call %s on every path to the next file: a lint (of this or of another file) can be resolved to a member whose container no longer exists, and reading its parent is a use after free' % name)
    r.floor(2)


def r_symbols_per_file(r, prog):
    pfs = prog.fn('slicec::parsers::parse_files')
    pf = prog.fn('slicec::parsers::parse_file')
    ins = pfs.raw.get('inputs') or []
    if len(ins) >= 2 and re.match(r"^&('\w+ )?std::collections::hash::set::HashSet<alloc::string::String>$", ins[1]):
        r.ok('parse_files holds the command-line symbols by shared reference', ins[1])
    else:
        r.finding('shared-symbols-mutable', pfs.span, 'parse_files takes the command-line symbol set as %s: a file could change it for the files parsed after it' % (ins[1] if len(ins) > 1 else '?'))
    calls = [c for c in pfs.calls() if c.resolved == pf.path]
    if len(calls) != 1:
        raise AnchorMissing('one call of parse_file in parse_files (found %d)' % len(calls))
    c = calls[0]
    sym = vexpr(pfs, c.args[3]) if len(c.args) > 3 else '?'
    if sym == 'clone(arg2)' and loop_of(pfs, c.bb) is not None:
        r.ok('every file is parsed with a fresh clone of the command-line symbols', sym)
    else:
        r.finding('symbols-not-cloned-per-file', c.span, 'parse_file receives %s as its symbol set, not a fresh clone of the command-line set made for that file' % sym)
    pins = pf.raw.get('inputs') or []
    if len(pins) >= 4 and pins[3].startswith('std::collections::hash::set::HashSet'):
        r.ok('parse_file owns its symbol set (by value)')
    else:
        r.finding('parse-file-symbols-borrowed', pf.span, 'parse_file takes its symbol set as %s' % (pins[3] if len(pins) > 3 else '?'))
    new = [x for x in pf.calls() if path_matches(x.resolved, "preprocessor::parser::Preprocessor::<'a>::new")]
    if len(new) == 1 and vexpr(pf, new[0].args[1]) == 'arg4':
        r.ok('the preprocessor of a file works on that file\'s own symbol set')
    else:
        r.finding('preprocessor-symbols-source', pf.span, 'Preprocessor::new is given %s' % ([vexpr(pf, x.args[1]) for x in new]))
    # the shared set is never written anywhere reachable from parse_files: nobody gets &mut to arg2
    for x in pfs.calls():
        for i, a in enumerate(x.args):
            if vexpr(pfs, a) == 'arg2' and x.name() not in ('clone',):
                r.finding('shared-symbols-escape:%s' % x.name(), x.span, 'parse_files passes the shared symbol set itself to %s' % x.resolved)
    r.floor(4)


def r_parsers_per_file(r, prog):
    pf = prog.fn('slicec::parsers::parse_file')
    for pat, nm in (("slice::parser::Parser::<'a>::new", 'Parser'), ("preprocessor::parser::Preprocessor::<'a>::new", 'Preprocessor')):
        cs = prog.callers_of(pat)
        cs = [c for c in cs if path_matches(c.resolved, pat)]
        if len(cs) == 1 and cs[0].fn is pf and loop_of(pf, cs[0].bb) is None:
            r.ok('%s is created once per file, inside parse_file' % nm)
        else:
            r.finding('parser-state-not-per-file:%s' % nm, pf.span, '%s::new is called from %s: parser state could survive from one file to the next' % (nm, sorted({c.fn.path for c in cs})))
    # parser state types hold only borrows and per-file values: no statics in the crate
    for c in prog.crates.values():
        if c.tag in ('slicec', 'slicec_bin'):
            for s in c.statics:
                if 'clap_builder::derive' in s['path']:
                    continue   # clap-derive's write-once cache of a default value string
                if s['mut'] or 'Cell' in s['ty'] or 'Mutex' in s['ty'] or 'Lazy' in s['ty'] or 'Once' in s['ty'] or 'Atomic' in s['ty']:
                    r.finding('global-state:%s' % s['path'], '-', 'global mutable state %s: %s' % (s['path'], s['ty']))
    # per-file diagnostics are merged on every path
    pfs = prog.fn('slicec::parsers::parse_files')
    ext = [c for c in pfs.calls() if c.name() == 'extend' and 'diagnostics' in vexpr(pfs, c.args[0])]
    call = [c for c in pfs.calls() if c.name() == 'parse_file']
    lp = loop_of(pfs, call[0].bb) if call else None
    if ext and lp and must_pass(pfs, call[0].bb, [lp[0]], [e.bb for e in ext], within=lp[1]):
        r.ok('the diagnostics of every file are merged into the compilation diagnostics')
    else:
        r.finding('file-diagnostics-dropped', pfs.span, 'parse_files does not extend the compilation diagnostics with every file\'s diagnostics')
    r.floor(3)


def r_results_attached_to_own_file(r, prog):
    pf = prog.fn('slicec::parsers::parse_file')
    wanted = {'attributes': 0, 'module': 1, 'contents': 2}
    ws = {}
    for bb, j, lhs, rv, s in pf.assigns():
        if lhs['l'] == 1:
            names = [x.get('n') for x in lhs.get('p', []) if isinstance(x, dict) and 'f' in x]
            if names and names[-1] in wanted and not pf.blocks[bb].get('cleanup'):
                ws[names[-1]] = vexpr(pf, rv['a']) if rv['k'] == 'use' else '?'
    for c in pf.calls():
        if c.dest is not None and c.dest['l'] == 1 and not pf.blocks[c.bb].get('cleanup'):
            names = [x.get('n') for x in c.dest.get('p', []) if isinstance(x, dict) and 'f' in x]
            if names and names[-1] in wanted:
                ws[names[-1]] = vexpr(pf, {'cp': c.dest}) if False else '%s(%s)' % (c.name(), ','.join(vexpr(pf, a) for a in c.args))
    for fld, idx in wanted.items():
        ex = ws.get(fld)
        if ex and re.search(r'parse_slice_file\(.*\) as Continue\.0\.%d|parse_slice_file\(.*\)( as Ok\.0)?\.%d' % (idx, idx), ex.replace(' as Continue.0', ' as Continue.0')) or (ex and ('.%d' % idx) in ex and 'parse_slice_file(' in ex):
            r.ok('file.%s := element %d of this file\'s parse result' % (fld, idx))
        else:
            r.finding('parse-result-misattached:%s' % fld, pf.span, 'file.%s is assigned %s, not element %d of the result of parsing this file' % (fld, (ex or 'nothing')[:80], idx))
    # ... on every path that follows a successful parse (a file without a module still has attributes)
    ps2 = [c for c in pf.calls() if c.name() == 'parse_slice_file']
    stores = {}
    for bb, j, lhs, rv, s in pf.assigns():
        if lhs['l'] == 1 and not pf.blocks[bb].get('cleanup'):
            names = [x.get('n') for x in lhs.get('p', []) if isinstance(x, dict) and 'f' in x]
            if names and names[-1] in wanted:
                stores.setdefault(names[-1], []).append(bb)
    for c in pf.calls():
        if c.dest is not None and c.dest['l'] == 1 and not pf.blocks[c.bb].get('cleanup'):
            names = [x.get('n') for x in c.dest.get('p', []) if isinstance(x, dict) and 'f' in x]
            if names and names[-1] in wanted:
                stores.setdefault(names[-1], []).append(c.target if c.target is not None else c.bb)
    if len(ps2) == 2:
        edges = [(b, ok, err) for b, ok, err in try_edges(pf, ps2[1]) if ok != err]
        rets = [i for i, blk in enumerate(pf.blocks) if blk['t']['k'] == 'return']
        if not edges:
            raise AnchorMissing('the success test of the Slice parser result in parse_file')
        for fld in wanted:
            if stores.get(fld) and all(must_pass(pf, ok, rets, stores[fld]) for b, ok, err in edges):
                r.ok('file.%s is stored on every path that follows a successful parse' % fld)
            else:
                r.finding('parse-result-not-stored:%s' % fld, pf.span, 'after a successful parse there is a path to the end of parse_file that does not store file.%s' % fld)
    # the text parsed is the file's own raw_text, preprocessed
    ps = [c for c in pf.calls() if c.name() == 'parse_slice_file']
    if len(ps) == 2:
        a = vexpr(pf, ps[0].args[1])
        b = vexpr(pf, ps[1].args[1])
        if 'arg1.raw_text' in a and 'parse_slice_file(' in b and 'arg1.raw_text' in b:
            r.ok('the parser consumes the preprocessed raw_text of the same file')
        else:
            r.finding('parse-input-source', pf.span, 'preprocessor input is %s, parser input is %s' % (a[:60], b[:60]))
    else:
        raise AnchorMissing('two parse_slice_file calls in parse_file')
    r.floor(7)
