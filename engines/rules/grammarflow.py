"""E3 composition: what every expanded production of a LALRPOP grammar builds, in terms of the production's own symbols.
production symbols --(generated wrapper actions, genparser.Actions)--> arguments of the grammar author's action
 --(MIR of the action: vexpr)--> arguments of the helper it calls --(MIR of the helper)--> fields of the element built."""
import re

from mirlib import AnchorMissing
from helpers import vexpr, aggregates
import genparser


def sym_names(syms):
    """occurrence-indexed names: ['TypeRef#1', '","#1', 'TypeRef#2']"""
    cnt = {}
    out = []
    for s in syms:
        cnt[s] = cnt.get(s, 0) + 1
        out.append('%s#%d' % (s, cnt[s]))
    return out


def render(v, names):
    k = v[0]
    if k == 'S':
        return names[v[1]]
    if k == 'some':
        return 'Some(%s)' % render(v[1], names)
    if k == 'none':
        return 'None'
    if k == 'list':
        return '[%s]' % ', '.join(render(x, names) for x in v[1])
    if k == 'push':
        return 'push(%s, %s)' % (render(v[1], names), render(v[2], names))
    if k == 'at':
        return '%s(%s)' % ('start' if v[1][2] == 's' else 'end', names[v[1][1]])
    if k == 'pair':
        return '(%s, %s)' % (render(v[1], names), render(v[2], names))
    if k == 'here':
        return '@' + v[1]
    if k == 'U':
        return 'A%d(%s)' % (v[1], ', '.join(render(x, names) for x in v[2]))
    raise AnchorMissing('value %r' % (v,))


def subst(expr, mapping):
    """replace argN (whole word) in a vexpr string"""
    def rep(m):
        n = int(m.group(1))
        return mapping.get(n, m.group(0))
    return re.sub(r'\barg(\d+)\b', rep, expr)


class Flow:
    def __init__(self, prog, facts_dir, grammar, module, first='parser'):
        self.prog = prog
        self.gen = genparser.Gen(facts_dir, grammar)
        self.acts = genparser.Actions(self.gen)
        self.module = module
        self.first = first

    def action_fn(self, n):
        return genparser.action_fn(self.prog, self.module, n)

    def top(self, p):
        """(value, names) of production p"""
        return self.acts.production_value(p), sym_names(p['syms'])

    def arg_map(self, v, names):
        """mapping MIR argument number of the user action -> rendered symbol expression (arg K+2 is the triple of the K-th value)"""
        m = {1: self.first}
        for i, a in enumerate(v[2]):
            m[i + 2] = '«' + render(a, names) + '»'
        return m

    def compose(self, f, expr, v, names):
        """expr: vexpr string over the arguments of user action f"""
        m = self.arg_map(v, names)
        s = subst(expr, m)
        # the value of a symbol triple is its middle component
        s = re.sub(r'«([^«»]*)»\.1\b', r'\1', s)
        return s

    def meaning(self, p, depth=14):
        """the composed return expression of production p, or the plain value when no author action is involved"""
        v, names = self.top(p)
        if v[0] != 'U':
            return render(v, names)
        f = self.action_fn(v[1])
        return self.compose(f, vexpr(f, {'cp': {'l': 0}}, depth=depth), v, names)

    def calls(self, p, depth=14):
        """[(callee name, resolved fn or None, [composed args])] made by the author action of production p (non-cleanup)"""
        v, names = self.top(p)
        if v[0] != 'U':
            return []
        f = self.action_fn(v[1])
        out = []
        for c in f.calls():
            if f.blocks[c.bb].get('cleanup'):
                continue
            callee = self.prog.fns.get(c.f.get('res') or '') if c.f.get('res') else None
            out.append((c.name(), callee, [self.compose(f, vexpr(f, a, depth=depth), v, names) for a in c.args], c))
        return out

    def built(self, p, adt, depth=14):
        """fields of the `adt` aggregate(s) built for production p, composed down to production symbols: looks in the author
        action and in the functions it calls directly. -> list of (variant, {field: expr}, fn, span)"""
        v, names = self.top(p)
        if v[0] != 'U':
            return []
        f = self.action_fn(v[1])
        out = []
        for a in aggregates(self.prog, adt, crates=('slicec',)):
            if a['fn'] is f and not f.blocks[a['bb']].get('cleanup'):
                flds = dict(zip(a['rv'].get('fn') or [], [self.compose(f, vexpr(f, o, depth=depth), v, names) for o in a['rv']['ops']]))
                out.append((a['rv'].get('v'), flds, f, a['span']))
        for name, callee, args, c in self.calls(p, depth):
            if callee is None or callee.crate.tag != 'slicec':
                continue
            for a in aggregates(self.prog, adt, crates=('slicec',)):
                if a['fn'] is callee and not callee.blocks[a['bb']].get('cleanup'):
                    m = {i + 1: '«' + x + '»' for i, x in enumerate(args)}
                    flds = {}
                    for fn_, o in zip(a['rv'].get('fn') or [], a['rv']['ops']):
                        s = subst(vexpr(callee, o, depth=depth), m)
                        s = re.sub(r'«([^«»]*)»', r'\1', s)
                        flds[fn_] = s
                    out.append((a['rv'].get('v'), flds, callee, a['span']))
        return out
