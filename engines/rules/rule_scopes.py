"""Scopes of the rule-precondition ledgers."""


def guards_validators(f):
    p = f.path
    fl = f.span.file or ''
    return (fl.startswith('slicec/src/validators/') or fl.startswith('slicec/src/grammar/attributes/')) and not f.generated


def guards_parser_rules(f):
    fl = f.span.file or ''
    # unescape_string_literal and its closure are not a language rule (they report nothing): what they compute is decided by rule C02.8c
    return fl in ('slicec/src/parsers/slice/grammar.rs', 'slicec/src/parsers/mod.rs', 'slicec/src/patchers/mod.rs', 'slicec/src/patchers/type_ref_patcher.rs') and not f.generated \
        and '::unescape_string_literal' not in f.path


def guards_type_patcher(f):
    return (f.span.file or '') == 'slicec/src/patchers/type_ref_patcher.rs' and not f.generated


def guards_preprocessor(f):
    return (f.span.file or '') == 'slicec/src/parsers/preprocessor/grammar.rs' and not f.generated


guards_preprocessor.all_returns = True
guards_preprocessor.extra_calls = ('insert', 'remove', 'push', 'process_nodes', 'unwrap_or_default')


def guards_slice_grammar(f):
    return (f.span.file or '') == 'slicec/src/parsers/slice/grammar.rs' and not f.generated


guards_slice_grammar.all_returns = True
guards_slice_grammar.extra_calls = ('push', 'insert', 'retain', 'replace', 'from_str_radix', 'add_named_element', 'add_element', 'push_into', 'contains')


def guards_snippet(f):
    return (f.span.file or '') == 'slicec/src/slice_file.rs' and ('get_snippet' in f.path or 'get_highlight' in f.path)


guards_snippet.all_returns = True
guards_snippet.extra_calls = ('take', 'skip', 'repeat', 'get_highlight', 'count', 'replace', 'filter')


def guards_request(f):
    return (f.span.file or '') == 'slicec/src/main.rs' and any(x in f.path for x in ('encode_generate_code_request', 'spawn_plugin_process'))


guards_request.all_returns = True
guards_request.crates = ('slicec_bin',)
guards_request.extra_calls = ('encode', 'push', 'write_all', 'from')


def guards_converter(f):
    return (f.span.file or '') == 'slicec/src/slice_file_converter.rs'


guards_converter.all_returns = True
guards_converter.crates = ('slicec_bin',)
guards_converter.extra_calls = ('push', 'find', 'map', 'unwrap')


def _lexer_scope(path):
    def scope(f):
        return (f.span.file or '') == path and not f.generated
    scope.all_returns = True
    scope.extra_calls = ('advance_buffer', 'advance_to_end_of_line', 'skip_whitespace', 'skip_inline_whitespace', 'read_alphanumeric', 'read_identifier', 'read_string_literal',
                         'read_line_comment', 'consume_block_comment', 'check_if_keyword', 'return_simple_token', 'read_tag_keyword', 'lex_message', 'lex_tag_component',
                         'lex_next_slice_token', 'lex_next_preprocessor_token', 'switch_to_next_line', 'create_source_block_token')
    return scope


guards_slice_lexer = _lexer_scope('slicec/src/parsers/slice/lexer.rs')
guards_comment_lexer = _lexer_scope('slicec/src/parsers/comments/lexer.rs')
guards_preprocessor_lexer = _lexer_scope('slicec/src/parsers/preprocessor/lexer.rs')


def _codec_scope(files):
    def scope(f):
        return (f.span.file or '') in files
    scope.all_returns = True
    scope.crates = ('slice_codec',)
    scope.extra_calls = ('write_byte', 'write_bytes_exact', 'write_bytes_into_reserved_exact', 'reserve_space', 'read_byte', 'read_bytes_exact', 'read_bytes_into_exact', 'peek_byte',
                         'peek_bytes_exact', 'try_reserve', 'try_reserve_exact', 'set_len', 'does_buffer_have_at_least', 'ensure_buffer_has_at_least', 'encode_varint', 'encode_varuint',
                         'encode_size', 'decode_varint', 'decode_varuint', 'decode_size', 'skip_tagged_fields', 'copy_nonoverlapping', 'get_unchecked', 'get_unchecked_mut', 'from_utf8', 'insert')
    return scope


guards_codec_encode = _codec_scope(('slice-codec/src/encoding.rs', 'slice-codec/src/encode_into.rs', 'slice-codec/src/encoder.rs'))
guards_codec_decode = _codec_scope(('slice-codec/src/decoding.rs', 'slice-codec/src/decode_from.rs', 'slice-codec/src/decoder.rs'))
guards_codec_buffer = _codec_scope(('slice-codec/src/buffer/mod.rs', 'slice-codec/src/buffer/slice.rs', 'slice-codec/src/buffer/vec.rs'))


def guards_parser_entry(f):
    return (f.span.file or '') in ('slicec/src/parsers/comments/parser.rs', 'slicec/src/parsers/preprocessor/parser.rs', 'slicec/src/parsers/slice/parser.rs', 'slicec/src/parsers/mod.rs') and not f.generated


guards_parser_entry.all_returns = True
guards_parser_entry.extra_calls = ('parse', 'push_into', 'parse_slice_file', 'parse_doc_comment', 'add_named_element', 'extend')


def guards_plugin_parser(f):
    return (f.span.file or '') == 'slicec/src/slice_options.rs' and 'plugin_parser' in f.path


guards_plugin_parser.all_returns = True
guards_plugin_parser.extra_calls = ('push', 'push_str', 'pop', 'next', 'peek', 'last_mut', 'trim', 'to_owned', 'is_empty', 'insert', 'remove', 'retain', 'ends_with', 'starts_with')
