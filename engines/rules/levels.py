"""Kind/level agreement of diagnostics (shared by C07.4c, C13.1, C14): a diagnostic has level Error iff it is an
Error kind; lint levels only ever move to Allowed."""
from mirlib import AnchorMissing, path_matches, op_place
import re

from helpers import aggregates, enum_switches, edge_region, field_accesses, origin_calls, vexpr

DL = 'slicec::diagnostics::diagnostic::DiagnosticLevel'
DK = 'slicec::diagnostics::diagnostic::DiagnosticKind'
DIAG = 'slicec::diagnostics::diagnostic::Diagnostic'


def r_level_error_only_for_error_kind(r, prog):
    new = prog.fn(DIAG + '::new')
    sws = enum_switches(new, DK)
    if not sws:
        raise AnchorMissing('match on DiagnosticKind in Diagnostic::new')
    sw = sws[0]
    kinds = [v['n'] for v in prog.adts[DK]['variants']]
    err_region = edge_region(new, sw['bb'], sw['arms'][kinds.index('Error')])
    n = 0
    for a in aggregates(prog, DL, 'Error', crates=('slicec',)):
        n += 1
        if a['fn'] is new and a['bb'] in err_region:
            r.ok('DiagnosticLevel::Error built in Diagnostic::new under the Error-kind arm', a['span'])
        else:
            r.finding('level-error-built-elsewhere:%s' % a['fn'].path, a['span'],
                      'DiagnosticLevel::Error is produced in %s, outside the Error-kind arm of Diagnostic::new: a lint could carry level Error '
                      '(exit status non-zero) while has_errors(), which looks at the kind, lets generators run' % a['fn'].path)
    if n == 0:
        r.finding('no-error-level', new.span, 'Diagnostic::new never assigns DiagnosticLevel::Error')
    # the lint arm takes its level from get_default_level
    lint_region = edge_region(new, sw['bb'], sw['arms'][kinds.index('Lint')])
    gdl = [c for c in new.calls() if c.name() == 'get_default_level' and c.bb in lint_region]
    if gdl:
        r.ok('lint level = Lint::get_default_level()', gdl[0].span)
    else:
        r.finding('lint-level-source', new.span, 'the Lint arm of Diagnostic::new does not take the level from get_default_level()')
    # no promoted / constant DiagnosticLevel values are copied into the level field anywhere
    for acc in field_accesses(prog, DIAG, 'level', crates=('slicec',)):
        if acc['kind'] == 'init':
            f = acc['fn']
            if f is not new:
                r.finding('diagnostic-built-outside-new:%s' % f.path, acc['span'], 'a Diagnostic is constructed outside Diagnostic::new in %s' % f.path)
    r.floor(2)


def r_level_writers(r, prog):
    """Diagnostic.level is written only by Diagnostic::new (initialisation) and in into_updated, there only with Allowed and only
    inside the DiagnosticKind::Lint arm."""
    upd = prog.fn('slicec::diagnostics::diagnostic::Diagnostics::into_updated')
    kinds = [v['n'] for v in prog.adts[DK]['variants']]
    sws = enum_switches(upd, DK)
    lint_region = set()
    for sw in sws:
        if kinds.index('Lint') in sw['arms']:
            lint_region |= edge_region(upd, sw['bb'], sw['arms'][kinds.index('Lint')])
    n = 0
    for acc in field_accesses(prog, DIAG, 'level', crates=('slicec', 'slicec_bin')):
        if acc['kind'] not in ('write', 'refmut'):
            continue
        n += 1
        f = acc['fn']
        if f is upd and acc['kind'] == 'write' and acc['bb'] in lint_region:
            # value written must be Allowed
            vals = []
            for s in upd.blocks[acc['bb']]['s']:
                if 'lhs' in s and any(isinstance(x, dict) and x.get('n') == 'level' for x in s['lhs'].get('p', [])):
                    rv = s['rv']
                    if rv['k'] == 'agg' and path_matches(rv.get('adt'), DL):
                        vals.append(rv['v'])
                    else:
                        m = re.match(r'^DiagnosticLevel::(\w+)\{\}$', vexpr(upd, rv.get('a')) if rv['k'] == 'use' else '')
                        vals.append(m.group(1) if m else '?')
            if vals and all(v == 'Allowed' for v in vals):
                r.ok('into_updated: level := Allowed inside the Lint arm', acc['span'])
            else:
                r.finding('level-rewritten-to:%s' % ','.join(vals), acc['span'], 'into_updated assigns level %s (only Allowed may be assigned)' % vals)
        elif f is upd:
            r.finding('level-written-outside-lint-arm', acc['span'], 'into_updated writes Diagnostic.level outside the DiagnosticKind::Lint arm: an error could be demoted')
        else:
            r.finding('level-written-in:%s' % f.path, acc['span'], 'Diagnostic.level is written in %s (only Diagnostic::new and into_updated may)' % f.path)
    r.floor(3, 'writes of Diagnostic.level')
