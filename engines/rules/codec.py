"""Rules over slice-codec shared by C10, C11, C12: unsafe-site ledger (check-before-unchecked), failure atomicity,
reservations, strictness producers, varint tables."""
import re

from mirlib import AnchorMissing, op_place, path_matches, is_bare, place_projs, const_int
from helpers import (store_overlay, body_calls, closures_of, vexpr, try_edges, ok_dominates, must_pass, branches_on_call, bool_branches, enum_switches, edge_region,
                     aggregates, field_accesses, arm, origin_calls)

SI = "slice_codec::buffer::slice::SliceInputSource<'_> as slice_codec::buffer::InputSource>::"
SO = "slice_codec::buffer::slice::SliceOutputTarget<'_> as slice_codec::buffer::OutputTarget>::"
VO = "slice_codec::buffer::vec::VecOutputTarget<'_> as slice_codec::buffer::OutputTarget>::"
SII = "slice_codec::buffer::slice::SliceInputSource::<'a>::"


def ADD(a, b):
    return 'Add(%s,%s)' % tuple(sorted([a, b]))


# (function suffix, unsafe callee name, ordinal) -> dict(guard, G (expected guard size or None=any), expect: {arg index: expr with {G}})
UNSAFE_SITES = [
    dict(fn='<' + SI + 'peek_byte', op='get_unchecked', guard='@remaining', G='1', expect={1: 'arg1.pos'},
         why='one byte at pos after checking that at least one byte remains'),
    dict(fn=SII + 'peek_byte_slice_exact_impl', op='get_unchecked', guard='@remaining', G=None,
         expect={0: 'arg1.buffer', 1: 'Range::Range{start:arg1.pos,end:ADD(arg1.pos,{G})}'}, why='pos..pos+count after checking count bytes remain'),
    dict(fn=SII + 'peek_bytes_exact_impl', op='unwrap_unchecked', guard='peek_byte_slice_exact_impl', G='const<usize>',
         expect={0: 'try_into(peek_byte_slice_exact_impl(arg1,const<usize>) as Continue.0)'}, why='slice of exactly N bytes converted to &[u8; N] (same const generic N)'),
    dict(fn='<' + SI + 'read_bytes_into_exact', op='copy_nonoverlapping', guard='read_byte_slice_exact', G='len(arg2)',
         expect={0: 'as_ptr(read_byte_slice_exact(arg1,len(arg2)) as Continue.0)', 1: 'as_mut_ptr(arg2)', 2: '{G}'}, why='copies dst.len() bytes from a source slice of exactly dst.len() bytes'),
    dict(fn='<' + SO + 'write_byte', op='get_unchecked_mut', guard='@remaining', G='1', expect={0: 'arg1.buffer', 1: 'arg1.pos'},
         why='one byte at pos after checking that at least one byte of space remains'),
    dict(fn='<' + SO + 'write_bytes_exact', op='get_unchecked_mut', guard='@remaining', G='len(arg2)',
         expect={0: 'arg1.buffer', 1: 'Range::Range{start:arg1.pos,end:ADD(arg1.pos,{G})}'}, why='pos..pos+len after checking len bytes of space remain'),
    dict(fn='<' + SO + 'write_bytes_exact', op='copy_nonoverlapping', guard='@remaining', G='len(arg2)',
         expect={0: 'as_ptr(arg2)', 1: 'as_mut_ptr(get_unchecked_mut(arg1.buffer,Range::Range{start:arg1.pos,end:ADD(arg1.pos,{G})}))', 2: '{G}'},
         why='copies len bytes into the checked target range of the same length'),
    dict(fn='<' + SO + 'write_bytes_into_reserved_exact', op='copy_nonoverlapping', guard='get_mut', G='range(arg2)',
         expect={0: 'as_ptr(arg3)', 1: 'as_mut_ptr(get_mut(arg1.buffer,range(arg2)) as Some.0)', 2: 'len(arg3)'}, lt_guard=('len(get_mut(arg1.buffer,range(arg2)) as Some.0)', 'len(arg3)'),
         why='copies into the reservation\'s own slice after checking it is at least as long as the bytes'),
    dict(fn='<' + VO + 'write_byte', op='get_unchecked_mut', guard='@reserve', G='1', expect={0: 'spare_capacity_mut(arg1.buffer)', 1: '0'},
         why='first spare byte after ensuring one byte of capacity'),
    dict(fn='<' + VO + 'write_byte', op='set_len', guard='@reserve', G='1', expect={0: 'arg1.buffer', 1: 'ADD({G},len(arg1.buffer))'},
         why='length grows by exactly the one byte written'),
    dict(fn='<' + VO + 'write_bytes_exact', op='get_unchecked_mut', guard='@reserve', G='len(arg2)',
         expect={0: 'spare_capacity_mut(arg1.buffer)', 1: 'RangeTo::RangeTo{end:{G}}'}, why='first len spare bytes after ensuring len bytes of capacity'),
    dict(fn='<' + VO + 'write_bytes_exact', op='copy_nonoverlapping', guard='@reserve', G='len(arg2)',
         expect={1: 'as_mut_ptr(get_unchecked_mut(spare_capacity_mut(arg1.buffer),RangeTo::RangeTo{end:{G}}))', 2: '{G}'}, why='copies len bytes into the ensured spare capacity'),
    dict(fn='<' + VO + 'write_bytes_exact', op='set_len', guard='@reserve', G='len(arg2)', expect={0: 'arg1.buffer', 1: 'ADD({G},len(arg1.buffer))'},
         why='length grows by exactly the bytes copied'),
    dict(fn='<' + VO + 'write_bytes_into_reserved_exact', op='copy_nonoverlapping', guard='get_mut', G='range(arg2)',
         expect={0: 'as_ptr(arg3)', 1: 'as_mut_ptr(get_mut(arg1.buffer,range(arg2)) as Some.0)', 2: 'len(arg3)'}, lt_guard=('len(get_mut(arg1.buffer,range(arg2)) as Some.0)', 'len(arg3)'),
         why='copies into the reservation\'s own slice after checking it is at least as long as the bytes'),
    dict(fn='<' + VO + 'reserve_space', op='add', guard='@reserve', G='arg2', expect={0: 'as_mut_ptr(arg1.buffer)', 1: 'len(arg1.buffer)'},
         why='pointer to the first spare byte'),
    dict(fn='<' + VO + 'reserve_space', op='write_bytes', guard='@reserve', G='arg2',
         expect={0: 'add(as_mut_ptr(arg1.buffer),len(arg1.buffer))', 1: '0', 2: '{G}'}, why='zeroes exactly the ensured count of spare bytes'),
    dict(fn='<' + VO + 'reserve_space', op='set_len', guard='@reserve', G='arg2', expect={0: 'arg1.buffer', 1: 'ADD({G},len(arg1.buffer))'},
         why='length grows by exactly the zeroed count'),
    dict(fn='slice_codec::decoding::<impl slice_codec::decode_from::DecodeFrom for alloc::string::String>::decode_from', op='set_len', guard='read_bytes_into_exact',
         G='spare_capacity_mut(new())', guard2=('try_reserve_exact', 'decode_varuint(arg1) as Continue.0'), expect={0: 'new()', 1: 'decode_varuint(arg1) as Continue.0'},
         why='length set to the reserved length after the whole spare capacity was filled from the input'),
]
UNREACHABLE_SITES = ['slice_codec::decoding::<impl slice_codec::decoder::Decoder<I>>::decode_varint', 'slice_codec::decoding::<impl slice_codec::decoder::Decoder<I>>::decode_varuint']
TRANSMUTES = {
    ('<' + VO + 'write_bytes_exact', '&[u8]', '&[core::mem::maybe_uninit::MaybeUninit<u8>]'): 'initialised bytes viewed as MaybeUninit<u8> (same layout, weaker invariant)',
    ('slice_codec::decoding::<impl slice_codec::decode_from::DecodeFrom for alloc::string::String>::decode_from', '&mut [core::mem::maybe_uninit::MaybeUninit<u8>]', '&mut [u8]'):
        'spare capacity viewed as bytes only to be overwritten completely by read_bytes_into_exact before set_len',
}


def unsafe_calls(prog, crate='slice_codec'):
    out = []
    for f in prog.fns.values():
        if f.crate.tag != crate:
            continue
        for c in f.calls():
            if c.f.get('unsafe') and not c.span.expn:
                out.append(c)
    return out


def _subst(pattern, G):
    s = pattern.replace('{G}', G)
    # ADD(a,b) -> canonical
    while 'ADD(' in s:
        i = s.index('ADD(')
        depth = 0
        j = i + 4
        parts = []
        start = j
        while True:
            ch = s[j]
            if ch == '(':
                depth += 1
            elif ch == ')':
                if depth == 0:
                    parts.append(s[start:j])
                    break
                depth -= 1
            elif ch == ',' and depth == 0:
                parts.append(s[start:j])
                start = j + 1
            j += 1
        s = s[:i] + ADD(parts[0], parts[1]) + s[j + 1:]
    return s


def bounds_guards(prog):
    """The private capacity checks of the buffer types, found by what they do rather than by their names. Returns name -> kind:
    'remaining': a two-parameter function returning Result<()> that builds UnexpectedEob{requested: its argument} exactly under
                 remaining(self) < argument (and is Ok otherwise);
    'reserve':   a two-parameter function returning Result<()> whose result is buffer.try_reserve(argument) with the error mapped."""
    if getattr(prog, '_bounds_guards', None) is not None:
        return prog._bounds_guards
    import guards as _g
    out = {}
    for f in prog.fns.values():
        if f.crate.tag != 'slice_codec' or not f.path.startswith('slice_codec::buffer::') or '{closure' in f.path or f.argc != 2:
            continue
        if not (f.raw.get('output') or '').startswith('core::result::Result<()'):
            continue
        eobs = [a for a in aggregates(prog, 'slice_codec::error::ErrorKind', 'UnexpectedEob', crates=('slice_codec',)) if a['fn'] is f]
        if eobs and all(_g.canon('Lt(remaining(arg1),arg2)') in [_g.canon(x) for x in _g.guard_set(prog, f, a['bb'])]
                        and vexpr(f, {'cp': a['lhs']}).startswith('ErrorKind::UnexpectedEob{requested:arg2,') for a in eobs):
            out[f.name] = 'remaining'
            continue
        tr = [c for c in f.calls() if c.name() == 'try_reserve' and not f.blocks[c.bb].get('cleanup')]
        ret = vexpr(f, {'cp': {'l': 0}}, depth=6)
        if len(tr) == 1 and [vexpr(f, a) for a in tr[0].args] == ['arg1.buffer', 'arg2'] and re.match(r'^map_err\(try_reserve\(arg1\.buffer,arg2\),', ret):
            out[f.name] = 'reserve'
    prog._bounds_guards = out
    return out


def _is_guard(prog, name, want):
    """want: '@remaining' / '@reserve' (a capacity check of that kind, whatever it is called) or a plain function name"""
    if want.startswith('@'):
        return bounds_guards(prog).get(name) == want[1:]
    return name == want


def r_unsafe_sites(r, prog):
    calls = unsafe_calls(prog)
    used = set()
    for c in calls:
        f = c.fn
        nm = c.name()
        if nm == 'unreachable_unchecked':
            continue
        cands = [i for i, e in enumerate(UNSAFE_SITES) if f.path == e['fn'] and e['op'] == nm and i not in used]
        if not cands:
            r.finding('unlisted-unsafe-op:%s:%s' % (f.path, nm), c.span,
                      'unsafe operation %s in %s is not in the unsafe-site table: nothing shows that a bounds / capacity check of the same size dominates it' % (c.callee, f.path))
            continue
        e = UNSAFE_SITES[cands[0]]
        used.add(cands[0])
        key = '%s:%s' % (f.path, nm)
        guards = [g for g in f.calls() if _is_guard(prog, g.name(), e['guard']) and g is not c]
        good = None
        problems = []
        for g in guards:
            gsize = vexpr(f, g.args[-1]) if g.args else ''
            if e['G'] is not None and gsize != _subst(e['G'], ''):
                problems.append('guard %s is given %s, expected %s' % (e['guard'], gsize, e['G']))
                continue
            if not ok_dominates(f, g, c.bb):
                problems.append('the success edge of %s does not dominate the operation' % e['guard'])
                continue
            G = gsize
            bad = []
            for idx, pat in e['expect'].items():
                got = vexpr(f, c.args[idx])
                want = _subst(pat, G)
                if got != want:
                    bad.append('argument %d is %s, expected %s' % (idx, got, want))
            if bad:
                problems += bad
                continue
            if 'guard2' in e:
                g2n, g2a = e['guard2']
                g2 = [x for x in f.calls() if x.name() == g2n and vexpr(f, x.args[-1]) == g2a and ok_dominates(f, x, c.bb)]
                if not g2:
                    problems.append('no dominating successful %s(%s)' % (g2n, g2a))
                    continue
            if 'lt_guard' in e:
                a, b = e['lt_guard']
                ok = False
                for bb, p, ts, fs in bool_branches(f):
                    if p is None or not is_bare(p):
                        continue
                    for d in f.defs_of(p['l']):
                        if d[0] == 'assign' and d[3]['k'] == 'bin' and d[3]['op'] == 'Lt' and vexpr(f, d[3]['a']) == a and vexpr(f, d[3]['b']) == b:
                            if f.edge_dominates(bb, fs, c.bb):
                                ok = True
                if not ok:
                    problems.append('not dominated by the "reservation is long enough" edge (%s < %s is false)' % (a, b))
                    continue
            good = g
            break
        if good is not None:
            r.ok(key, e['why'])
        else:
            r.finding('unchecked-op-not-guarded:%s' % key, c.span,
                      'unsafe %s in %s is not dominated by the matching check: %s' % (nm, f.path, '; '.join(problems) or 'no call of %s' % e['guard']))
    for i, e in enumerate(UNSAFE_SITES):
        if i not in used:
            r.note('table line not matched (site removed?): %s %s' % (e['fn'], e['op']))
    # unreachable_unchecked: otherwise-edge of a switch on (x & 3) with explicit targets 0..3
    for fp in UNREACHABLE_SITES:
        f = prog.fn(fp)
        for c in f.calls():
            if c.name() != 'unreachable_unchecked':
                continue
            ok = False
            for i, blk in enumerate(f.blocks):
                t = blk['t']
                if t['k'] == 'switch' and t['else'] == c.bb:
                    vals = sorted(int(v) for v, _ in t['ts'])
                    ex = vexpr(f, t['d'])
                    if vals == [0, 1, 2, 3] and re.match(r'^BitAnd\(3,.*\)$|^BitAnd\(.*,3\)$', ex):
                        preds = [p for p in range(len(f.blocks)) if c.bb in f.succs(p)]
                        if preds == [i]:
                            ok = True
            if ok:
                r.ok('%s:unreachable_unchecked' % f.path, 'otherwise-edge of a switch over (byte & 3) with explicit arms 0,1,2,3')
            else:
                r.finding('unreachable-unchecked-reachable:%s' % f.path, c.span, 'unreachable_unchecked() is not the otherwise-edge of an exhaustive switch over a value masked with 3')
    for c in calls:
        if c.name() == 'unreachable_unchecked' and c.fn.path not in UNREACHABLE_SITES:
            r.finding('unlisted-unsafe-op:%s:unreachable_unchecked' % c.fn.path, c.span, 'unreachable_unchecked in %s is not in the table' % c.fn.path)
    # transmutes
    for f in prog.fns.values():
        if f.crate.tag != 'slice_codec':
            continue
        for bb, j, lhs, rv, s in f.assigns():
            if rv['k'] == 'cast' and rv['ck'] == 'Transmute' and not f.span_of(s.get('sp')).expn:
                k = (f.path, rv['from'], rv['ty'])
                if k in TRANSMUTES:
                    r.ok('%s:transmute' % f.path, TRANSMUTES[k])
                else:
                    r.finding('unlisted-transmute:%s:%s->%s' % k, f.span_of(s.get('sp')), 'transmute %s -> %s in %s is not in the table' % (rv['from'], rv['ty'], f.path))
    r.floor(22, 'unsafe sites')


# --------------------------------------------------------------------------- C12: failure leaves no trace
def _self_writes(f):
    """(bb, what) for every write through self: field assignment, set_len / raw copy calls."""
    out = []
    for bb, j, s in f.stmts():
        if 'lhs' in s and s['lhs']['l'] == 1 and any(isinstance(x, dict) and 'f' in x for x in place_projs(s['lhs'])):
            names = [x.get('n') for x in place_projs(s['lhs']) if isinstance(x, dict) and 'f' in x]
            out.append((bb, 'self.%s =' % '.'.join(n or '?' for n in names)))
    for c in f.calls():
        if c.name() in ('set_len', 'copy_nonoverlapping', 'write_bytes', 'write', 'push', 'extend_from_slice', 'truncate', 'clear'):
            out.append((c.bb, c.name() + '()'))
        if c.dest is not None and c.dest['l'] == 1 and place_projs(c.dest):
            out.append((c.bb, 'call result stored in self'))
    # writes through a reference to another parameter (the reservation)
    for bb, j, s in f.stmts():
        if 'lhs' in s and 2 <= s['lhs']['l'] <= f.argc and '*' in place_projs(s['lhs']):
            out.append((bb, 'write through parameter %s' % (f.local_name(s['lhs']['l']) or s['lhs']['l'])))
    return out


def err_return_blocks(f):
    """Blocks that produce an Err result: from_residual calls and Err aggregates assigned to the return place."""
    out = set()
    for c in f.calls():
        if c.name() == 'from_residual' and c.dest is not None and c.dest['l'] == 0:
            out.add(c.bb)
    for bb, j, lhs, rv, s in f.assigns():
        if lhs['l'] == 0 and rv['k'] == 'agg' and rv.get('ak') == 'adt' and rv['adt'].endswith('result::Result') and rv['v'] == 'Err':
            out.add(bb)
    return out


def io_methods(prog):
    out = []
    for tr in ('slice_codec::buffer::InputSource', 'slice_codec::buffer::OutputTarget'):
        for i in prog.impls_of(tr):
            for m in i['methods']:
                if m['path'] in prog.fns:
                    out.append(prog.fns[m['path']])
    out += [f for f in prog.fns.values() if f.crate.tag == 'slice_codec' and re.search(r'::(peek_\w+_impl)$', f.path) or (f.path.startswith('slice_codec::buffer::') and bounds_guards(prog).get(f.name) == 'remaining' and '{closure' not in f.path)]
    return out


def r_failure_leaves_no_trace(r, prog):
    ms = io_methods(prog)
    if len(ms) < 18:
        raise AnchorMissing('InputSource / OutputTarget methods (found %d)' % len(ms))
    for f in ms:
        if not f.raw.get('output', '').startswith('core::result::Result'):
            continue
        errs = err_return_blocks(f)
        writes = _self_writes(f)
        bad = []
        for wb, what in writes:
            # a write must not be able to reach an Err return
            if f.reachable(wb) & errs - ({wb} if wb in errs else set()):
                # reachable means: after this write an error can still be returned
                after = f.reachable(wb)
                if any(e in after and e != wb for e in errs):
                    bad.append((wb, what))
        if bad:
            wb, what = bad[0]
            r.finding('write-before-failure:%s' % f.path, f.span_of(f.blocks[wb]['t'].get('sp')),
                      '%s performs "%s" on a path that can still return an error afterwards: a failed operation would leave a trace (contents or position changed)' % (f.path, what))
        else:
            r.ok('%s: no write precedes an error return' % f.path, '%d write(s), %d error exit(s)' % (len(writes), len(errs)))
    r.floor(12, 'fallible buffer methods')


def r_peek_never_consumes(r, prog):
    ms = [f for f in io_methods(prog) if re.search(r'::(peek_\w+|remaining)$', f.path) or bounds_guards(prog).get(f.name) == 'remaining']
    if len(ms) < 6:
        raise AnchorMissing('peek/remaining methods (found %d)' % len(ms))
    for f in ms:
        w = [x for x in _self_writes(f)]
        if w:
            r.finding('peek-writes:%s' % f.path, f.span, '%s must not modify the source/target but performs "%s"' % (f.path, w[0][1]))
        else:
            r.ok('%s does not modify self' % f.path)
    r.floor(6)


def r_read_advances_by_checked_count(r, prog):
    """read_* / write_* on the slice types advance pos by exactly the count that was checked, after the access."""
    table = [
        ('<' + SI + 'read_byte', 'peek_byte', None, '1'),
        ('<' + SI + 'read_bytes_exact', 'peek_bytes_exact_impl', None, 'const<usize>'),
        ('<' + SI + 'read_byte_slice_exact', 'peek_byte_slice_exact_impl', -1, None),
        ('<' + SO + 'write_byte', '@remaining', -1, None),
        ('<' + SO + 'write_bytes_exact', '@remaining', -1, None),
        ('<' + SO + 'reserve_space', '@remaining', -1, None),
    ]
    for fp, guard, gi, fixed in table:
        f = prog.fn(fp)
        gs = [c for c in f.calls() if _is_guard(prog, c.name(), guard)]
        if not gs:
            r.finding('no-check:%s' % fp, f.span, '%s no longer calls %s before advancing' % (fp, guard))
            continue
        g = gs[0]
        count = fixed if fixed is not None else vexpr(f, g.args[gi])
        writes = [(bb, lhs, rv) for bb, j, lhs, rv, s in f.assigns() if lhs['l'] == 1 and [x.get('n') for x in place_projs(lhs) if isinstance(x, dict) and 'f' in x] == ['pos']]
        if not writes:
            r.finding('pos-not-advanced:%s' % fp, f.span, '%s never advances pos' % fp)
            continue
        for bb, lhs, rv in writes:
            val = vexpr(f, rv['a']) if rv['k'] == 'use' else vexpr(f, {'cp': lhs})
            want = ADD('arg1.pos', count)
            if val == want and ok_dominates(f, g, bb):
                r.ok('%s: pos += %s on the success edge of %s' % (fp.split('::')[-1], count, guard))
            else:
                r.finding('pos-advanced-wrongly:%s' % fp, f.span, '%s sets pos to %s (expected %s on the success edge of %s)' % (fp, val, want, guard))
    r.floor(6)


def _split_top(s, sep=','):
    out, depth, cur = [], 0, ''
    for ch in s:
        if ch in '({[':
            depth += 1
        elif ch in ')}]':
            depth -= 1
        if ch == sep and depth == 0:
            out.append(cur)
            cur = ''
        else:
            cur += ch
    out.append(cur)
    return out


def simplify_arith(e):
    """Canonical form of an integer value expression: Add arguments sorted, Sub(Add(a,b),b) = a, Add(Sub(a,b),b) = a (the comparison is of
    values, so the way the source spells the arithmetic does not matter)."""
    e = e.strip()
    m = re.match(r'^(\w+)\((.*)\)$', e)
    if not m or len(_split_top(m.group(2))) != 2 or m.group(1) not in ('Add', 'Sub'):
        return e
    a, b = [simplify_arith(x) for x in _split_top(m.group(2))]
    if m.group(1) == 'Sub':
        ma = re.match(r'^Add\((.*)\)$', a)
        if ma:
            x, y = _split_top(ma.group(1))
            if y == b:
                return x
            if x == b:
                return y
        return 'Sub(%s,%s)' % (a, b)
    for u, v in ((a, b), (b, a)):
        mu = re.match(r'^Sub\((.*)\)$', u)
        if mu:
            x, y = _split_top(mu.group(1))
            if y == v:
                return x
    return ADD(a, b)


def range_bounds(e):
    m = re.match(r'^Range::Range\{start:(.*),end:(.*)\}$', e)
    if not m:
        return None
    # the split between start and end is the top-level ',end:'
    body = e[len('Range::Range{'):-1]
    parts = _split_top(body)
    d = {}
    for part in parts:
        k, _, v = part.partition(':')
        d[k] = simplify_arith(v[:-2] if v.endswith('.0') and v.startswith('Sub(') else v)
    return d.get('start'), d.get('end')



# --------------------------------------------------------------------------- C12: reservations
def r_reservations(r, prog):
    RES = 'slice_codec::buffer::Reservation'
    aggs = aggregates(prog, RES, crates=('slice_codec',))
    allowed = {'<' + SO + 'reserve_space': 'Range::Range{start:Sub(ADD(arg1.pos,arg2),arg2).0,end:ADD(arg1.pos,arg2)}', '<' + VO + 'reserve_space': 'Range::Range{start:len(arg1.buffer),end:ADD(arg2,len(arg1.buffer))}'}
    n = 0
    for a in aggs:
        f = a['fn']
        n += 1
        if f.path not in allowed:
            r.finding('reservation-forged:%s' % f.path, a['span'], 'a Reservation is constructed in %s; only reserve_space may create one' % f.path)
            continue
        # the position field may be advanced before the range is built: reads after that store see the stored value
        stores = []
        for bb, j, lhs, rv, st in f.assigns():
            if lhs['l'] == 1 and [x.get('n') for x in place_projs(lhs) if isinstance(x, dict) and 'f' in x] == ['pos'] and rv['k'] == 'use':
                stores.append(('arg1.pos', bb, j, vexpr(f, rv['a'])))
        j_agg = max([j for bb, j, st in f.stmts() if bb == a['bb'] and st.get('rv') is a['rv']] or [None], key=lambda x: -1 if x is None else x)
        store_overlay(f, stores)
        try:
            got = vexpr(f, a['rv']['ops'][0], at=(a['bb'], j_agg))
        finally:
            store_overlay(f, [])
        r.ok('Reservation created in %s' % f.path.split('::')[-1], got)
        # it must cover exactly [old position, old position + count): compared as values (Sub(Add(p,n),n) = p), so it does not matter whether the
        # source computes the start before the advance or subtracts after it
        old_pos = 'len(arg1.buffer)' if 'Vec' in f.path else 'arg1.pos'
        b = range_bounds(got)
        if b and b[0] == old_pos and b[1] == ADD(old_pos, 'arg2'):
            r.ok('%s reservation = position before the call .. that position + count' % ('growable' if 'Vec' in f.path else 'fixed-slice'))
        else:
            r.finding('reservation-range:%s' % f.path, a['span'], 'reserve_space returns the range %s (bounds %s), expected %s..%s' % (got, b, old_pos, ADD(old_pos, 'arg2')))
    if n < 2:
        raise AnchorMissing('two constructions of Reservation')
    # the range is only narrowed from the front, by exactly the bytes copied, after the copy
    for fp in ('<' + SO + 'write_bytes_into_reserved_exact', '<' + VO + 'write_bytes_into_reserved_exact'):
        f = prog.fn(fp)
        ws = [(bb, lhs, rv) for bb, j, lhs, rv, s in f.assigns() if lhs['l'] == 2 and '*' in place_projs(lhs)]
        copies = [c for c in f.calls() if c.name() == 'copy_nonoverlapping']
        if not ws:
            r.finding('reservation-not-consumed:%s' % fp, f.span, '%s does not shrink the reservation after writing into it: the same bytes would be overwritten by the next write' % fp)
            continue
        for bb, lhs, rv in ws:
            names = [x.get('n') for x in place_projs(lhs) if isinstance(x, dict) and 'f' in x]
            val = vexpr(f, rv['a']) if rv['k'] == 'use' else '?'
            want = ADD('arg2.0.start', 'len(arg3)')
            if names[-1:] == ['start'] and val == want and copies and all(f.dominates(c.bb, bb) for c in copies):
                r.ok('%s: reservation.start += bytes.len() after the copy' % fp.split('::')[-1])
            else:
                r.finding('reservation-updated-wrongly:%s' % fp, f.span, '%s updates the reservation field %s to %s (expected start += bytes.len() after the copy)' % (fp, names, val))
    # nobody else touches the range
    for acc in field_accesses(prog, RES, '0', crates=('slice_codec',)):
        f = acc['fn']
        if acc['kind'] in ('write', 'refmut') and not f.path.endswith('write_bytes_into_reserved_exact'):
            r.finding('reservation-range-written:%s' % f.path, acc['span'], 'the range of a Reservation is modified in %s' % f.path)
    # Reservation is neither Clone nor Copy (an aliased reservation could be written twice)
    for i in prog.impls:
        if i['_crate'].tag == 'slice_codec' and i.get('self_adt') == RES and i.get('trait') in ('core::clone::Clone', 'core::marker::Copy'):
            r.finding('reservation-clonable', '-', 'Reservation implements %s' % i['trait'])
    adt = prog.adts[RES]
    fld = adt['variants'][0]['fields'][0]
    if fld['vis'] == 'pub':
        r.finding('reservation-field-public', '-', 'the range of Reservation is public: reservations can be forged or widened outside the crate')
    else:
        r.ok('Reservation: private range, not Clone/Copy')
    r.floor(6)


def r_zeroed_growable_reservation(r, prog):
    f = prog.fn('<' + VO + 'reserve_space')
    wb = [c for c in f.calls() if c.name() == 'write_bytes']
    sl = [c for c in f.calls() if c.name() == 'set_len']
    if not wb or not sl:
        r.finding('reservation-not-zeroed', f.span, 'VecOutputTarget::reserve_space does not zero the reserved bytes before making them part of the vector')
        return
    if all(f.dominates(wb[0].bb, s.bb) for s in sl) and const_int(wb[0].args[1]) == 0 and vexpr(f, wb[0].args[2]) == 'arg2':
        r.ok('write_bytes(ptr, 0, count) precedes set_len on every path')
    else:
        r.finding('reservation-zeroing-order', wb[0].span, 'the zeroing of the reservation does not precede set_len with the same count on every path')
    r.floor(1)


# --------------------------------------------------------------------------- C11: strictness
def r_strict_bool(r, prog):
    f = prog.fn('slice_codec::decoding::<impl slice_codec::decode_from::DecodeFrom for bool>::decode_from')
    good = False
    for i, blk in enumerate(f.blocks):
        t = blk['t']
        if t['k'] == 'switch' and t['ty'] == 'u8':
            vals = sorted(int(v) for v, _ in t['ts'])
            if vals == [0, 1] and 'read_byte' in vexpr(f, t['d']):
                other = t['else']
                reach = f.reachable(other)
                errs = [c for c in f.calls() if c.bb in reach and c.name() == 'illegal_bool_error']
                oks = [a for a in aggregates(prog, 'core::result::Result', 'Ok') if a['fn'] is f and a['bb'] in reach]
                if errs and not oks:
                    good = True
    if good:
        r.ok('bool: every byte other than 0 and 1 is an error')
    else:
        r.finding('bool-not-strict', f.span, 'the bool decoder does not reject every byte other than 0 and 1')
    r.floor(1)


def r_strict_utf8(r, prog):
    f = prog.fn('slice_codec::decoding::<impl slice_codec::decode_from::DecodeFrom for alloc::string::String>::decode_from')
    conv = [c for c in f.calls() if re.search(r'from_utf8', c.callee or '')]
    strict = [c for c in conv if c.callee == 'alloc::string::String::from_utf8']
    if strict and len(conv) == len(strict) and all(try_edges(f, c) for c in strict):
        r.ok('String: bytes go through String::from_utf8 and the error is propagated')
    else:
        r.finding('utf8-not-validated', f.span, 'the String decoder does not validate UTF-8 with String::from_utf8 (found %s)' % [c.callee for c in conv])
    r.floor(1)


def r_varint_narrowing(r, prog):
    for nm, wide in (('decode_varint', 'i64'), ('decode_varuint', 'u64')):
        f = prog.fn('slice_codec::decoding::<impl slice_codec::decoder::Decoder<I>>::' + nm)
        tf = [c for c in f.calls() if (c.callee or '').endswith('convert::TryFrom::try_from')]
        me = [c for c in f.calls() if c.name() == 'map_err']
        if tf and me and f.return_blocks() and all(must_pass(f, tf[0].bb, f.return_blocks(), [m.bb for m in me]) for _ in [0]):
            r.ok('%s: narrowing through TryFrom with the error mapped' % nm)
        else:
            r.finding('narrowing-unchecked:%s' % nm, f.span, '%s does not narrow the decoded value through TryFrom / map_err' % nm)
    # users of the varint decoders must not narrow again with `as`
    f = prog.fn('slice_codec::decoding::<impl slice_codec::decoder::Decoder<I>>::skip_tagged_fields')
    dv = [c for c in f.calls() if c.name() == 'decode_varint']
    if dv and all(c.targs and c.targs[-1] == 'i32' for c in dv):
        casts = [rv for bb, j, lhs, rv, s in f.assigns() if rv['k'] == 'cast' and rv['ck'] == 'IntToInt']
        if casts:
            r.finding('tag-narrowed-with-as', f.span, 'skip_tagged_fields narrows a decoded tag with `as` (%s -> %s): out-of-range tags wrap instead of being rejected' % (casts[0]['from'], casts[0]['ty']))
        else:
            r.ok('skip_tagged_fields decodes tags as varint32 (range-checked)')
    else:
        r.finding('tag-not-decoded-as-varint32', f.span, 'skip_tagged_fields does not decode tags with decode_varint::<i32> (found %s)' % [c.targs for c in dv])
    r.floor(3)


def r_announced_sizes(r, prog):
    """A length decoded from the input must not reach a reservation unless compared against / clamped by remaining()."""
    # reservations, and allocations outright (`vec![0; n]` is from_elem(0, n): not even fallible - an announced 2^62 aborts the process)
    RESERVE = ('try_reserve_exact', 'try_reserve', 'reserve', 'reserve_exact', 'with_capacity', 'with_capacity_and_hasher',
               'from_elem', 'resize', 'resize_with', 'repeat', 'new_uninit_slice', 'new_zeroed_slice', 'extend_with', 'with_capacity_in', 'from_elem_in')
    n = 0
    for f in prog.fns.values():
        if f.crate.tag not in ('slice_codec', 'slicec_bin'):
            continue
        for c in f.calls():
            if c.name() not in RESERVE or not c.args or f.blocks[c.bb].get('cleanup'):
                continue
            sizes = [v for v in (vexpr(f, a) for a in c.args) if 'decode_varuint' in v or 'decode_size' in v or 'decode_varint' in v]
            if not sizes:
                continue
            size = sizes[-1]
            n += 1
            if re.search(r'min\(', size) and 'remaining(' in size:
                r.ok('%s: reservation clamped by remaining()' % f.path, size)
                continue
            # dominated by a comparison with remaining() whose failing edge returns an error
            ok = False
            for bb, p, ts, fs in bool_branches(f):
                if p is None or not is_bare(p):
                    continue
                for d in f.defs_of(p['l']):
                    if d[0] == 'assign' and d[3]['k'] == 'bin' and d[3]['op'] in ('Lt', 'Gt', 'Le', 'Ge'):
                        a, b = vexpr(f, d[3]['a']), vexpr(f, d[3]['b'])
                        op = d[3]['op']
                        if 'remaining(' in a and b == size and op in ('Lt',):      # remaining < length -> error
                            if f.edge_dominates(bb, fs, c.bb):
                                ok = True
                        if 'remaining(' in b and a == size and op in ('Gt',):      # length > remaining -> error
                            if f.edge_dominates(bb, fs, c.bb):
                                ok = True
                        if 'remaining(' in a and b == size and op in ('Ge',) and f.edge_dominates(bb, ts, c.bb):
                            ok = True
                        if 'remaining(' in b and a == size and op in ('Le',) and f.edge_dominates(bb, ts, c.bb):
                            ok = True
            if ok:
                r.ok('%s: reservation only after the length was checked against remaining()' % f.path, size)
            else:
                r.finding('announced-length-reaches-reservation:%s' % f.path, c.span,
                          '%s reserves %s, a length announced by the input, without comparing it with or clamping it by the bytes remaining' % (f.path, size))
    r.floor(3, 'reservations sized from the input')


def r_element_count_is_announced(r, prog):
    """A collection decoder reads exactly as many elements as the input announces: the loop runs over 0..announced, and the announced number is
    the decoded size itself - not a clamped, rounded or otherwise adjusted copy (clamping belongs to the *reservation* only: an input that
    announces more elements than it holds must run out of bytes and fail, not be accepted with fewer)."""
    n = 0
    for a in aggregates(prog, 'core::ops::range::Range', crates=('slice_codec',)):
        f = a['fn']
        if not f.path.startswith('slice_codec::decoding::<impl slice_codec::decode_from::DecodeFrom for') or f.blocks[a['bb']].get('cleanup'):
            continue
        n += 1
        rng = vexpr(f, {'cp': a['lhs']})
        if re.match(r'^Range::Range\{start:0,end:decode_(varuint|size)\(arg1\) as Continue\.0\}$', rng):
            r.ok('%s reads 0..announced elements' % re.sub(r'^.*DecodeFrom for ', '', f.path).split('>::')[0])
        else:
            r.finding('element-count-not-announced:%s' % re.sub(r'^.*DecodeFrom for ', '', f.path).split('>::')[0], a['span'],
                      '%s iterates over %s: the number of elements read must be the announced size itself' % (f.path, rng[:160]))
    # collecting from an iterator instead of a counted loop is the same obligation: the adapter must run over 0..announced
    if n < 3:
        raise AnchorMissing('counted loops of the collection decoders (found %d)' % n)
    r.floor(3)


OWN_ERRORS = {
    # function (suffix of its path)                                    : (Err values it builds itself, why that rejection is part of the format)
    'DecodeFrom for alloc::string::String>::decode_from': (1, 'the announced length exceeds the bytes left (before reserving)'),
    'DecodeFrom for bool>::decode_from': (1, 'a byte other than 0 and 1'),
    'DecodeFrom for std::collections::hash::map::HashMap<K, V>>::decode_from': (1, 'a key that occurs twice'),
    'DecodeFrom for alloc::collections::btree::map::BTreeMap<K, V>>::decode_from': (1, 'a key that occurs twice'),
    'Encoder<O>>::encode_varint': (1, 'a value outside the 62-bit range'),
    'Encoder<O>>::encode_varuint': (1, 'a value outside the 62-bit range'),
}


def r_own_error_sites(r, prog):
    """Everything the encoder accepts must decode to the same value, and everything in range must be accepted: besides passing on the errors
    of the buffer underneath (`?`), the encoding and decoding functions refuse a value *themselves* in exactly the places listed in OWN_ERRORS,
    each for a reason that is part of the format. A new `Err(..)` built anywhere else in the codec above the buffer module is a new way to refuse a
    value (an over-long but valid varint, a sequence longer than the spare capacity of a growable target) and breaks the round trip."""
    from collections import Counter
    errs = [a for a in aggregates(prog, 'core::result::Result', 'Err', crates=('slice_codec',))
            if not a['fn'].blocks[a['bb']].get('cleanup') and 'slice_codec::buffer::' not in a['fn'].path and not a['fn'].path.startswith('slice_codec::error::')]      # the whole codec above the buffers: encoding.rs, decoding.rs, and the Encoder / Decoder types themselves (a budget, a depth limit)
    cnt = Counter(re.sub(r'::\{closure#\d+\}', '', a['fn'].path) for a in errs)
    seen = set()
    for path, n in sorted(cnt.items()):
        key = [k for k in OWN_ERRORS if path.endswith(k)]
        if key and n <= OWN_ERRORS[key[0]][0]:
            seen.add(key[0])
            r.ok('%s refuses on its own %d time(s)' % (key[0], n), OWN_ERRORS[key[0]][1])
        else:
            a = [x for x in errs if re.sub(r'::\{closure#\d+\}', '', x['fn'].path) == path][-1]
            r.finding('codec-refuses-on-its-own:%s' % re.sub(r'^slice_codec::(encoding|decoding)::', '', path), a['span'],
                      '%s builds %d error value(s) of its own%s: a value the format allows (or the other side produces) is refused' % (path, n, (' (recorded: %d)' % OWN_ERRORS[key[0]][0]) if key else ''))
    if len(seen) < 4:
        raise AnchorMissing('recorded own-error sites of the codec (found %d)' % len(seen))
    r.floor(4)


def r_string_decoded_verbatim(r, prog):
    """The string decoder hands back the bytes it read, validated and otherwise untouched: nothing is trimmed, stripped, replaced or drained (a
    byte-order mark, a trailing NUL, white space are characters like any other and the encoder writes them)."""
    fs = [f for k, f in prog.fns.items() if k.endswith('DecodeFrom for alloc::string::String>::decode_from')]
    if len(fs) != 1:
        raise AnchorMissing('DecodeFrom for String')
    f = fs[0]
    fam = [f] + closures_of(prog, f)
    edits = [c.name() for g in fam for c in g.calls() if not g.blocks[c.bb].get('cleanup') and c.name() in (
        'drain', 'trim', 'trim_start', 'trim_end', 'trim_matches', 'trim_start_matches', 'trim_end_matches', 'strip_prefix', 'strip_suffix', 'replace', 'replacen', 'remove',
        'retain', 'truncate', 'pop', 'insert', 'insert_str', 'push', 'push_str', 'to_lowercase', 'to_uppercase', 'split_off', 'from_utf8_lossy', 'starts_with', 'ends_with')]
    fu = [c for c in f.calls() if c.name() == 'from_utf8' and not f.blocks[c.bb].get('cleanup')]
    if edits or len(fu) != 1:
        r.finding('string-decoder-edits-value', f.span, 'the String decoder calls %s: the decoded text is not the text that was encoded' % (sorted(set(edits)) or 'from_utf8 %d times' % len(fu)))
    else:
        r.ok('the String decoder returns String::from_utf8 of the bytes read, unedited')
    r.floor(1)


# --------------------------------------------------------------------------- C10 tables
INT_WIDTH = {'i8': 8, 'u8': 8, 'i16': 16, 'u16': 16, 'i32': 32, 'u32': 32, 'i64': 64, 'u64': 64}


def _range_arms(f, discr_pred):
    """Reconstruct `match x { a..=b => .., }` over an integer: returns list of (lo, hi or None, target bb) in source order from
    the chain of Le/Lt/Ge comparisons rustc emits."""
    arms = []
    for bb, p, ts, fs in bool_branches(f):
        if p is None or not is_bare(p):
            continue
        for d in f.defs_of(p['l']):
            if d[0] == 'assign' and d[3]['k'] == 'bin' and d[3]['op'] in ('Le', 'Lt', 'Ge', 'Gt'):
                a, b = d[3]['a'], d[3]['b']
                arms.append({'bb': bb, 'op': d[3]['op'], 'a': vexpr(f, a), 'b': vexpr(f, b), 'true': ts, 'false': fs})
    return arms


def varint_encoder_table(f, signed):
    """(lo, hi, cast type, tag) per arm of the width selection of encode_varint / encode_varuint, read from the MIR:
    comparisons against constants on required_bits and, per arm, the IntToInt cast and BitOr constant before encode()."""
    cmps = _range_arms(f, None)
    rows = []
    enc = [c for c in f.calls() if c.name() == 'encode']
    for c in enc:
        # value expression of the encoded argument: BitOr(cast(Shl(value,2)), tag)
        ex = vexpr(f, c.args[1])
        ty = c.targs[-1] if c.targs else '?'
        m = re.match(r'^BitOr\((\d+),(.*)\)$|^BitOr\((.*),(\d+)\)$', ex)
        tag = int(m.group(1) or m.group(4)) if m else 0
        body = (m.group(2) or m.group(3)) if m else ex
        # bounds: the comparisons whose edges dominate this call
        lo = hi = None
        for x in cmps:
            k = None
            if x['b'].isdigit() and not x['a'].isdigit():
                k = int(x['b'])
                # required_bits <op> k
                if x['op'] == 'Le' and f.edge_dominates(x['bb'], x['true'], c.bb):
                    hi = k if hi is None else min(hi, k)
                if x['op'] == 'Lt' and f.edge_dominates(x['bb'], x['true'], c.bb):
                    hi = k - 1 if hi is None else min(hi, k - 1)
                if x['op'] == 'Ge' and f.edge_dominates(x['bb'], x['true'], c.bb):
                    lo = k if lo is None else max(lo, k)
                if x['op'] == 'Le' and f.edge_dominates(x['bb'], x['false'], c.bb):
                    lo = k + 1 if lo is None else max(lo, k + 1)
            elif x['a'].isdigit() and not x['b'].isdigit():
                k = int(x['a'])
                # k <op> required_bits
                if x['op'] == 'Le' and f.edge_dominates(x['bb'], x['true'], c.bb):
                    lo = k if lo is None else max(lo, k)
                if x['op'] == 'Le' and f.edge_dominates(x['bb'], x['false'], c.bb):
                    hi = k - 1 if hi is None else min(hi, k - 1)
        rows.append({'lo': lo, 'hi': hi, 'ty': ty, 'tag': tag, 'expr': body, 'bb': c.bb, 'span': c.span})
    return rows, cmps



def range_error_builders(prog):
    """Names of the slice-codec functions whose body builds InvalidDataErrorKind::OutOfRange (the range-error helpers), found by what they
    construct, not by what they are called."""
    from helpers import aggregates
    names = set()
    for a in aggregates(prog, 'slice_codec::error::InvalidDataErrorKind', 'OutOfRange', crates=('slice_codec',)):
        names.add(re.sub(r'::\{closure#\d+\}', '', a['fn'].path).rsplit('::', 1)[-1])
    return names


def r_varint_encoder(r, prog):
    for nm, signed in (('encode_varint', True), ('encode_varuint', False)):
        f = prog.fn('slice_codec::encoding::<impl slice_codec::encoder::Encoder<O>>::' + nm)
        rows, cmps = varint_encoder_table(f, signed)
        rows.sort(key=lambda x: INT_WIDTH.get(x['ty'], 0))
        if len(rows) != 4:
            r.finding('varint-encoder-arms:%s' % nm, f.span, '%s has %d encoding arms, expected 4 (1, 2, 4, 8 bytes)' % (nm, len(rows)))
            continue
        prev_hi = None
        for k, row in enumerate(rows):
            w = INT_WIDTH.get(row['ty'])
            exp_ty = ('i' if signed else 'u') + str(8 << k)
            exp_hi = (8 << k) - 2
            exp_tag = k
            probs = []
            if row['ty'] != exp_ty:
                probs.append('encodes as %s, expected %s' % (row['ty'], exp_ty))
            if row['hi'] != exp_hi:
                probs.append('upper bound of significant bits is %s, expected %d (= 8*%d - 2)' % (row['hi'], exp_hi, 1 << k))
            if row['tag'] != exp_tag:
                probs.append('length code is %d, expected %d' % (row['tag'], exp_tag))
            if k > 0 and row['lo'] is not None and prev_hi is not None and row['lo'] != prev_hi + 1:
                probs.append('lower bound %s does not continue the previous arm (%s)' % (row['lo'], prev_hi))
            if 'Shl(' not in row['expr'] or not re.search(r'Shl\([^()]*(\([^()]*\))?[^()]*,2\)', row['expr']):
                probs.append('encoded value is %s, expected the value shifted left by 2' % row['expr'][:60])
            prev_hi = row['hi']
            if probs:
                r.finding('varint-width-table:%s:%d-byte' % (nm, 1 << k), row['span'], '%s, %d-byte arm: %s' % (nm, 1 << k, '; '.join(probs)))
            else:
                r.ok('%s %d-byte arm: bits <= %d, as %s, code %d, value << 2' % (nm, 1 << k, exp_hi, exp_ty, exp_tag))
        # the open arm refuses: reachable only above 62 bits and builds an error, never encodes
        errs = [c for c in f.calls() if c.name() in range_error_builders(prog)] or \
            [a for a in aggregates(prog, 'slice_codec::error::InvalidDataErrorKind', 'OutOfRange', crates=('slice_codec',)) if a['fn'] is f]
        if errs:
            top = rows[-1]['hi']
            if top == 62:
                r.ok('%s: values needing more than 62 bits are refused with a range error' % nm)
            else:
                r.finding('varint-range-limit:%s' % nm, f.span, '%s refuses above %s bits, expected 62' % (nm, top))
        else:
            r.finding('varint-not-refused:%s' % nm, f.span, '%s has no refusing arm for values outside the 62-bit range' % nm)
    r.floor(10)


def r_varint_decoder(r, prog):
    for nm, signed in (('decode_varint', True), ('decode_varuint', False)):
        f = prog.fn('slice_codec::decoding::<impl slice_codec::decoder::Decoder<I>>::' + nm)
        sw = None
        for i, blk in enumerate(f.blocks):
            t = blk['t']
            if t['k'] == 'switch' and t['ty'] == 'u8' and re.match(r'^BitAnd\(3,.*peek_byte.*\)$|^BitAnd\(.*peek_byte.*,3\)$', vexpr(f, t['d'])):
                sw = (i, t)
        if sw is None:
            r.finding('varint-decoder-dispatch:%s' % nm, f.span, '%s does not dispatch on (peek_byte() & 3)' % nm)
            continue
        i, t = sw
        for v, tgt in t['ts']:
            code = int(v)
            exp = ('i' if signed else 'u') + str(8 << code)
            # the decode_from call in the arm
            calls = [c for c in f.calls() if c.bb in f.reachable(tgt, blocked=[x for _, x in t['ts'] if x != tgt]) and c.name() == 'decode_from' and f.edge_dominates(i, tgt, c.bb)]
            got = None
            for c in calls:
                m = re.search(r'DecodeFrom for (\w+)>::decode_from$', c.resolved or '')
                if m:
                    got = m.group(1)
            if got == exp:
                r.ok('%s code %d reads %s' % (nm, code, exp))
            else:
                r.finding('varint-decoder-width:%s:code%d' % (nm, code), f.span, '%s: length code %d reads %s, expected %s' % (nm, code, got, exp))
        # shift right by 2 after the read
        shr = [rv for bb, j, lhs, rv, s in f.assigns() if rv['k'] == 'bin' and rv['op'] in ('Shr', 'ShrUnchecked')]
        if shr and all(const_int(x['b']) == 2 for x in shr):
            r.ok('%s shifts the length code away (>> 2)' % nm)
        else:
            r.finding('varint-decoder-shift:%s' % nm, f.span, '%s does not shift the decoded value right by exactly 2' % nm)
        # the only value-dependent rejection is the failed conversion into the requested type: every range error sits on the
        # failure edge of T::try_from(value), and the result is that conversion (a value that fits is never refused, whatever width carried it)
        errs = [c for c in f.calls() if c.name() in range_error_builders(prog) and not f.blocks[c.bb].get('cleanup')]
        cls = [g for g in prog.fns.values() if g.path.startswith(f.path + '::{closure')]
        errs_in_closure = [c for g in cls for c in g.calls() if c.name() in range_error_builders(prog)]
        tf = [c for c in f.calls() if c.name() == 'try_from' and not f.blocks[c.bb].get('cleanup')]
        me = [c for c in f.calls() if c.name() == 'map_err' and not f.blocks[c.bb].get('cleanup')]
        ret = vexpr(f, {'cp': {'l': 0}}, depth=6)
        if not errs and errs_in_closure and len(tf) == 1 and len(me) == 1 and re.match(r'^(phi\()?.*map_err\(try_from\(', ret) and 'Shr(' in vexpr(f, tf[0].args[0], depth=6):
            r.ok('%s refuses a value only when T::try_from(value >> 2) fails' % nm)
        else:
            r.finding('varint-decoder-extra-rejection:%s' % nm, f.span,
                      '%s builds a range error outside the failure of T::try_from(value) (%d direct site(s)): a value that fits the requested type can be refused depending on the width it was written with' % (nm, len(errs)))
    r.floor(12)


def r_fixed_width_siblings(r, prog):
    enc = {}
    dec = {}
    for f in prog.fns.values():
        if f.crate.tag != 'slice_codec':
            continue
        m = re.match(r'^slice_codec::encoding::<impl slice_codec::encode_into::EncodeInto for (\w+)>::encode_into$', f.path)
        if m:
            enc[m.group(1)] = f
        m = re.match(r'^slice_codec::decoding::<impl slice_codec::decode_from::DecodeFrom for (\w+)>::decode_from$', f.path)
        if m:
            dec[m.group(1)] = f
    nums = ['u16', 'i16', 'u32', 'i32', 'u64', 'i64', 'f32', 'f64']
    for t in nums + ['u8', 'i8', 'bool']:
        if t not in enc or t not in dec:
            r.finding('fixed-width-sibling-missing:%s' % t, '-', 'type %s has %s but not %s' % (t, 'an encoder' if t in enc else 'a decoder', 'a decoder' if t in enc else 'an encoder'))
    size = {'u16': 2, 'i16': 2, 'u32': 4, 'i32': 4, 'u64': 8, 'i64': 8, 'f32': 4, 'f64': 8}
    for t in nums:
        if t not in enc or t not in dec:
            continue
        e, d = enc[t], dec[t]
        conv = [c for c in e.calls() if re.search(r'::to_(le|be|ne)_bytes$', c.callee or '')]
        wr = [c for c in e.calls() if c.name() == 'write_bytes_exact']
        pure = vexpr(e, conv[0].args[0]) == 'arg1' if len(conv) == 1 else False
        branches = [i for i, b in enumerate(e.blocks) if b['t']['k'] == 'switch' and not b.get('cleanup')]
        if len(conv) == 1 and conv[0].callee.endswith('to_le_bytes') and t in conv[0].callee and wr and 'to_le_bytes' in vexpr(e, wr[0].args[-1]) and not (pure and not branches):
            r.finding('fixed-width-encoder-alters-value:%s' % t, e.span, 'the %s encoder writes to_le_bytes(%s)%s: the bytes on the wire are no longer the bits of the value for every value' % (
                t, vexpr(e, conv[0].args[0])[:80], ' and branches on the value' if branches else ''))
        elif len(conv) == 1 and conv[0].callee.endswith('to_le_bytes') and t in conv[0].callee and wr and 'to_le_bytes' in vexpr(e, wr[0].args[-1]):
            r.ok('%s encoder: to_le_bytes of the value itself, written whole, no value-dependent branch' % t)
        else:
            r.finding('fixed-width-encoder:%s' % t, e.span, '%s is not encoded as exactly its to_le_bytes() (found %s)' % (t, [c.callee for c in conv]))
        conv = [c for c in d.calls() if re.search(r'::from_(le|be|ne)_bytes$', c.callee or '')]
        rd = [c for c in d.calls() if c.name() == 'read_bytes_exact']
        n = None
        if rd and rd[0].targs:
            try:
                n = int(rd[0].targs[-1].replace('_usize', '').replace('usize', '').strip() or 0)
            except ValueError:
                n = None
        retv = vexpr(d, {'cp': {'l': 0}}, depth=8)
        dbr = [i for i, b in enumerate(d.blocks) if b['t']['k'] == 'switch' and not b.get('cleanup') and b['t'].get('ty') not in ('isize',)]
        if len(conv) == 1 and conv[0].callee.endswith('from_le_bytes') and t in conv[0].callee and rd and (n in (None, size[t])) and dbr:
            r.finding('fixed-width-decoder-alters-value:%s' % t, d.span, 'the %s decoder branches on the decoded value: it no longer returns from_le_bytes of the bytes read for every value' % t)
        elif len(conv) == 1 and conv[0].callee.endswith('from_le_bytes') and t in conv[0].callee and rd and (n in (None, size[t])):
            r.ok('%s decoder: %s bytes through from_le_bytes' % (t, size[t]))
        else:
            r.finding('fixed-width-decoder:%s' % t, d.span, '%s is not decoded from exactly %d bytes with from_le_bytes (found %s, N=%s)' % (t, size[t], [c.callee for c in conv], n))
    for t in ('u8', 'i8', 'bool'):
        if t in enc and t in dec:
            e, d = enc[t], dec[t]
            if [c for c in e.calls() if c.name() == 'write_byte'] and [c for c in d.calls() if c.name() == 'read_byte']:
                r.ok('%s: one byte written / one byte read' % t)
            else:
                r.finding('single-byte-type:%s' % t, e.span, '%s is not encoded / decoded as exactly one byte' % t)
    r.floor(19)


def r_size_prefix(r, prog):
    """Collections and strings: size first, then exactly that many elements."""
    pairs = 0
    for f in prog.fns.values():
        if f.crate.tag != 'slice_codec' or not f.path.startswith('slice_codec::encoding::<impl slice_codec::encode_into::EncodeInto for &'):
            continue
        if not f.path.endswith('::encode_into'):
            continue
        es = [c for c in f.calls() if c.name() == 'encode_size']
        deleg = [c for c in f.calls() if c.name() == 'encode_into']
        if deleg and not es:
            r.ok('%s delegates to the slice / str encoder' % f.path)
            continue
        if not es:
            continue
        pairs += 1
        body = body_calls(prog, f, ('encode', 'write_bytes_exact'))
        size = vexpr(f, es[0].args[-1])
        if re.match(r'^len\(arg1\)$', size) and body and all(ok_dominates(f, es[0], c.bb) for c in body):
            r.ok('%s: encode_size(self.len()) first, elements after it succeeded' % f.path)
        else:
            r.finding('size-prefix-encoder:%s' % f.path, f.span, '%s does not write encode_size(self.len()) before its elements (size = %s)' % (f.path, size))
    for f in prog.fns.values():
        if f.crate.tag != 'slice_codec' or 'impl slice_codec::decode_from::DecodeFrom for ' not in f.path and 'DecodeFrom for' not in f.path:
            continue
        if not f.path.endswith('::decode_from') or not re.search(r'for (alloc::string::String|alloc::vec::Vec<T>|std::collections::hash::map::HashMap<K, V>|alloc::collections::btree::map::BTreeMap<K, V>)>::decode_from$', f.path):
            continue
        ds = [c for c in f.calls() if c.name() in ('decode_varuint', 'decode_size')]
        if not ds:
            r.finding('size-prefix-decoder:%s' % f.path, f.span, '%s does not read a size first' % f.path)
            continue
        pairs += 1
        size = 'decode_varuint(arg1) as Continue.0'
        if 'String' in f.path:
            sl = [c for c in f.calls() if c.name() == 'set_len']
            if sl and vexpr(f, sl[0].args[-1]) == size:
                r.ok('String decoder: reads exactly the announced number of bytes')
            else:
                r.finding('size-prefix-decoder:%s' % f.path, f.span, 'the String decoder does not read exactly the announced number of bytes')
            continue
        rng = [a for a in aggregates(prog, 'core::ops::range::Range') if a['fn'] is f]
        dec = [c for c in f.calls() if c.name() == 'decode']
        per = 2 if 'Map' in f.path else 1
        if rng and vexpr(f, rng[0]['rv']['ops'][0]) == '0' and vexpr(f, rng[0]['rv']['ops'][1]) == size and len(dec) == per:
            r.ok('%s: loop 0..size decoding %d value(s) per iteration' % (f.path, per))
        else:
            r.finding('size-prefix-decoder:%s' % f.path, f.span, '%s does not decode exactly `size` entries (range %s, %d decode call(s) per iteration)' % (
                f.path, [vexpr(f, o) for o in rng[0]['rv']['ops']] if rng else None, len(dec)))
    if pairs < 7:
        raise AnchorMissing('size-prefixed encoders/decoders (found %d)' % pairs)
    r.floor(7)


def r_range_constants(r, prog):
    exp = {'slice_codec::VARINT62_MIN': -(1 << 61), 'slice_codec::VARINT62_MAX': (1 << 61) - 1, 'slice_codec::VARUINT62_MIN': 0, 'slice_codec::VARUINT62_MAX': (1 << 62) - 1,
           'slice_codec::VARINT32_MIN': -(1 << 31), 'slice_codec::VARINT32_MAX': (1 << 31) - 1, 'slice_codec::VARUINT32_MIN': 0, 'slice_codec::VARUINT32_MAX': (1 << 32) - 1}
    for k, v in exp.items():
        c = prog.consts.get(k)
        if c is None:
            raise AnchorMissing('constant %s' % k)
        if c['val'] is not None and int(c['val']) == v:
            r.ok('%s = %d' % (k, v))
        else:
            r.finding('range-constant:%s' % k, '-', '%s evaluates to %s, expected %d' % (k, c['val'], v))
    r.floor(8)


def r_duplicate_keys(r, prog):
    fns = [f for f in prog.fns.values() if f.crate.tag == 'slice_codec' and re.search(
        r'DecodeFrom for (std::collections::hash::map::HashMap<K, V>|alloc::collections::btree::map::BTreeMap<K, V>)>::decode_from$', f.path)]
    if len(fns) < 2:
        raise AnchorMissing('map decoders (found %d)' % len(fns))
    for f in fns:
        ins = [c for c in f.calls() if c.name() == 'insert']
        if not ins:
            r.finding('map-decoder-no-insert:%s' % f.path, f.span, '%s does not insert the decoded entries' % f.path)
            continue
        good = False
        for sw in enum_switches(f, 'core::option::Option'):
            if not any(c is ins[0] for c, _ in origin_calls(f, sw['place'])):
                continue
            some = arm(sw, 1)
            none = arm(sw, 0)
            reach = f.reachable(some, blocked=[none])
            errs = [a for a in aggregates(prog, 'core::result::Result', 'Err') if a['fn'] is f and a['bb'] in reach]
            loops = f.natural_loops()
            head = loops[0][0] if loops else None
            # after a duplicate the loop must not continue and no Ok may be produced
            cont = head is not None and head in f.reachable(some, blocked=[none] + [a['bb'] for a in errs])
            oks = [a for a in aggregates(prog, 'core::result::Result', 'Ok') if a['fn'] is f and a['bb'] in f.reachable(some, blocked=[none] + [a['bb'] for a in errs])]
            if errs and not cont and not oks and some != none:
                good = True
        if good:
            r.ok('%s: a duplicate key ends decoding with an error' % f.path)
        else:
            r.finding('duplicate-key-accepted:%s' % f.path, ins[0].span, '%s does not turn a duplicate key (insert returned Some) into an error on every path' % f.path)
    r.floor(2)


# --------------------------------------------------------------------------- C12.7: a request that fits is never refused
CAPACITY_REFUSALS = {
    "slice_codec::buffer::slice::SliceInputSource::<'a>::does_buffer_have_at_least": [['Lt(remaining(arg1),arg2)']],
    "slice_codec::buffer::slice::SliceOutputTarget::<'a>::does_buffer_have_at_least": [['Lt(remaining(arg1),arg2)']],
    "<slice_codec::buffer::slice::SliceOutputTarget<'_> as slice_codec::buffer::OutputTarget>::write_bytes_into_reserved_exact":
        [['get_mut(arg1.buffer,range(arg2)) is not Some'], ['Lt(len(get_mut(arg1.buffer,range(arg2)) as Some.0),len(arg3))', 'get_mut(arg1.buffer,range(arg2)) is Some']],
    "<slice_codec::buffer::vec::VecOutputTarget<'_> as slice_codec::buffer::OutputTarget>::write_bytes_into_reserved_exact":
        [['get_mut(arg1.buffer,range(arg2)) is not Some'], ['Lt(len(get_mut(arg1.buffer,range(arg2)) as Some.0),len(arg3))', 'get_mut(arg1.buffer,range(arg2)) is Some']],
}


def r_capacity_refusals_exact(r, prog):
    """The end-of-buffer error of the fixed-size targets and sources is built exactly when fewer bytes remain than were asked for (and, for a
    write into a reservation, when the reservation is not inside the buffer or is shorter than the bytes): the conditions whose edges dominate
    each construction of the error are the recorded ones, nothing more (a stricter test refuses a request that fits: a zero-length write at
    the end of the buffer) and nothing less."""
    import guards as _g
    for path, want in sorted(CAPACITY_REFUSALS.items()):
        f = prog.fns.get(path)
        if f is None and 'VecOutputTarget' in path and not any('VecOutputTarget' in a for a in prog.adts):
            continue      # a configuration without the growable target (no alloc)
        if f is None:
            raise AnchorMissing('capacity check %s' % path)
        sites = [a for a in aggregates(prog, 'slice_codec::error::ErrorKind', None, crates=('slice_codec',)) if a['fn'] is f and not f.blocks[a['bb']].get('cleanup')]
        got = sorted(_g.guard_set(prog, f, a['bb']) for a in sites)
        if got == sorted(want):
            r.ok('%s refuses exactly when %s' % (path.rsplit('::', 1)[-1] + ' of ' + path.split('::')[3].split('<')[0], ' or '.join(' and '.join(w) for w in want)))
        else:
            r.finding('capacity-refusal-condition:%s' % path, f.span,
                      '%s builds its end-of-buffer error under %s; expected %s: a request that fits is refused (or one that does not is let through)' % (path, got, sorted(want)))
    r.floor(3)
