"""Generic rule templates shared by the property modules (T1 who-may, T2 gating, T3
must-pass-through, T10 provenance helpers)."""
import json
from collections import deque

from mirlib import (AnchorMissing, op_place, is_bare, place_projs, proj_str, path_matches, const_int, strip_closure)


# --------------------------------------------------------------------------- boolean branches
def bool_branches(fn):
    """All two-way branches on a bool in fn: yields (bb, origin_terms, true_succ, false_succ, polarity_flipped).
    The discriminant is traced back through copies and `Not`."""
    out = []
    for i, b in enumerate(fn.blocks):
        t = b['t']
        if t['k'] != 'switch' or t['ty'] != 'bool':
            continue
        if len(t['ts']) != 1:
            continue
        val, tgt = t['ts'][0]
        other = t['else']
        if val == '0':
            false_s, true_s = tgt, other
        else:
            true_s, false_s = tgt, other
        # trace through Not
        d = t['d']
        flips = 0
        p = op_place(d)
        seen = 0
        while p is not None and is_bare(p) and seen < 8:
            seen += 1
            defs = [x for x in fn.defs_of(p['l']) if x[0] == 'assign']
            if len(defs) != 1:
                break
            rv = defs[0][3]
            if rv['k'] == 'un' and rv['op'] == 'Not':
                flips += 1
                p = op_place(rv['a'])
                continue
            if rv['k'] == 'use' and op_place(rv['a']) is not None:
                p = op_place(rv['a'])
                continue
            break
        if flips % 2 == 1:
            true_s, false_s = false_s, true_s
        out.append((i, p, true_s, false_s))
    return out


def branches_on_call(fn, pred):
    """Branches whose condition is (a copy / negation of) the bool returned by a call matching pred.
    Returns list of dict(bb, call, true, false)."""
    out = []
    for bb, p, ts, fs in bool_branches(fn):
        if p is None or not is_bare(p):
            continue
        for d in fn.defs_of(p['l']):
            if d[0] == 'call':
                c = d[3]
                if (callable(pred) and pred(c)) or (not callable(pred) and (path_matches(c.callee, pred) or path_matches(c.resolved, pred))):
                    out.append({'bb': bb, 'call': c, 'true': ts, 'false': fs})
    return out


def branches_on_field(fn, adt_pat, field):
    """Branches whose condition is (a copy / negation of) a read of field `field` of ADT adt_pat."""
    out = []
    for bb, p, ts, fs in bool_branches(fn):
        if p is None:
            continue
        cands = []
        if not is_bare(p):
            cands.append(p)
        else:
            for d in fn.defs_of(p['l']):
                if d[0] == 'assign' and d[3]['k'] == 'use' and op_place(d[3]['a']) is not None:
                    cands.append(op_place(d[3]['a']))
        for q in cands:
            prs = [x for x in place_projs(q) if isinstance(x, dict) and 'f' in x]
            if prs and prs[-1].get('n') == field and path_matches(prs[-1].get('adt'), adt_pat):
                out.append({'bb': bb, 'place': q, 'true': ts, 'false': fs})
    return out


def guarded_blocks(fn, guard_edges):
    """Blocks of fn that every path from the entry reaches only through one of... no: through ALL
    listed guard edges? -> through at least the given edge set taken as a cut: a block is guarded iff it
    becomes unreachable when all guard edges are removed."""
    reach_all = fn.reachable(0)
    reach_cut = fn.reachable(0, blocked_edges=guard_edges)
    return reach_all - reach_cut


# --------------------------------------------------------------------------- interprocedural gating
def ungated_reach(prog, roots, guards, crate_tags=None):
    """Functions reachable from `roots` using only call sites that are NOT behind a guard.
    guards: dict fn path -> list of (src_bb, dst_bb) edges acting as a cut in that function.
    Returns (set of fn paths, parent map with (caller, bb))."""
    cg = prog.callgraph()
    sites = prog.cg_sites
    seen = set()
    parent = {}
    dq = deque()
    for r in roots:
        if r in prog.fns:
            seen.add(r)
            dq.append(r)
    cut_cache = {}
    while dq:
        a = dq.popleft()
        fa = prog.fns[a]
        if a in guards:
            if a not in cut_cache:
                cut_cache[a] = fa.reachable(0, blocked_edges=guards[a])
            open_blocks = cut_cache[a]
        else:
            open_blocks = None
        for b in sorted(cg.get(a, ())):
            if b in seen:
                continue
            bbs = sites[(a, b)]
            ok = False
            for bb in bbs:
                if bb is None or open_blocks is None or bb in open_blocks:
                    ok = True
                    break
            if ok:
                seen.add(b)
                parent[b] = a
                dq.append(b)
    return seen, parent


def chain(parent, target):
    p = [target]
    while p[-1] in parent:
        p.append(parent[p[-1]])
    return list(reversed(p))


# --------------------------------------------------------------------------- who-may
def calls_matching(prog, preds, crates=None):
    """All Call objects in the given crates whose declared/resolved callee matches one of preds."""
    out = []
    for f in prog.fns.values():
        if crates and f.crate.tag not in crates:
            continue
        for c in f.calls():
            for p in preds:
                if path_matches(c.callee, p) or path_matches(c.resolved, p):
                    out.append(c)
                    break
    return out


def field_accesses(prog, adt_pat, field, crates=None):
    """Every syntactic access of field `field` of ADT adt_pat: yields dict(fn, bb, kind, span) where kind is
    'write' (assignment to the field or to a sub-place), 'refmut' (mutable borrow of the field or a
    sub-place), 'read' (copy/move/shared borrow), 'init' (aggregate construction of the ADT)."""
    out = []

    def has_field(p):
        for idx, pr in enumerate(place_projs(p)):
            if isinstance(pr, dict) and 'f' in pr and pr.get('n') == field and path_matches(pr.get('adt'), adt_pat):
                return True
        return False

    def ops_of_rv(rv):
        k = rv['k']
        if k in ('use', 'cast', 'un', 'repeat'):
            return [rv['a']]
        if k == 'bin':
            return [rv['a'], rv['b']]
        if k == 'agg':
            return rv['ops']
        return []

    for f in prog.fns.values():
        if crates and f.crate.tag not in crates:
            continue
        for bb, j, s in f.stmts():
            if 'lhs' not in s:
                continue
            lhs, rv = s['lhs'], s['rv']
            sp = f.span_of(s.get('sp'))
            if has_field(lhs):
                out.append({'fn': f, 'bb': bb, 'kind': 'write', 'span': sp})
            if rv['k'] in ('ref', 'rawptr') and has_field(rv['p']):
                out.append({'fn': f, 'bb': bb, 'kind': 'refmut' if rv['mut'] else 'read', 'span': sp})
            if rv['k'] == 'discr' and has_field(rv['p']):
                out.append({'fn': f, 'bb': bb, 'kind': 'read', 'span': sp})
            for o in ops_of_rv(rv):
                p = op_place(o)
                if p is not None and has_field(p):
                    out.append({'fn': f, 'bb': bb, 'kind': 'read', 'span': sp})
            if rv['k'] == 'agg' and rv.get('ak') == 'adt' and path_matches(rv['adt'], adt_pat) and field in rv.get('fn', []):
                out.append({'fn': f, 'bb': bb, 'kind': 'init', 'span': sp, 'op': rv['ops'][rv['fn'].index(field)]})
        for i, b in enumerate(f.blocks):
            t = b['t']
            sp = f.span_of(t.get('sp'))
            if t['k'] == 'call':
                for o in t['a']:
                    p = op_place(o)
                    if p is not None and has_field(p):
                        out.append({'fn': f, 'bb': i, 'kind': 'read', 'span': sp})
                if has_field(t['d']):
                    out.append({'fn': f, 'bb': i, 'kind': 'write', 'span': sp})
            elif t['k'] == 'switch':
                p = op_place(t['d'])
                if p is not None and has_field(p):
                    out.append({'fn': f, 'bb': i, 'kind': 'read', 'span': sp})
            elif t['k'] == 'drop':
                pass
    return out


def aggregates(prog, adt_pat, variant=None, crates=None):
    """Constructions of ADT (variant) as MIR aggregates: yields dict(fn, bb, rv, span)."""
    out = []
    for f in prog.fns.values():
        if crates and f.crate.tag not in crates:
            continue
        for bb, j, s in f.stmts():
            if 'lhs' in s and s['rv']['k'] == 'agg' and s['rv'].get('ak') == 'adt' and path_matches(s['rv']['adt'], adt_pat):
                if variant is None or s['rv']['v'] == variant:
                    out.append({'fn': f, 'bb': bb, 'rv': s['rv'], 'span': f.span_of(s.get('sp')), 'lhs': s['lhs']})
    return out


def comes_from_call(f, operand, call):
    """True if the operand is the result of `call`, possibly through plain moves/copies/casts of single-definition locals."""
    pl = op_place(operand)
    seen = set()
    while pl is not None and pl['l'] not in seen:
        seen.add(pl['l'])
        if call.dest is not None and pl['l'] == call.dest['l']:
            return True
        ds = [d for d in f.defs_of(pl['l']) if d[0] in ('assign', 'call')]
        if len(ds) != 1:
            return False
        if ds[0][0] == 'call':
            return ds[0][3] is call
        pl = op_place(ds[0][3].get('a')) if ds[0][3]['k'] in ('use', 'cast') else None
    return False


def closure_of_arg(prog, f, operand):
    """the closure function an operand denotes (the operand is, through plain moves, a closure aggregate), or None"""
    pl = op_place(operand)
    seen = set()
    while pl is not None and pl['l'] not in seen:
        seen.add(pl['l'])
        ds = [d for d in f.defs_of(pl['l']) if d[0] == 'assign']
        if len(ds) != 1:
            return None
        rv = ds[0][3]
        if rv['k'] == 'agg' and rv.get('ak') == 'closure':
            return prog.fns.get(rv.get('def'))
        if rv['k'] in ('ref', 'rawptr'):
            pl = rv['p']
            continue
        pl = op_place(rv.get('a')) if rv['k'] in ('use', 'cast') else None
    return None


def closures_of(prog, f):
    return [g for g in prog.fns.values() if g.path.startswith(f.path + '::{closure#')]


def body_calls(prog, f, names):
    """Calls named in `names` made by f: directly, or inside a closure that f hands to an iterator adapter (for_each, try_for_each, any, all,
    map ...). For the second kind the adapter call in f stands for the calls in the closure (its block is where, in f, they happen)."""
    out = [c for c in f.calls() if c.name() in names and not f.blocks[c.bb].get('cleanup')]
    inner = [g for g in closures_of(prog, f) if any(c.name() in names and not g.blocks[c.bb].get('cleanup') for c in g.calls())]
    if inner:
        for c in f.calls():
            if f.blocks[c.bb].get('cleanup') or c in out:
                continue
            if any(vexpr(f, a).startswith('closure(') for a in c.args):
                out.append(c)
    return out


# --------------------------------------------------------------------------- effects through helpers
def effect_blocks(prog, f, direct, depth=3, _stack=()):
    """Blocks of f that perform an effect. `direct(g)` lists the blocks of a function g that perform it themselves (for instance: build a
    particular Error). A call of a function of the same crate that performs the effect on every path to its return counts as performing it
    (so extracting the effect into a private helper, or wrapping it, does not change the answer)."""
    out = set(direct(f))
    if depth <= 0:
        return out
    for c in f.calls():
        if f.blocks[c.bb].get('cleanup'):
            continue
        g = prog.fns.get(c.resolved or '') or prog.fns.get(c.callee or '')
        if g is None or g is f or g.path in _stack or g.crate.tag != f.crate.tag or not g.blocks:
            continue
        eb = effect_blocks(prog, g, direct, depth - 1, _stack + (f.path,))
        rets = g.return_blocks()
        if eb and rets and must_pass(g, 0, rets, eb):
            out.add(c.bb)
    return out


# --------------------------------------------------------------------------- must-pass-through
def must_pass(fn, start, targets, through, unwind=False, within=None):
    """True iff every path from block `start` to any block in `targets` passes through a block in
    `through` (start itself counts if it is in `through`). `within`: only paths that stay inside this set of
    blocks (plus the targets) are considered."""
    through = set(through)
    if start in through:
        return True
    blocked = set(through)
    if within is not None:
        keep = set(within) | set(targets)
        blocked |= {b for b in range(len(fn.blocks)) if b not in keep}
    reach = fn.reachable(start, blocked=blocked, unwind=unwind)
    return not (reach & set(targets))


def origin_calls(fn, op, pat=None):
    """Calls among the provenance terms of an operand (optionally filtered by callee pattern)."""
    out = []
    for t in fn.origin(op):
        if t[0] == 'call':
            c = t[1]
            if pat is None or path_matches(c.callee, pat) or path_matches(c.resolved, pat):
                out.append((c, t[2]))
    return out


def origin_summary(fn, op):
    """Readable provenance of an operand."""
    out = []
    for t in sorted(fn.origin(op), key=lambda x: str(x)[:80]):
        if t[0] == 'call':
            out.append('result of %s%s' % (t[1].resolved, ''.join(t[2])))
        elif t[0] == 'arg':
            out.append('param %s%s' % (fn.local_name(t[1]) or t[1], ''.join(t[2])))
        elif t[0] == 'const':
            out.append('const %s' % t[1][:80])
        else:
            out.append('%s %s' % (t[0], str(t[1])[:80]))
    return out


# --------------------------------------------------------------------------- enum matches
def enum_switches(fn, adt_pat=None):
    """Switches on the discriminant of an enum value: list of dict(bb, adt, place, arms{variant idx->target}, otherwise)."""
    out = []
    for i, b in enumerate(fn.blocks):
        t = b['t']
        if t['k'] != 'switch' or t['ty'] != 'isize':
            continue
        p = op_place(t['d'])
        if p is None or not is_bare(p):
            continue
        for d in fn.defs_of(p['l']):
            if d[0] == 'assign' and d[3]['k'] == 'discr':
                adt = d[3].get('adt')
                if adt_pat is None or path_matches(adt, adt_pat):
                    out.append({'bb': i, 'adt': adt, 'place': d[3]['p'], 'arms': {int(v): tgt for v, tgt in t['ts']}, 'otherwise': t['else']})
    return out


def edge_region(fn, src, dst):
    """Blocks that every path from the entry reaches only through the edge src->dst."""
    return fn.reachable(0) - fn.reachable(0, blocked_edges=[(src, dst)])


def variant_names(prog, adt):
    return [v['n'] for v in prog.adts[adt]['variants']]


def eq_branches(fn):
    """Branches on the bool returned by a PartialEq::eq / ne call: dict(bb, call, equal, differ)."""
    out = []
    for b in branches_on_call(fn, lambda c: c.name() in ('eq', 'ne') and 'PartialEq' in ((c.callee or '') + (c.resolved or ''))):
        c = b['call']
        if c.name() == 'eq':
            out.append({'bb': b['bb'], 'call': c, 'equal': b['true'], 'differ': b['false']})
        else:
            out.append({'bb': b['bb'], 'call': c, 'equal': b['false'], 'differ': b['true']})
    return out


def derives_from_field(fn, op, adt_pat, field):
    """True if the operand's (wide) provenance includes a place going through field `field` of parameter/ADT."""
    for t in fn.origin(op, wide=True):
        if t[0] in ('arg', 'call', 'agg', 'rv') and ('.' + field) in t[2]:
            return True
    return False


def derives_from_call(fn, op, pat):
    for t in fn.origin(op, wide=True):
        if t[0] == 'call' and (path_matches(t[1].callee, pat) or path_matches(t[1].resolved, pat)):
            return True
    return False


def loop_of(fn, bb):
    """innermost natural loop (head, body) containing bb, or None"""
    best = None
    for h, body in fn.natural_loops():
        if bb in body and (best is None or len(body) < len(best[1])):
            best = (h, body)
    return best


def arm(sw, idx):
    """target block of variant idx of an enum switch (explicit arm or the otherwise edge)"""
    return sw['arms'].get(idx, sw['otherwise'])


# --------------------------------------------------------------------------- symbolic value expressions
COMMUTATIVE = {'Add', 'AddWithOverflow', 'Mul', 'MulWithOverflow', 'BitAnd', 'BitOr', 'BitXor', 'Eq', 'Ne', 'AddUnchecked'}
_NORM_OP = {'AddWithOverflow': 'Add', 'SubWithOverflow': 'Sub', 'MulWithOverflow': 'Mul', 'AddUnchecked': 'Add', 'SubUnchecked': 'Sub'}


def vexpr(fn, op, depth=16, _seen=None, at=None):
    """Canonical symbolic expression (a string) of the value of an operand / place inside one function, built from
    parameters, constants, field paths, arithmetic and the result of calls. Two equal strings denote the same
    computation (reads of the same place are identified; the caller must rule out intervening writes, or declare them
    with store_overlay(): a read of a declared place at a statement the store dominates evaluates to the stored value)."""
    _seen = _seen or set()
    if op is None:
        return '?'
    if 'c' in op and 'l' not in op:
        if 'int' in op:
            return str(op['int'])
        if 'str' in op:
            return repr(op['str'])
        if 'fn' in op:
            return 'fn:' + op['fn']
        return 'const<%s>%s' % (op['c'], (':' + op['uneval']) if 'uneval' in op else '')
    p = op_place(op) if ('cp' in op or 'mv' in op) else op
    return _vexpr_place(fn, p, depth, _seen, at)


def store_overlay(fn, stores):
    """Declare stores to parameter-based places for vexpr: stores = [(place string such as 'arg1.pos', bb, statement index, value string)].
    The value string is in terms of the state before the store."""
    fn._overlay = list(stores)


def _after(fn, at, bb, j):
    if at is None:
        return False
    if at[0] == bb:
        return at[1] is None or (j is not None and at[1] > j)
    return fn.dominates(bb, at[0])


def _vexpr_place(fn, p, depth, seen, at=None):
    l = p['l']
    projs = [x for x in place_projs(p)]
    suffix = ''.join(proj_str(x) for x in projs if x != '*')
    if 1 <= l <= fn.argc:
        for ps, bb, j, val in getattr(fn, '_overlay', ()):
            if ps == 'arg%d%s' % (l, suffix) and _after(fn, at, bb, j):
                return val
        return 'arg%d%s' % (l, suffix)
    if depth <= 0 or l in seen:
        return '_%d%s' % (l, suffix)
    defs = [d for d in fn.defs_of(l) if d[0] in ('assign', 'call')]
    if len(defs) != 1:
        if not defs:
            return 'undef_%d%s' % (l, suffix)
        return 'phi(%s)%s' % ('|'.join(sorted(_vexpr_def(fn, d, depth - 1, seen | {l}) for d in defs)), suffix)
    d0 = defs[0]
    if d0[0] == 'assign' and d0[3]['k'] == 'bin' and d0[3]['op'] in ('AddWithOverflow', 'SubWithOverflow', 'MulWithOverflow') and suffix.startswith('.0'):
        suffix = suffix[2:]      # (result, overflowed).0 of a checked operation (debug builds) is the result: same text as the release build's plain operation
    return _vexpr_def(fn, d0, depth - 1, seen | {l}) + suffix


def _vexpr_def(fn, d, depth, seen):
    if getattr(fn, '_overlay', None):
        return _vexpr_def_at(fn, d, depth, seen)
    if d[0] == 'call':
        c = d[3]
        nm = c.name()
        if nm in ('len',) and c.args:
            return 'len(%s)' % vexpr(fn, c.args[0], depth, seen)
        if fn._transparent(c) and c.args:
            return vexpr(fn, c.args[0], depth, seen)
        if nm in ('branch',) and c.args:    # Try::branch(x) keeps the payload
            return vexpr(fn, c.args[0], depth, seen)
        return '%s(%s)' % (nm, ','.join(vexpr(fn, a, depth, seen) for a in c.args))
    rv = d[3]
    k = rv['k']
    if k in ('use', 'cast'):
        return vexpr(fn, rv['a'], depth, seen)
    if k in ('ref', 'rawptr'):
        return _vexpr_place(fn, rv['p'], depth, seen)
    if k == 'bin':
        a = vexpr(fn, rv['a'], depth, seen)
        b = vexpr(fn, rv['b'], depth, seen)
        op = _NORM_OP.get(rv['op'], rv['op'])
        if rv['op'] in COMMUTATIVE or op in COMMUTATIVE:
            a, b = sorted([a, b])
        return '%s(%s,%s)' % (op, a, b)
    if k == 'un':
        return '%s(%s)' % (rv['op'], vexpr(fn, rv['a'], depth, seen))
    if k == 'agg':
        if rv['ak'] == 'adt':
            return '%s::%s{%s}' % (rv['adt'].rsplit('::', 1)[-1], rv['v'], ','.join('%s:%s' % (n, vexpr(fn, o, depth, seen)) for n, o in zip(rv['fn'], rv['ops'])))
        return '%s(%s)' % (rv['ak'], ','.join(vexpr(fn, o, depth, seen) for o in rv['ops']))
    if k == 'discr':
        return 'discr(%s)' % _vexpr_place(fn, rv['p'], depth, seen)
    return k



def _vexpr_def_at(fn, d, depth, seen):
    at = (d[1], d[2])
    if d[0] == 'call':
        c = d[3]
        nm = c.name()
        if nm in ('len',) and c.args:
            return 'len(%s)' % vexpr(fn, c.args[0], depth, seen, at)
        if fn._transparent(c) and c.args:
            return vexpr(fn, c.args[0], depth, seen, at)
        if nm in ('branch',) and c.args:    # Try::branch(x) keeps the payload
            return vexpr(fn, c.args[0], depth, seen, at)
        return '%s(%s)' % (nm, ','.join(vexpr(fn, a, depth, seen, at) for a in c.args))
    rv = d[3]
    k = rv['k']
    if k in ('use', 'cast'):
        return vexpr(fn, rv['a'], depth, seen, at)
    if k in ('ref', 'rawptr'):
        return _vexpr_place(fn, rv['p'], depth, seen, at)
    if k == 'bin':
        a = vexpr(fn, rv['a'], depth, seen, at)
        b = vexpr(fn, rv['b'], depth, seen, at)
        op = _NORM_OP.get(rv['op'], rv['op'])
        if rv['op'] in COMMUTATIVE or op in COMMUTATIVE:
            a, b = sorted([a, b])
        return '%s(%s,%s)' % (op, a, b)
    if k == 'un':
        return '%s(%s)' % (rv['op'], vexpr(fn, rv['a'], depth, seen, at))
    if k == 'agg':
        if rv['ak'] == 'adt':
            return '%s::%s{%s}' % (rv['adt'].rsplit('::', 1)[-1], rv['v'], ','.join('%s:%s' % (n, vexpr(fn, o, depth, seen, at)) for n, o in zip(rv['fn'], rv['ops'])))
        return '%s(%s)' % (rv['ak'], ','.join(vexpr(fn, o, depth, seen, at) for o in rv['ops']))
    if k == 'discr':
        return 'discr(%s)' % _vexpr_place(fn, rv['p'], depth, seen, at)
    return k

def try_edges(fn, call):
    """For a call whose Result/Option is tested (`?`, match, if let, is_ok/is_some): list of (branch_bb, ok_target, err_target)."""
    out = []
    if call.dest is None or not is_bare(call.dest):
        return out
    dl = call.dest['l']
    # through Try::branch
    for c in fn.calls():
        if c.name() == 'branch' and c.args and op_place(c.args[0]) is not None and op_place(c.args[0])['l'] == dl:
            out += _discr_edges(fn, c.dest['l'], ok_idx=0)
    out += _discr_edges(fn, dl, ok_idx=None)
    for b in branches_on_call(fn, lambda x: x.name() in ('is_some', 'is_ok', 'is_none', 'is_err')):
        chk = b['call']
        src = fn.origin(chk.args[0])
        if any(t[0] == 'call' and t[1] is call for t in src):
            good = b['true'] if chk.name() in ('is_some', 'is_ok') else b['false']
            bad = b['false'] if chk.name() in ('is_some', 'is_ok') else b['true']
            out.append((b['bb'], good, bad))
    return out


def _discr_edges(fn, local, ok_idx):
    out = []
    for i, blk in enumerate(fn.blocks):
        t = blk['t']
        if t['k'] != 'switch' or t['ty'] != 'isize':
            continue
        p = op_place(t['d'])
        if p is None or not is_bare(p):
            continue
        for d in fn.defs_of(p['l']):
            if d[0] == 'assign' and d[3]['k'] == 'discr' and d[3]['p']['l'] == local and not [x for x in place_projs(d[3]['p']) if x != '*']:
                adt = d[3].get('adt') or ''
                arms = {int(v): tgt for v, tgt in t['ts']}
                if ok_idx is not None:
                    oi, ei = ok_idx, 1 - ok_idx
                elif adt.endswith('result::Result'):
                    oi, ei = 0, 1
                elif adt.endswith('option::Option'):
                    oi, ei = 1, 0
                else:
                    continue
                out.append((i, arms.get(oi, t['else']), arms.get(ei, t['else'])))
    return out


def ok_dominates(fn, call, bb):
    """True if block bb is reachable only through the success edge of `call`'s result test."""
    return any(ok != err and fn.edge_dominates(b, ok, bb) for b, ok, err in try_edges(fn, call))


# --------------------------------------------------------------------------- interprocedural value sources
import re as _re


def sources_of(prog, fn, operand, depth=4, _seen=None):
    """Where a value comes from across calls: returns a set of (function path, symbolic expression) pairs. A bare parameter
    `argN` is traced to the corresponding argument at every call site of the function (closures: to the captured upvar);
    `argN.<field>` of a locally constructed struct is traced to the operand stored into that field where the struct is built."""
    _seen = _seen or set()
    ex = vexpr(fn, operand) if isinstance(operand, dict) else operand
    key = (fn.path, ex)
    if depth <= 0 or key in _seen:
        return {(fn.path, ex)}
    _seen = _seen | {key}
    m = _re.match(r'^arg(\d+)((?:\.[\w#]+)*)$', ex)
    if not m:
        return {(fn.path, ex)}
    n = int(m.group(1))
    fields = [x for x in m.group(2).split('.') if x]
    out = set()
    if fn.kind == 'closure' and n == 1 and fields and fields[0].isdigit():
        # captured variable: operand stored into the closure where it is built
        for g in prog.fns.values():
            if g.root != fn.root and g.path != fn.root:
                continue
            for bb, j, lhs, rv, s in g.assigns():
                if rv['k'] == 'agg' and rv.get('ak') == 'closure' and rv.get('def') == fn.path:
                    idx = int(fields[0])
                    if idx < len(rv['ops']):
                        sub = sources_of(prog, g, rv['ops'][idx], depth - 1, _seen)
                        if len(fields) > 1:
                            sub = {(p, e + '.' + '.'.join(fields[1:])) for p, e in sub}
                        out |= sub
        return out or {(fn.path, ex)}
    if not fields:
        callers = prog.callers_of(fn.path)
        callers = [c for c in callers if c.resolved == fn.path or c.callee == fn.path]
        if not callers:
            return {(fn.path, ex)}
        for c in callers:
            if n - 1 < len(c.args):
                out |= sources_of(prog, c.fn, c.args[n - 1], depth - 1, _seen)
        return out or {(fn.path, ex)}
    # field of a parameter: find where that struct type is built
    ty = fn.local_ty(n)
    adt = _re.sub(r"^&(?:'\w+ )?(?:mut )?", '', ty)
    adt = _re.sub(r'<.*$', '', adt)
    hits = 0
    for a in aggregates(prog, adt):
        names = a['rv'].get('fn', [])
        if fields[0] in names:
            hits += 1
            op = a['rv']['ops'][names.index(fields[0])]
            sub = sources_of(prog, a['fn'], op, depth - 1, _seen)
            if len(fields) > 1:
                sub = {(p, e + '.' + '.'.join(fields[1:])) for p, e in sub}
            out |= sub
    return out or {(fn.path, ex)}


def variant_edges(fn, adt_pat, variant_idx, nvariants):
    """Edges taken exactly when an enum value is of variant `variant_idx`: either the arm of a direct match, or - for the
    `matches!(x, V(..))` idiom - the edge of the later bool switch on the flag that only that arm sets differently.
    Returns list of (src_bb, dst_bb, other_dst_bb)."""
    out = []
    for sw in enum_switches(fn, adt_pat):
        tgt = arm(sw, variant_idx)
        others = {arm(sw, k) for k in range(nvariants) if k != variant_idx}
        if tgt in others:
            continue
        flags = {}
        for k in range(nvariants):
            b = arm(sw, k)
            for s in fn.blocks[b]['s']:
                if 'lhs' in s and is_bare(s['lhs']) and s['rv']['k'] == 'use' and const_int(s['rv']['a']) in (0, 1) and s['rv']['a'].get('c') == 'bool':
                    flags.setdefault(s['lhs']['l'], {})[k] = const_int(s['rv']['a'])
        used_flag = False
        for l, m in flags.items():
            if len(m) >= 2 and variant_idx in m and all(v != m[variant_idx] for k, v in m.items() if k != variant_idx):
                for bb, p, ts, fs in bool_branches(fn):
                    if p is not None and is_bare(p) and p['l'] == l:
                        used_flag = True
                        if m[variant_idx] == 1:
                            out.append((bb, ts, fs))
                        else:
                            out.append((bb, fs, ts))
        if not used_flag:
            other = next(iter(others)) if others else None
            out.append((sw['bb'], tgt, other))
    return out


def base_local(fn, operand, depth=16):
    """The local an operand's value is rooted in: follows copies, references, derefs and field projections through
    single definitions; stops at parameters, call results and locals with several definitions (loop-carried values)."""
    p = op_place(operand) if isinstance(operand, dict) and ('cp' in operand or 'mv' in operand) else operand
    if p is None or 'l' not in p:
        return None
    l = p['l']
    for _ in range(depth):
        if 1 <= l <= fn.argc:
            return l
        defs = [d for d in fn.defs_of(l) if d[0] in ('assign', 'call')]
        if len(defs) != 1 or defs[0][0] == 'call':
            if len(defs) == 1 and defs[0][0] == 'call' and fn._transparent(defs[0][3], wide=False) and defs[0][3].args and op_place(defs[0][3].args[0]) is not None:
                l = op_place(defs[0][3].args[0])['l']
                continue
            return l
        rv = defs[0][3]
        if rv['k'] in ('use', 'cast') and op_place(rv['a']) is not None:
            l = op_place(rv['a'])['l']
        elif rv['k'] in ('ref', 'rawptr'):
            l = rv['p']['l']
        else:
            return l
    return l


def variant_str_table(prog, fn, adt_pat):
    """{variant name: string constant assigned in its match arm (None if the arm assigns no string constant)} for the first
    match on an `adt_pat` value in fn (the `match self { Self::A => "a", .. }` idiom)."""
    from mirlib import const_str
    sws = enum_switches(fn, adt_pat)
    if not sws:
        raise AnchorMissing('match on %s in %s' % (adt_pat, fn.path))
    sw = sws[0]
    a = prog.adts.get(sw['adt'])
    if a is None:
        raise AnchorMissing('ADT %s' % sw['adt'])
    out = {}
    for vi, v in enumerate(a['variants']):
        tgt = arm(sw, vi)
        val = None
        if vi in sw['arms'] or fn.blocks[sw['otherwise']]['t']['k'] != 'unreachable':
            for s in fn.blocks[tgt]['s']:
                if 'lhs' in s and s['rv']['k'] == 'use' and const_str(s['rv']['a']) is not None:
                    val = const_str(s['rv']['a'])
                    break
        out[v['n']] = val
    return out


def variants_reaching(fn, adt_pat, target_bb):
    """Set of variant indexes of the (first) match on an `adt_pat` value in fn for which block target_bb can be reached, following
    the constant flags a `matches!(x, A | B)` arm sets (flag = true / false) through the later switch on that flag."""
    sws = enum_switches(fn, adt_pat)
    if not sws:
        raise AnchorMissing('match on %s in %s' % (adt_pat, fn.path))
    sw = sws[0]
    out = set()
    nvar = max(list(sw['arms'].keys()) + [0]) + 1
    return_all = lambda: None
    def reach_from(start):
        env = {}
        seen = set()
        stack = [(start, ())]
        visited = set()
        while stack:
            bb, envt = stack.pop()
            env = dict(envt)
            if (bb, envt) in seen:
                continue
            seen.add((bb, envt))
            visited.add(bb)
            blk = fn.blocks[bb]
            for s in blk['s']:
                if 'lhs' in s and is_bare(s['lhs']) and s['rv']['k'] == 'use' and s['rv']['a'].get('c') == 'bool' and const_int(s['rv']['a']) in (0, 1):
                    env[s['lhs']['l']] = const_int(s['rv']['a'])
            t = blk['t']
            nxt = []
            if t['k'] == 'switch':
                p = op_place(t['d'])
                if p is not None and is_bare(p) and p['l'] in env and t.get('ty') == 'bool':
                    v = env[p['l']]
                    tg = None
                    for val, b2 in t['ts']:
                        if int(val) == v:
                            tg = b2
                    nxt = [tg if tg is not None else t['else']]
                else:
                    nxt = [b2 for _, b2 in t['ts']] + [t['else']]
            elif t['k'] == 'goto':
                nxt = [t['t']]
            elif t['k'] == 'return':
                nxt = []
            else:
                if isinstance(t.get('t'), int):
                    nxt = [t['t']]
            for n2 in nxt:
                stack.append((n2, tuple(sorted(env.items()))))
        return visited
    return sw, {k for k in set(sw['arms'].keys()) | {'otherwise'} if target_bb in reach_from(sw['arms'][k] if k != 'otherwise' else sw['otherwise'])}
