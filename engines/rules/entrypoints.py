"""Entry points used for reachability (DESIGN.md section 5)."""
import panics


def slicec_roots(prog):
    roots = ['slicec::compile_from_options', 'slicec::compile_from_strings', 'slicec_bin::main',
             'slicec::compilation_state::CompilationState::emit_diagnostics',
             'slicec::compilation_state::CompilationState::into_diagnostics',
             'slicec::diagnostic_emitter::emit_totals', 'slicec::diagnostics::diagnostic::get_totals',
             'slicec::slice_options::plugin_parser']
    roots += [p for p in prog.fns if 'DiagnosticEmitter' in p and p.endswith('::emit_diagnostics')]
    roots += [p for p in prog.fns if p.startswith('slicec::visitor::<impl') and p.endswith('::visit_with')]
    # methods of local impls of foreign traits are called back from std / serde / clap generic code
    roots += panics.roots_foreign_impls(prog, ('slicec', 'slicec_bin'))
    return [r for r in roots if r in prog.fns]


def codec_roots(prog):
    roots = []
    for p, f in prog.fns.items():
        if f.crate.tag != 'slice_codec' or f.kind == 'closure':
            continue
        if (f.vis or '').startswith('Public') or f.impl_trait:
            roots.append(p)
    return roots
