"""Tables read from the LALRPOP-generated parsers of the current build (copied out of OUT_DIR into <facts>/gen/*.rs):
productions with their action numbers (from the `// Nt = syms => ActionFn(k);` comments LALRPOP emits in every reduction),
the terminal table and the TokenKind -> terminal index match. The generated text is machine-made and regular; anything
unexpected raises AnchorMissing (fail closed)."""
import os
import re

from mirlib import AnchorMissing


class Gen:
    def __init__(self, facts_dir, name):
        p = os.path.join(facts_dir, 'gen', name + '.rs')
        if not os.path.exists(p):
            raise AnchorMissing('generated parser %s' % p)
        self.name = name
        self.text = open(p).read()
        self.productions = []      # dict(nt, syms[list], action, reduce)
        cur = None
        for m in re.finditer(r'fn __reduce(\d+)<|^\s*// (.+?) = (.*?) => ActionFn\((\d+)\);\s*$', self.text, re.M):
            if m.group(1) is not None:
                cur = int(m.group(1))
            else:
                nt, syms, k = m.group(2), m.group(3), int(m.group(4))
                syms = [s.strip() for s in _split_syms(syms) if s.strip()]
                self.productions.append({'nt': nt.strip(), 'syms': syms, 'action': k, 'reduce': cur})
        if len(self.productions) < 10:
            raise AnchorMissing('productions in generated parser %s (found %d)' % (name, len(self.productions)))
        m = re.search(r'const __TERMINAL: &\[&str\] = &\[(.*?)\];', self.text, re.S)
        if not m:
            raise AnchorMissing('__TERMINAL table in %s' % name)
        self.terminals = re.findall(r'r###"(.*?)"###', m.group(1), re.S)
        m = re.search(r'fn __token_to_integer<.*?match __token \{(.*?)_ => None', self.text, re.S)
        if not m:
            raise AnchorMissing('__token_to_integer in %s' % name)
        self.token_index = {}
        for v, i in re.findall(r'TokenKind::(\w+)(?:\(_\))? if true => Some\((\d+)\)', m.group(1)):
            self.token_index[v] = int(i)

    def terminal_of_token(self, variant):
        i = self.token_index.get(variant)
        return self.terminals[i] if i is not None and i < len(self.terminals) else None

    def prods_of(self, nt):
        return [p for p in self.productions if p['nt'] == nt]


def _split_syms(s):
    """split a production right-hand side at top-level commas (parenthesised groups like (":" <T>)? contain commas/spaces)"""
    out = []
    depth = 0
    cur = ''
    i = 0
    while i < len(s):
        ch = s[i]
        if ch == '"':
            j = s.index('"', i + 1)
            cur += s[i:j + 1]
            i = j + 1
            continue
        if ch in '(<':
            depth += 1
        elif ch in ')>':
            depth -= 1
        if ch == ',' and depth == 0:
            out.append(cur)
            cur = ''
        else:
            cur += ch
        i += 1
    out.append(cur)
    return out


def action_fn(prog, crate_mod, k):
    """MIR function of user/wrapper action k of a generated parser (crate_mod e.g. 'slicec::parsers::preprocessor::grammar::lalrpop')"""
    p = '%s::__action%d' % (crate_mod, k)
    f = prog.fns.get(p)
    if f is None:
        raise AnchorMissing('generated action %s' % p)
    return f
