"""Tables read from the LALRPOP-generated parsers of the current build (copied out of OUT_DIR into <facts>/gen/*.rs):
productions with their action numbers (from the `// Nt = syms => ActionFn(k);` comments LALRPOP emits in every reduction),
the terminal table and the TokenKind -> terminal index match. The generated text is machine-made and regular; anything
unexpected raises AnchorMissing (fail closed)."""
import os
import re

from mirlib import AnchorMissing


class Gen:
    def __init__(self, facts_dir, name):
        p = os.path.join(facts_dir, 'gen', name + '.rs')
        if not os.path.exists(p):
            raise AnchorMissing('generated parser %s' % p)
        self.name = name
        self.text = open(p).read()
        self.productions = []      # dict(nt, syms[list], action, reduce)
        cur = None
        for m in re.finditer(r'fn __reduce(\d+)<|^\s*// (.+?) = (.*?) => ActionFn\((\d+)\);\s*$', self.text, re.M):
            if m.group(1) is not None:
                cur = int(m.group(1))
            else:
                nt, syms, k = m.group(2), m.group(3), int(m.group(4))
                syms = [s.strip() for s in _split_syms(syms) if s.strip()]
                self.productions.append({'nt': nt.strip(), 'syms': syms, 'action': k, 'reduce': cur})
        if len(self.productions) < 10:
            raise AnchorMissing('productions in generated parser %s (found %d)' % (name, len(self.productions)))
        m = re.search(r'const __TERMINAL: &\[&str\] = &\[(.*?)\];', self.text, re.S)
        if not m:
            raise AnchorMissing('__TERMINAL table in %s' % name)
        self.terminals = re.findall(r'r###"(.*?)"###', m.group(1), re.S)
        m = re.search(r'fn __token_to_integer<.*?match __token \{(.*?)_ => None', self.text, re.S)
        if not m:
            raise AnchorMissing('__token_to_integer in %s' % name)
        self.token_index = {}
        for v, i in re.findall(r'TokenKind::(\w+)(?:\(_\))? if true => Some\((\d+)\)', m.group(1)):
            self.token_index[v] = int(i)

    def terminal_of_token(self, variant):
        i = self.token_index.get(variant)
        return self.terminals[i] if i is not None and i < len(self.terminals) else None

    def prods_of(self, nt):
        return [p for p in self.productions if p['nt'] == nt]


def _split_syms(s):
    """split a production right-hand side at top-level commas (parenthesised groups like (":" <T>)? contain commas/spaces)"""
    out = []
    depth = 0
    cur = ''
    i = 0
    while i < len(s):
        ch = s[i]
        if ch == '"':
            j = s.index('"', i + 1)
            cur += s[i:j + 1]
            i = j + 1
            continue
        if ch in '(<':
            depth += 1
        elif ch in ')>':
            depth -= 1
        if ch == ',' and depth == 0:
            out.append(cur)
            cur = ''
        else:
            cur += ch
        i += 1
    out.append(cur)
    return out


def action_fn(prog, crate_mod, k):
    """MIR function of user/wrapper action k of a generated parser (crate_mod e.g. 'slicec::parsers::preprocessor::grammar::lalrpop')"""
    p = '%s::__action%d' % (crate_mod, k)
    f = prog.fns.get(p)
    if f is None:
        raise AnchorMissing('generated action %s' % p)
    return f


# ---------------------------------------------------------------------------------------------------------------
# E3: symbolic expansion of the generated reduce actions. LALRPOP expands `?`, `*`, `+`, `@L`, `@R` and inlined
# nonterminals into one production per combination and one wrapper action per production; the wrapper feeds the
# grammar author's action ("user action") with the production's symbols, with synthesised values for absent or
# macro-made symbols. Wrappers are emitted from a fixed template (let __startN / __endN / __tempN, final call), which
# is parsed here; anything that does not fit the template raises AnchorMissing.

BUILTIN = [
    (r'^Some\(__0\)$', 'some'), (r'^None$', 'none'), (r'^alloc::vec!\[\]$', 'nil'), (r'^alloc::vec!\[__0\]$', 'one'),
    (r'^\{ let mut v = v; v\.push\(e\); v \}$', 'push'), (r'^\*__lookahead$', 'lookahead'), (r'^\*__lookbehind$', 'lookbehind'),
    (r'^\(__0, __1\)$', 'pair'),
]


class Actions:
    def __init__(self, gen):
        self.gen = gen
        self.acts = {}
        chunks = re.split(r'\nfn __action(\d+)<', gen.text)
        for i in range(1, len(chunks), 2):
            n = int(chunks[i])
            body = chunks[i + 1]
            m = re.match(r"(.*?)>\(\n(.*?)\n\) -> (.*?)\n\{\n(.*?)\n\}\n", body, re.S)
            if not m:
                m = re.match(r"(.*?)>\(\n(.*?)\n\)\n\{\n(.*?)\n?\}\n", body, re.S)
                if not m:
                    raise AnchorMissing('shape of generated action %d in %s' % (n, gen.name))
                params, ret, code = m.group(2), '()', m.group(3)
            else:
                params, ret, code = m.group(2), m.group(3), m.group(4)
            ps = []
            for line in params.split('\n'):
                line = line.strip().rstrip(',')
                if not line:
                    continue
                pm = re.match(r'^\(_, (mut )?(\w+), _\): \((.*)\)$', line)
                if pm:
                    ps.append({'name': pm.group(2), 'triple': True})
                    continue
                pm = re.match(r'^(\w+): (.*)$', line)
                if not pm:
                    raise AnchorMissing('parameter %r of generated action %d' % (line, n))
                ps.append({'name': pm.group(1), 'triple': pm.group(2).startswith('(')})
            flat = re.sub(r'\s+', ' ', code.strip())
            kind = 'user'
            if re.search(r'\b__temp\d+\b', flat) or re.match(r'^__action\d+\( \w+,', flat):
                kind = 'wrapper'
            else:
                for pat, k in BUILTIN:
                    if re.match(pat, flat):
                        kind = k
                names = [p['name'] for p in ps[1:]]
                if kind == 'user' and flat in names and names.count(flat) == 1 and re.match(r'^\w+$', flat):
                    kind = 'sel:%d' % names.index(flat)     # `<>` / `<x>`: the value of one symbol, unchanged
            self.acts[n] = {'n': n, 'params': ps, 'ret': ret, 'code': code, 'flat': flat, 'kind': kind}
        if len(self.acts) < 20:
            raise AnchorMissing('generated actions in %s' % gen.name)

    # terms:
    #   ('sym', i)                        the (start, value, end) triple of production symbol i
    #   ('trip', start, value, end)       a synthesised triple
    #   ('loc', i, 's'|'e')               start / end location of production symbol i
    #   ('call', n, [terms])              value computed by base action n
    def _start(self, t):
        return ('loc', t[1], 's') if t[0] == 'sym' else t[1]

    def _end(self, t):
        return ('loc', t[1], 'e') if t[0] == 'sym' else t[3]

    def expand(self, n, args):
        a = self.acts.get(n)
        if a is None:
            raise AnchorMissing('generated action %d' % n)
        if a['kind'] != 'wrapper':
            return ('call', n, list(args))
        env = {}
        names = [p['name'] for p in a['params'][1:]]
        if not args and names == ['__lookbehind', '__lookahead']:
            env = {'__lookbehind': ('here', 'behind'), '__lookahead': ('here', 'ahead')}     # wrapper of an empty production
        else:
            for p, t in zip(a['params'][1:], args):
                env[p['name']] = t
            if len(names) != len(args):
                raise AnchorMissing('arity of generated action %d' % n)
        stmts = [s.strip() for s in re.split(r';\s*\n', a['code'].strip())]
        final = None
        for s in stmts:
            s1 = re.sub(r'\s+', ' ', s)
            m = re.match(r'^let (__(?:start|end)\d+) = (__\w+)\.(0|2)$', s1)
            if m:
                src = env.get(m.group(2))
                if src is None:
                    raise AnchorMissing('unknown %s in action %d' % (m.group(2), n))
                env[m.group(1)] = self._start(src) if m.group(3) == '0' else self._end(src)
                continue
            m = re.match(r'^let (__(?:start|end)\d+) = \*(__lookbehind|__lookahead)$', s1)
            if m:
                env[m.group(1)] = env[m.group(2)]
                continue
            m = re.match(r'^let (__temp\d+) = \((__start\d+), (__temp\d+), (__end\d+)\)$', s1)
            if m:
                env[m.group(1)] = ('trip', env[m.group(2)], env[m.group(3)], env[m.group(4)])
                continue
            m = re.match(r'^(?:let (__temp\d+) = )?__action(\d+)\( \w+,? ?(.*?),? ?\)$', s1)
            if m:
                argv = []
                for x in [y.strip() for y in m.group(3).split(',') if y.strip()]:
                    x = x.lstrip('&')
                    if x not in env:
                        raise AnchorMissing('unknown %s in action %d' % (x, n))
                    argv.append(env[x])
                v = self.expand(int(m.group(2)), argv)
                if m.group(1):
                    env[m.group(1)] = v
                else:
                    final = v
                continue
            raise AnchorMissing('statement %r of generated wrapper action %d' % (s1[:80], n))
        if final is None:
            raise AnchorMissing('final call of generated wrapper action %d' % n)
        return final

    # values: semantic reading of a term
    #   ('S', i)  value of symbol i;  ('some', v) / ('none',);  ('list', [v..]);  ('push', list, v)
    #   ('at', loc)  a location;  ('pair', a, b);  ('U', n, [v..]) result of grammar-author action n
    def value(self, t):
        if t[0] == 'sym':
            return ('S', t[1])
        if t[0] == 'trip':
            return self.value(t[2])
        if t[0] == 'loc':
            return ('at', t)
        if t[0] == 'here':
            return t
        if t[0] == 'call':
            a = self.acts[t[1]]
            k = a['kind']
            av = [self.value(x) for x in t[2]]
            if k == 'some':
                return ('some', av[0])
            if k == 'none':
                return ('none',)
            if k == 'nil':
                return ('list', [])
            if k == 'one':
                return ('list', [av[0]])
            if k == 'push':
                return ('list', av[0][1] + [av[1]]) if av[0][0] == 'list' else ('push', av[0], av[1])
            if k == 'lookahead':
                return av[1] if av else ('here', 'ahead')
            if k == 'lookbehind':
                return av[0] if av else ('here', 'behind')
            if k == 'pair':
                return ('pair', av[0], av[1])
            if k.startswith('sel:'):
                return av[int(k[4:])]
            return ('U', t[1], av)
        raise AnchorMissing('term %r' % (t,))

    def production_value(self, p):
        return self.value(self.expand(p['action'], [('sym', i) for i in range(len(p['syms']))]))


def show(v, syms):
    k = v[0]
    if k == 'S':
        return 'S%d:%s' % (v[1], syms[v[1]])
    if k == 'some':
        return 'Some(%s)' % show(v[1], syms)
    if k == 'none':
        return 'None'
    if k == 'list':
        return '[%s]' % ', '.join(show(x, syms) for x in v[1])
    if k == 'push':
        return 'push(%s, %s)' % (show(v[1], syms), show(v[2], syms))
    if k == 'at':
        return '%s(S%d:%s)' % ('start' if v[1][2] == 's' else 'end', v[1][1], syms[v[1][1]])
    if k == 'pair':
        return '(%s, %s)' % (show(v[1], syms), show(v[2], syms))
    if k == 'here':
        return '@' + v[1]
    if k == 'U':
        return 'A%d(%s)' % (v[1], ', '.join(show(x, syms) for x in v[2]))
    return repr(v)
