"""Phase gating (shared by C01.4, C07.4, C17.4): each compilation phase runs only if no error was
recorded so far."""
import json

from mirlib import AnchorMissing, op_place, path_matches
from helpers import branches_on_call, origin_calls, origin_summary

STATE = 'slicec::compilation_state::CompilationState'
HAS_ERRORS = 'diagnostics::diagnostic::Diagnostics::has_errors'


def phase_functions(prog):
    out = []
    for f in prog.fns.values():
        if f.crate.tag != 'slicec' or f.kind == 'closure':
            continue
        ins = f.raw.get('inputs')
        if ins == ['&mut ' + STATE] and f.raw.get('output') == '()' and f.impl_adt != STATE:
            out.append(f)
    return sorted(out, key=lambda f: f.path)


def _fn_const_refs(f):
    """(bb, fn path, how) for every function-item constant mentioned in f (other than as direct callee)."""
    out = []
    for bb, j, s in f.stmts():
        if 'lhs' not in s:
            continue
        rv = s['rv']
        ops = []
        if rv['k'] in ('use', 'cast', 'un', 'repeat'):
            ops = [rv['a']]
        elif rv['k'] == 'agg':
            ops = rv['ops']
        for o in ops:
            if o is not None and 'c' in o and 'fn' in o:
                out.append((bb, o['fn'], rv['k'], s['lhs']))
    for c in f.calls():
        for i, a in enumerate(c.args):
            if a is not None and 'c' in a and 'fn' in a:
                out.append((c.bb, a['fn'], 'arg%d:%s' % (i, c.resolved), None))
    return out


def r_phase_gating(r, prog):
    phases = phase_functions(prog)
    names = {f.path for f in phases}
    if len(phases) < 5:
        raise AnchorMissing('expected at least 5 phase functions fn(&mut CompilationState), found %s' % sorted(names))
    apply_fns = [prog.fn(STATE + '::apply'), prog.fn(STATE + '::apply_unsafe')]
    apply_paths = {f.path for f in apply_fns}
    # (a) no direct call of a phase function, every mention flows into apply*/apply_unsafe
    for f in prog.fns.values():
        for c in f.calls():
            if c.resolved in names:
                r.finding('phase-called-directly:%s:from:%s' % (c.resolved, f.path), c.span,
                          'compilation phase %s is called directly from %s, bypassing CompilationState::apply (it would run although errors were recorded)' % (c.resolved, f.path))
        refs = [x for x in _fn_const_refs(f) if x[1] in names]
        if not refs:
            continue
        flowing = set()
        for c in f.calls():
            if c.resolved in apply_paths and len(c.args) >= 2:
                for t in f.origin(c.args[1]):
                    if t[0] == 'const':
                        d = json.loads(t[1])
                        if 'fn' in d:
                            flowing.add(d['fn'])
        for bb, fp, how, lhs in refs:
            if fp in flowing and (how in ('cast', 'use') or how.startswith('arg1:')):
                r.ok('%s passed to apply* in %s' % (fp, f.path))
            else:
                r.finding('phase-escapes-apply:%s:in:%s' % (fp, f.path), f.span,
                          'the address of compilation phase %s is taken in %s but does not flow into CompilationState::apply/apply_unsafe' % (fp, f.path))
    # every phase function must actually be wired (a phase nobody runs is a phase not applied)
    mentioned = set()
    for f in prog.fns.values():
        for x in _fn_const_refs(f):
            mentioned.add(x[1])
    for p in sorted(names):
        if p in mentioned:
            r.ok('phase %s is installed' % p)
        else:
            r.finding('phase-not-installed:%s' % p, prog.fns[p].span, 'compilation phase %s is never handed to CompilationState::apply*' % p)
    # (b) apply / apply_unsafe call the pointer only on the no-errors edge of has_errors(self.diagnostics)
    for af in apply_fns:
        ptr_calls = [c for c in af.calls() if c.kind == 'fnptr']
        if not ptr_calls:
            r.finding('apply-does-not-call:%s' % af.path, af.span, '%s never calls the phase function it is given' % af.path)
            continue
        brs = []
        for b in branches_on_call(af, HAS_ERRORS):
            o = af.origin(b['call'].args[0])
            if any(t[0] == 'arg' and t[1] == 1 and t[2] == ('.diagnostics',) for t in o):
                brs.append(b)
        for c in ptr_calls:
            if brs and any(af.edge_dominates(b['bb'], b['false'], c.bb) and b['false'] != b['true'] for b in brs):
                r.ok('%s: phase call on the !has_errors() edge' % af.path, c.span)
            else:
                r.finding('apply-ungated:%s' % af.path, c.span, '%s calls the phase function on a path not dominated by the no-errors edge of self.diagnostics.has_errors()' % af.path)
    # (c) compile_from_options parses only if file resolution recorded no error
    cfo = prog.fn('slicec::compile_from_options')
    cf = cfo.calls_to('slicec::compile_files')
    if not cf:
        raise AnchorMissing('call of compile_files in compile_from_options')
    res = cfo.calls_to('utils::file_util::resolve_files_from')
    if not res:
        raise AnchorMissing('call of resolve_files_from in compile_from_options')
    brs = [b for b in branches_on_call(cfo, HAS_ERRORS)]
    for c in cf:
        good = False
        for b in brs:
            # same container that resolve_files_from reported into, tested after that call
            o1 = {str(t) for t in cfo.origin(b['call'].args[0])}
            o2 = {str(t) for t in cfo.origin(res[0].args[1])}
            if o1 & o2 and cfo.dominates(res[0].bb, b['bb']) and cfo.edge_dominates(b['bb'], b['false'], c.bb) and b['false'] != b['true']:
                good = True
        if good:
            r.ok('compile_from_options: compile_files only if resolution reported no error', c.span)
        else:
            r.finding('parse-after-resolution-error', c.span, 'compile_from_options calls compile_files on a path not dominated by the no-errors edge tested after resolve_files_from')
    r.floor(12)
