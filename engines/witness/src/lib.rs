//! E6 / T12: compile-fail witnesses. Each `compile_fail,E0xxx` block shows that code *outside* the workspace crates cannot perform
//! a write that the who-may-write rules (evaluated over MIR inside the workspace) forbid; each is followed by a compiling twin
//! (`no_run`) that differs only by the offending line, so that a witness whose paths are merely wrong does not pass by accident.
//! Nothing from /repo is executed.

/// C12: a `Reservation` cannot be forged outside slice-codec (its range is private) ...
/// ```compile_fail,E0603
/// let forged = slice_codec::buffer::Reservation(0..4);
/// ```
/// ... nor duplicated (it is neither `Clone` nor `Copy`), so one reserved range can be filled through one value only.
/// ```compile_fail,E0599
/// use slice_codec::buffer::{OutputTarget, vec::VecOutputTarget};
/// let mut bytes = Vec::new();
/// let mut target = VecOutputTarget::from(&mut bytes);
/// let reservation = target.reserve_space(4).unwrap();
/// let copy = reservation.clone();
/// ```
/// Twin: the same code without the offending lines compiles.
/// ```no_run
/// use slice_codec::buffer::{OutputTarget, vec::VecOutputTarget};
/// let mut bytes = Vec::new();
/// let mut target = VecOutputTarget::from(&mut bytes);
/// let mut reservation = target.reserve_space(4).unwrap();
/// target.write_bytes_into_reserved_exact(&mut reservation, &[1, 2, 3, 4]).unwrap();
/// ```
pub struct ReservationCannotBeForgedOrCopied;

/// C03 / C15: the name table and the element vector of the AST are private: no outside code can bind a name to a node.
/// ```compile_fail,E0616
/// let mut ast = slicec::ast::Ast::create();
/// ast.lookup_table.clear();
/// ```
/// ```compile_fail,E0616
/// let mut ast = slicec::ast::Ast::create();
/// ast.elements.clear();
/// ```
/// Twin:
/// ```no_run
/// let ast = slicec::ast::Ast::create();
/// let _ = ast.as_slice().len();
/// ```
pub struct AstTablesArePrivate;

/// C07 / C13: the level of a diagnostic cannot be rewritten from outside (an error cannot be turned into something that exits 0),
/// and the diagnostics vector cannot be edited behind the container's back.
/// ```compile_fail,E0616
/// use slicec::diagnostics::{Diagnostic, Error};
/// let mut diagnostic = Diagnostic::new(Error::IO { action: "read", path: String::new(), error: std::io::ErrorKind::NotFound.into() });
/// diagnostic.level = slicec::diagnostics::DiagnosticLevel::Allowed;
/// ```
/// ```compile_fail,E0616
/// let mut diagnostics = slicec::diagnostics::Diagnostics::new();
/// diagnostics.0.clear();
/// ```
/// Twin:
/// ```no_run
/// use slicec::diagnostics::{Diagnostic, Diagnostics, Error};
/// let diagnostic = Diagnostic::new(Error::IO { action: "read", path: String::new(), error: std::io::ErrorKind::NotFound.into() });
/// let mut diagnostics = Diagnostics::new();
/// diagnostic.push_into(&mut diagnostics);
/// assert!(diagnostics.has_errors());
/// let _ = slicec::diagnostics::DiagnosticLevel::Allowed;
/// ```
pub struct DiagnosticLevelsAreNotWritable;
